------------------------------- MODULE CacheOps -------------------------------
(* Constant-free part of the cache contract (see Cache.tla): entry arithmetic, datagram helpers and
   the ingestion operators with the vocabulary passed explicitly. *)
EXTENDS Integers, Sequences, FiniteSets

None == [c |-> -1, ttl |-> -1]
PtrMinTtl == 1125

ExpiresAt(e) == e.c + 1000 * e.ttl
IsExpired(e, now) == ExpiresAt(e) <= now

Idx(items) == 1..Len(items)
InDatagram(items) == {items[k].id : k \in Idx(items)}
HasZero(items, i) == \E k \in Idx(items) : items[k].id = i /\ items[k].ttl = 0
NonZero(items, i) == {k \in Idx(items) : items[k].id = i /\ items[k].ttl > 0}
LastNZ(items, i) == items[CHOOSE k \in NonZero(items, i) : \A j \in NonZero(items, i) : j <= k].ttl

(* ---- the same contract with the vocabulary passed explicitly (RR(_) : identity -> rrset id,
        P(_) : identity -> is PTR), for trace specifications whose vocabulary differs per trace ---- *)
EffX(P(_), i, ttl) == IF P(i) /\ ttl > 0 /\ ttl < PtrMinTtl THEN PtrMinTtl ELSE ttl
FlushKeysX(RR(_), items) == {RR(items[k].id) : k \in {j \in Idx(items) : items[j].fl}}
LastNZX(P(_), items, i) == EffX(P, i, LastNZ(items, i))
MarkedX(ids, RR(_), P(_), ch, items, now) ==
  [i \in ids |->
     IF ch[i] = None THEN None
     ELSE IF i \in InDatagram(items)
          THEN IF NonZero(items, i) # {} THEN [c |-> now, ttl |-> LastNZX(P, items, i)] ELSE ch[i]
          ELSE IF RR(i) \in FlushKeysX(RR, items) /\ now - ch[i].c > 1000 THEN [c |-> now, ttl |-> 1]
          ELSE ch[i]]
IngestX(ids, RR(_), P(_), ch, items, now) ==
  LET m == MarkedX(ids, RR, P, ch, items, now) IN
  [i \in ids |->
     IF i \in InDatagram(items)
     THEN IF ch[i] # None /\ HasZero(items, i) THEN None
          ELSE IF NonZero(items, i) # {} THEN [c |-> now, ttl |-> LastNZX(P, items, i)]
          ELSE m[i]
     ELSE m[i]]
=============================================================================
