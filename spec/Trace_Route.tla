----------------------------- MODULE Trace_Route -----------------------------
(* Code -> spec binding for the routing model: every case of Route.tla that TLC exported was handed to the real
   QueryHandler.async_response; here the real result takes the place of the model's step (out' is bound to what the code
   returned) and the contract of Route.tla is evaluated on it.  One verdict per case; "drift" tells whether the code's result
   is also the model's.  D.own selects the clauses of the running check. *)
EXTENDS Route, Json, IOUtils, TLCExt

ASSUME TLCSet(42, JsonDeserialize(IOEnv.TRACE_FILE))
D == TLCGet(42)
Cases == D.cases
N == Len(Cases)
VARIABLE tid
ToSet(s) == {s[k] : k \in 1..Len(s)}
RealOut(c) == [u |-> ToSet(c.out.u), now |-> ToSet(c.out.now), agg |-> ToSet(c.out.agg), last |-> ToSet(c.out.last),
               adds |-> [r \in Recs |-> ToSet(c.out.adds[r])]]

TInit == /\ tid \in 1..N
         /\ LET c == Cases[tid] IN
            /\ q = [k \in 1..Len(c.q) |-> [n |-> c.q[k].n, t |-> c.q[k].t, qu |-> c.q[k].qu]]
            /\ first = c.first
            /\ ucastSrc = c.ucastSrc /\ probe = c.probe /\ known = ToSet(c.known)
            /\ rec = [r \in Recs |-> c.rec[r]]
         /\ out = Empty /\ phase = "in"
TNext == /\ phase = "in" /\ phase' = "done"
         /\ out' = RealOut(Cases[tid])
         /\ UNCHANGED <<q, first, ucastSrc, probe, known, rec, tid>>
TSpec == TInit /\ [][TNext]_<<vars, tid>>

Model == IF NoStrategy THEN Empty ELSE Result(RunQuestions(Empty, 1))
QuOrProbe == probe \/ \E qq \in Qs : ~ucastSrc /\ qq.qu
Clause ==
  IF ~Asked \/ ~AddsOwn THEN "C03_RouteAsked"
  ELSE IF out.u # Want(LAMBDA x : x.u) THEN "C11_RouteUnicast"
  ELSE IF ~\E S \in Readings : RoutesUnder(S)
       THEN (IF QuOrProbe THEN "C11_RouteMulticast" ELSE "C12_RouteTiming")
  ELSE ""
Mine(cl) == cl # "" /\ (D.own = "ALL" \/ cl \in (CASE D.own = "C03" -> {"C03_RouteAsked"}
                                                  [] D.own = "C11" -> {"C11_RouteUnicast", "C11_RouteMulticast"}
                                                  [] D.own = "C12" -> {"C12_RouteTiming"}
                                                  [] OTHER -> {}))
ASSUME TLCSet(50, 0) /\ TLCSet(51, 0)
Judge == IF phase # "done" THEN TRUE
         ELSE /\ TLCSet(50, TLCGet(50) + 1)
              /\ (IF out # Model THEN TLCSet(51, TLCGet(51) + 1) /\ PrintT(<<"INFO", "drift", Cases[tid].id>>) ELSE TRUE)
              /\ (IF Mine(Clause) THEN PrintT(<<"VERDICT", Cases[tid].id, FALSE, Clause, 0>>) ELSE TRUE)
Post == PrintT(<<"INFO", "cases", TLCGet(50), "drift", TLCGet(51)>>)
=============================================================================
