SPECIFICATION Spec
CONSTANTS
  EnvTimes = {500, 999, 1000, 1001, 1100, 1174, 1175, 1176, 1300, 1349, 1350, 1351, 1500}
  MaxK = 3
  Rename = FALSE
  Horizon = 4000
  RecheckAfterWait = TRUE
VIEW view
INVARIANT NoBad
INVARIANT ProbeSchedule
INVARIANT ConflictDetected
INVARIANT DoneClean
CHECK_DEADLOCK FALSE
