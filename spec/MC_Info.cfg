SPECIFICATION Spec
CONSTANTS
  Ports = {80, 8080}
  OTtls = {4500, 120}
  HTtls = {120, 60}
  Texts = {"a", "b"}
  AddrSets = {"x", "y"}
  MaxOps = 7
  SyncKeeps = ""
  AddrsSetterKeepsExtra = FALSE
VIEW view
INVARIANT NoBad
CHECK_DEADLOCK FALSE
