SPECIFICATION Spec
CONSTANTS
  Names = {"n1", "n2", "n3"}
  Types = {"t1", "t2"}
  Hosts = {"h1", "h2"}
  MaxOps = 6
  BucketsBeforeCheck = FALSE
  RemoveByGivenInfo = FALSE
VIEW view
INVARIANT Contract
CHECK_DEADLOCK FALSE
