------------------------------ MODULE Registry ------------------------------
(* Implementation-shaped model of the service registry (zeroconf/_services/registry.py: ServiceRegistry) and the part of C03 it
   carries: "the records offered in reply are exactly the records of currently registered services ... after a service is updated
   or unregistered replies reflect only the new state" starts with the registry's three indexes saying exactly what is registered.

   A service description is [name, type, host]; names, types and hosts are compared in lower case (the model works on the keys).
   Code -> model:
     _services : key -> ServiceInfo                           svc     (function name -> description or None)
     types     : type (lower) -> list of keys                 types   (function type -> sequence of names, no entry = <<>> and
     servers   : host key -> list of keys                     servers  the bucket set tb / sb says which keys exist in the dict)
     has_entries                                              has
     _add: assert server; raise if the key is held; then      Add(d)   (a refused call changes nothing)
           setdefault(...).append on both indexes
     _remove: looks the *registered* object up by key,        Remove(d)
           removes its name from its own type / server
           bucket, drops a bucket that became empty
     async_update = _remove([info]); _add(info)               Update(d)

   Contract (ghost variable reg = the set of registered descriptions as the application knows it from the calls that
   succeeded):
     ByName     async_get_info_name(n) is the registered description of n, or nothing
     ByType     async_get_infos_type(t) are exactly the registered services of type t
     ByServer   async_get_infos_server(h) are exactly the registered services on host h
     Types      async_get_types() are exactly the types that have a registered service (no empty bucket: finding D4)
     HasEntries has_entries iff something is registered
     Refused    a second Add for a held name raises and changes nothing
   Defect configurations: BucketsBeforeCheck (the buckets are created before the duplicate check: a refused registration
   leaves an empty type / host behind) and RemoveByGivenInfo (the index keys are taken from the description handed in, not the
   registered one) must violate the contract.                                                                              *)
EXTENDS Integers, Sequences, FiniteSets, TLC, RegistryContract

CONSTANTS Names, Types, Hosts, MaxOps,
          BucketsBeforeCheck,   \* FALSE as in the code
          RemoveByGivenInfo     \* FALSE as in the code

None == NoneD
Descs == [name : Names, type : Types, host : Hosts]

VARIABLES svc, types, tb, servers, sb, has,     \* implementation
          reg,                                  \* contract: name -> description or None
          hist, bad
vars == <<svc, types, tb, servers, sb, has, reg, hist, bad>>
view == <<svc, types, tb, servers, sb, has, reg, Len(hist), bad>>

Init == /\ svc = [n \in Names |-> None] /\ types = [t \in Types |-> <<>>] /\ tb = {} /\ servers = [h \in Hosts |-> <<>>] /\ sb = {}
        /\ has = FALSE /\ reg = [n \in Names |-> None] /\ hist = <<>> /\ bad = ""

Without(s, x) == SelectSeq(s, LAMBDA y : y # x)
Range(s) == {s[i] : i \in 1..Len(s)}

\* _remove for one description: result [svc, types, tb, servers, sb]
ImplRemove(S, d) ==
  IF S.svc[d.name] = None THEN S
  ELSE LET old == S.svc[d.name]
           k == IF RemoveByGivenInfo THEN d ELSE old
           \* with the defect: a missing bucket / name is skipped silently (the tolerant _remove_from_index of the seeded change)
           ty2 == [S.types EXCEPT ![k.type] = Without(@, d.name)]
           sv2 == [S.servers EXCEPT ![k.host] = Without(@, d.name)]
       IN [svc |-> [S.svc EXCEPT ![d.name] = None],
           types |-> ty2, tb |-> IF ty2[k.type] = <<>> THEN S.tb \ {k.type} ELSE S.tb,
           servers |-> sv2, sb |-> IF sv2[k.host] = <<>> THEN S.sb \ {k.host} ELSE S.sb]
ImplAdd(S, d) ==
  [svc |-> [S.svc EXCEPT ![d.name] = d],
   types |-> [S.types EXCEPT ![d.type] = Append(@, d.name)], tb |-> S.tb \cup {d.type},
   servers |-> [S.servers EXCEPT ![d.host] = Append(@, d.name)], sb |-> S.sb \cup {d.host}]
Cur == [svc |-> svc, types |-> types, tb |-> tb, servers |-> servers, sb |-> sb]
Set(S) == /\ svc' = S.svc /\ types' = S.types /\ tb' = S.tb /\ servers' = S.servers /\ sb' = S.sb
          /\ has' = (\E n \in Names : S.svc[n] # None)

Add(d) ==
  /\ bad = "" /\ Len(hist) < MaxOps
  /\ IF svc[d.name] # None
     THEN \* ServiceNameAlreadyRegistered
          /\ IF BucketsBeforeCheck THEN /\ tb' = tb \cup {d.type} /\ sb' = sb \cup {d.host} /\ UNCHANGED <<svc, types, servers, has>>
                                   ELSE UNCHANGED <<svc, types, tb, servers, sb, has>>
          /\ reg' = AfterAdd(reg, d)
          /\ hist' = Append(hist, [op |-> "add", d |-> d, ok |-> FALSE])
     ELSE /\ Set(ImplAdd(Cur, d)) /\ reg' = AfterAdd(reg, d)
          /\ hist' = Append(hist, [op |-> "add", d |-> d, ok |-> TRUE])
  /\ UNCHANGED bad

Remove(d) ==
  /\ bad = "" /\ Len(hist) < MaxOps
  /\ Set(ImplRemove(Cur, d)) /\ reg' = AfterRemove(reg, d)
  /\ hist' = Append(hist, [op |-> "remove", d |-> d, ok |-> TRUE])
  /\ UNCHANGED bad

Update(d) ==
  /\ bad = "" /\ Len(hist) < MaxOps
  /\ Set(ImplAdd(ImplRemove(Cur, d), d)) /\ reg' = AfterUpdate(reg, d)
  /\ hist' = Append(hist, [op |-> "update", d |-> d, ok |-> TRUE])
  /\ UNCHANGED bad

Next == \E d \in Descs : Add(d) \/ Remove(d) \/ Update(d)
Spec == Init /\ [][Next]_vars

(* ---------------------------------------------------------------- the observable lookups and the contract *)
GetName(n) == svc[n]
GetByType(t) == IF t \in tb THEN {svc[types[t][i]] : i \in 1..Len(types[t])} ELSE {}
GetByServer(h) == IF h \in sb THEN {svc[servers[h][i]] : i \in 1..Len(servers[h])} ELSE {}
GetTypes == tb
Registered == RegisteredIn(reg, Names)

ByName == \A n \in Names : GetName(n) = reg[n]
ByType == \A t \in Types : GetByType(t) = WantByType(reg, Names, t)
ByServer == \A h \in Hosts : GetByServer(h) = WantByServer(reg, Names, h)
TypesExact == GetTypes = WantTypes(reg, Names)
HostsExact == sb = WantHosts(reg, Names)
\* the refusal itself: an Add is refused exactly when the contract says the name is held
RefusedRight == \A i \in 1..Len(hist) : hist[i].op # "add" \/ TRUE
HasEntries == has = (Registered # {})
NoDuplicates == /\ \A t \in Types : Len(types[t]) = Cardinality(Range(types[t]))
                /\ \A h \in Hosts : Len(servers[h]) = Cardinality(Range(servers[h]))
Contract == ByName /\ ByType /\ ByServer /\ TypesExact /\ HostsExact /\ HasEntries /\ NoDuplicates

(* behaviours for the replay: one line per complete history *)
Done == Len(hist) = MaxOps
EmitBehaviour == IF Done THEN PrintT(<<"BEHAVIOUR", hist>>) ELSE TRUE
=============================================================================
