----------------------------- MODULE Oracle_Ttl -----------------------------
(* Code -> spec binding for the lifetime predicates: the harness (props/ttloracle.py) evaluates the real DNSRecord methods on a grid
   of (created, ttl, now) around 0 / 25 / 50 / 75..95 / 100 percent of the TTL (one millisecond before, at, after) and of
   (known-answer TTL, own TTL) pairs around one half; TLC evaluates Ttl.tla on every case.  D.own selects the clauses. *)
EXTENDS Ttl, Sequences, Json, IOUtils, TLC, TLCExt

ASSUME TLCSet(42, JsonDeserialize(IOEnv.TRACE_FILE))
D == TLCGet(42)
Cases == D.cases
N == Len(Cases)
Sup == D.sup
ClausesOf == [C05 |-> {"C05_ExpiredAtFullTtl"}, C13 |-> {"C13_StaleAtHalfTtl", "C13_RemainingTtlValue"}, C11 |-> {"C11_RecentWithinQuarter"},
              C10 |-> {"C10_PercentOfTtl"}, C03 |-> {"C03_SuppressedAboveHalf"}]
Own(c) == D.own = "ALL" \/ c \in ClausesOf[D.own]

Check(i) ==
  LET x == Cases[i] IN
  /\ IF ~Own("C05_ExpiredAtFullTtl") \/ x.expired = Expired(x.c, x.ttl, x.now) THEN TRUE ELSE PrintT(<<"VERDICT", i, FALSE, "C05_ExpiredAtFullTtl", 0>>)
  /\ IF ~Own("C13_StaleAtHalfTtl") \/ x.stale = Stale(x.c, x.ttl, x.now) THEN TRUE ELSE PrintT(<<"VERDICT", i, FALSE, "C13_StaleAtHalfTtl", 0>>)
  /\ IF ~Own("C11_RecentWithinQuarter") \/ x.recent = Recent(x.c, x.ttl, x.now) THEN TRUE ELSE PrintT(<<"VERDICT", i, FALSE, "C11_RecentWithinQuarter", 0>>)
  /\ IF ~Own("C13_RemainingTtlValue") \/ x.remaining = RemainingMs(x.c, x.ttl, x.now) THEN TRUE ELSE PrintT(<<"VERDICT", i, FALSE, "C13_RemainingTtlValue", 0>>)
  /\ IF ~Own("C10_PercentOfTtl") \/ \A k \in 1..Len(x.pcts) : x.pcts[k][2] = PercentAt(x.c, x.ttl, x.pcts[k][1]) THEN TRUE
     ELSE PrintT(<<"VERDICT", i, FALSE, "C10_PercentOfTtl", 0>>)
CheckSup(i) ==
  LET y == Sup[i] IN
  IF ~Own("C03_SuppressedAboveHalf") \/ (y.rec = Suppresses(y.known, y.own) /\ y.rrset = Suppresses(y.known, y.own)) THEN TRUE
  ELSE PrintT(<<"VERDICT", N + i, FALSE, "C03_SuppressedAboveHalf", 0>>)

VARIABLE x
Init == x = 0
Next == x' = x
Spec == Init /\ [][Next]_x
Post == /\ \A i \in 1..N : Check(i)
        /\ \A i \in 1..Len(Sup) : CheckSup(i)
        /\ PrintT(<<"INFO", "cases", N, Len(Sup)>>)
=============================================================================
