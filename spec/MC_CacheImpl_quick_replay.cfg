CONSTANTS
  Ids = {1, 2, 3}
  RRTable <- MC_RR
  PtrIds = {3}
  TTLs = {0, 1, 120}
  Steps = {1000, 1001, 10000}
  MaxEvents = 2
  MaxTicks = 3
  MaxItems = 2
  PurgeNotifies = TRUE
  Fixed = TRUE
SPECIFICATION Spec
INVARIANT Refines
INVARIANT NoEarlyPurge
INVARIANT LiveMatches
INVARIANT Alternates
CONSTRAINT Bound
CONSTRAINT EmitBehaviour
CHECK_DEADLOCK FALSE
