----------------------------- MODULE Oracle_C20 -----------------------------
(* Code -> spec binding for C20: the harness builds the real objects for a universe U of
   abstract entries, records what == / hash / dict / DNSRRSet / DNSCache did, and TLC
   evaluates the identity contract (Records!Same) on every ordered pair. *)
EXTENDS Records, Json, IOUtils, TLC, TLCExt

ASSUME TLCSet(42, JsonDeserialize(IOEnv.TRACE_FILE))
D == TLCGet(42)
U == D.universe
N == Len(U)
ASSUME TLCSet(43, [i \in 1..N |-> Key(U[i])])
K == TLCGet(43)

SameIdx(i, j) == K[i] = K[j]
ToSet(s) == {s[k] : k \in 1..Len(s)}

ExpectedEq(i) == {j \in 1..N : SameIdx(i, j)}
IsRec(i) == U[i].kind # "Q"
ExpectedSuppress(i) == {j \in 1..N : IsRec(i) /\ IsRec(j) /\ SameIdx(i, j) /\ 2 * U[i].ttl > U[j].ttl}
ExpectedCacheHit(i) == {j \in 1..N : IsRec(i) /\ IsRec(j) /\ SameIdx(i, j)}
ExpectedLast(j) == CHOOSE i \in ExpectedEq(j) : \A k \in ExpectedEq(j) : k <= i

Check(i) ==
  LET o == D.observed[i]
      eq == ToSet(o.eq)
  IN /\ IF eq = ExpectedEq(i) THEN TRUE
        ELSE PrintT(<<"VERDICT", i, FALSE, "C20_EqIffSameKey", (eq \ ExpectedEq(i)) \cup (ExpectedEq(i) \ eq)>>)
     /\ IF \A j \in ExpectedEq(i) : D.observed[j].hash = o.hash THEN TRUE
        ELSE PrintT(<<"VERDICT", i, FALSE, "C20_EqualHashEqual", {j \in ExpectedEq(i) : D.observed[j].hash # o.hash}>>)
     /\ IF o.dictlast = ExpectedLast(i) THEN TRUE
        ELSE PrintT(<<"VERDICT", i, FALSE, "C20_DictMembership", o.dictlast>>)
     /\ IF ~IsRec(i) \/ ToSet(o.suppresses) = ExpectedSuppress(i) THEN TRUE
        ELSE PrintT(<<"VERDICT", i, FALSE, "C20_RRSetLookup", (ToSet(o.suppresses) \ ExpectedSuppress(i)) \cup (ExpectedSuppress(i) \ ToSet(o.suppresses))>>)
     /\ IF ~IsRec(i) \/ ToSet(o.cachehit) = ExpectedCacheHit(i) THEN TRUE
        ELSE PrintT(<<"VERDICT", i, FALSE, "C20_CacheLookup", (ToSet(o.cachehit) \ ExpectedCacheHit(i)) \cup (ExpectedCacheHit(i) \ ToSet(o.cachehit))>>)
     /\ IF ~IsRec(i) \/ ToSet(o.cacheknown) = {j \in ExpectedCacheHit(i) : U[j].kind # "NSEC"} THEN TRUE
        ELSE PrintT(<<"VERDICT", i, FALSE, "C20_CacheAddReportsNew", ToSet(o.cacheknown)>>)

(* regression of the contract itself: Same is an equivalence, insensitive to ttl /
   created / flush bit / spelling, and kinds never collide *)
ContractSane ==
  /\ \A i \in 1..N : SameIdx(i, i)
  /\ \A i, j \in 1..N : SameIdx(i, j) => U[i].kind = U[j].kind /\ U[i].nb = U[j].nb

VARIABLE x
Init == x = 0
Next == x' = x
Spec == Init /\ [][Next]_x
Post ==
  /\ ContractSane
  /\ \A i \in 1..N : Check(i)
  /\ PrintT(<<"INFO", "pairs", N * N, "classes", Cardinality({K[i] : i \in 1..N})>>)
=============================================================================
