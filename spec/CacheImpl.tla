------------------------------ MODULE CacheImpl ------------------------------
(* Implementation-shaped model of DNSCache + RecordManager.async_updates_from_response
   (_cache.py, record_manager.py) checked against the contract of Cache.tla.

   What the contract abstracts away and this model keeps:
     * the cache is a dict  record -> record : the *key object* and the *value object* of one
       identity are distinct Python objects when the record was added twice.  Lookups by
       name / details / purge iterate KEY objects, get()/async_get_unique() return the VALUE
       object, reset_ttl() mutates whatever object it is given;
     * a response is processed in one pass that refreshes cached objects in place, collects
       adds and removes, applies cache-flush marks (iterating key objects), and only then adds
       (address records first) and removes;
     * the purge runs on its own 10 s timer.
   Constant Fixed selects the repaired _async_add (pop before assign => key object replaced).

   On top of the cache sits one service browser (browser.py: async_update_records, _enqueue_callback,
   async_update_records_complete), started at time 0 for the types of all pointer identities: per datagram the
   record manager hands it (new, old) pairs in datagram order -- old is the cached copy at that moment, and adds and
   removes are applied to the cache only after the listeners were told --, it queues Added / Removed per instance with the
   precedence Added > Removed, and fires the queue once the cache has been updated; the purge reports expired records the
   same way.  Checked for it: LiveMatches (the instances reported Added and not since Removed are the pointers the cache
   holds) and Alternates (C04); with PurgeNotifies = FALSE LiveMatches must fail.

   Checked: every lookup path of the implementation equals the contract state (Refines), i.e.
   the implementation refines Cache under the identity mapping.  With Fixed = FALSE TLC finds
   the "same record twice in one datagram, later refreshed" divergence (defect D5).           *)
EXTENDS Integers, Sequences, FiniteSets, TLC

CONSTANTS Ids, RRTable, PtrIds, TTLs, Steps, MaxEvents, MaxTicks, Fixed, MaxItems,
          PurgeNotifies     \* TRUE: the code; FALSE: the purge does not tell the listeners (slip)
RRof(i) == RRTable[i]
IsPtrId(i) == i \in PtrIds
INSTANCE Cache

VARIABLES now,      \* virtual clock (ms)
          kobj,     \* Ids -> None | [c, ttl]   the dict KEY object of each identity
          vobj,     \* Ids -> None | [c, ttl]   the dict VALUE object
          same,     \* Ids -> BOOLEAN           key and value are one Python object
          spec,     \* contract state (history variable, advanced in lockstep)
          nextPurge, nev, ntick,
          live,     \* pointer identities the browser has reported Added and not since Removed
          altBad,   \* an Added for a reported instance or a Removed for an unreported one was fired
          hist      \* the environment history (for the replay into the real code): <<instant, items>> per datagram
vars == <<now, kobj, vobj, same, spec, nextPurge, nev, ntick, live, altBad, hist>>
view == <<now, kobj, vobj, same, spec, nextPurge, nev, ntick, live, altBad>>

Item == [id : Ids, ttl : TTLs, fl : BOOLEAN]
(* two-item datagrams: the second item is the same identity again or a sibling of the same (name,type,class) *)
Datagrams == {<<a>> : a \in Item} \cup
             (IF MaxItems >= 2 THEN UNION {{<<a, b>> : b \in {x \in Item : RRof(x.id) = RRof(a.id)}} : a \in Item} ELSE {})

Init == /\ now = 0
        /\ kobj = [i \in Ids |-> None] /\ vobj = [i \in Ids |-> None] /\ same = [i \in Ids |-> TRUE]
        /\ spec = [i \in Ids |-> None]
        /\ nextPurge = 10000 /\ nev = 0 /\ ntick = 0
        /\ live = {} /\ altBad = FALSE /\ hist = <<>>

(* ---- the browser's pending-callback queue: an ordered map  identity -> "A" | "R" ---- *)
HasKey(p, i) == \E k \in 1..Len(p) : p[k][1] = i
ValOf(p, i) == (CHOOSE k \in 1..Len(p) : p[k][1] = i)
Enq(p, i, ch) ==
  IF ~HasKey(p, i) THEN Append(p, <<i, ch>>)
  ELSE IF ch = "A" \/ p[ValOf(p, i)][2] # "A" THEN [p EXCEPT ![ValOf(p, i)] = <<i, ch>>]     \* Added is never overridden
  ELSE p
\* the (new, old) pairs of one datagram as the browser sees them: old = cached when the datagram arrived
RECURSIVE Pending(_, _, _, _)
Pending(p, pre, items, n) ==
  IF n > Len(items) THEN p
  ELSE LET it == items[n]
           i == it.id
       IN IF ~IsPtrId(i) THEN Pending(p, pre, items, n + 1)
          ELSE IF it.ttl > 0 THEN Pending(IF pre[i] = None THEN Enq(p, i, "A") ELSE p, pre, items, n + 1)
          ELSE Pending(IF pre[i] # None THEN Enq(p, i, "R") ELSE p, pre, items, n + 1)
RECURSIVE Fire(_, _, _, _)
Fire(p, n, lv, bad) ==
  IF n > Len(p) THEN <<lv, bad>>
  ELSE LET i == p[n][1] IN
       IF p[n][2] = "A" THEN Fire(p, n + 1, lv \cup {i}, bad \/ i \in lv)
       ELSE Fire(p, n + 1, lv \ {i}, bad \/ i \notin lv)
RECURSIVE SeqOf(_)
SeqOf(S) == IF S = {} THEN <<>> ELSE LET m == CHOOSE x \in S : \A y \in S : x <= y IN <<<<m, "R">>>> \o SeqOf(S \ {m})

(* one pass over the items: refresh cached VALUE objects in place (and the key object when it is
   the same object) *)
RECURSIVE Refresh(_, _, _, _, _)
Refresh(k, v, sm, items, n) ==
  IF n > Len(items) THEN <<k, v>>
  ELSE LET it == items[n]
           i == it.id
           ttl == Eff(i, it.ttl)
       IN IF it.ttl > 0 /\ v[i] # None
          THEN LET nv == [v EXCEPT ![i] = [c |-> now, ttl |-> ttl]]
                   nk == IF sm[i] THEN [k EXCEPT ![i] = [c |-> now, ttl |-> ttl]] ELSE k
               IN Refresh(nk, nv, sm, items, n + 1)
          ELSE Refresh(k, v, sm, items, n + 1)

(* adds in datagram order: records whose identity was not cached when the datagram arrived *)
RECURSIVE Adds(_, _, _, _, _, _)
Adds(k, v, sm, pre, items, n) ==
  IF n > Len(items) THEN <<k, v, sm>>
  ELSE LET it == items[n]
           i == it.id
           new == [c |-> now, ttl |-> Eff(i, it.ttl)]
       IN IF it.ttl > 0 /\ pre[i] = None
          THEN IF v[i] = None \/ Fixed
               THEN Adds([k EXCEPT ![i] = new], [v EXCEPT ![i] = new], [sm EXCEPT ![i] = TRUE], pre, items, n + 1)
               ELSE Adds(k, [v EXCEPT ![i] = new], [sm EXCEPT ![i] = FALSE], pre, items, n + 1)   \* store[record] = record
          ELSE Adds(k, v, sm, pre, items, n + 1)

Receive(items) ==
  /\ nev < MaxEvents
  /\ LET r1 == Refresh(kobj, vobj, same, items, 1)
         k1 == r1[1]
         v1 == r1[2]
         \* async_mark_unique_records_older_than_1s_to_expire iterates KEY objects
         marked == {i \in Ids : k1[i] # None /\ RRof(i) \in FlushKeys(items) /\ i \notin InDatagram(items)
                                 /\ now - k1[i].c > 1000}
         k2 == [i \in Ids |-> IF i \in marked THEN [c |-> now, ttl |-> 1] ELSE k1[i]]
         v2 == [i \in Ids |-> IF i \in marked /\ same[i] THEN [c |-> now, ttl |-> 1] ELSE v1[i]]
         r3 == Adds(k2, v2, same, vobj, items, 1)
         removes == {i \in Ids : vobj[i] # None /\ HasZero(items, i)}
     IN /\ kobj' = [i \in Ids |-> IF i \in removes THEN None ELSE r3[1][i]]
        /\ vobj' = [i \in Ids |-> IF i \in removes THEN None ELSE r3[2][i]]
        /\ same' = [i \in Ids |-> IF i \in removes THEN TRUE ELSE r3[3][i]]
  /\ spec' = Ingest(spec, items, now)
  /\ nev' = nev + 1
  /\ LET f == Fire(Pending(<<>>, vobj, items, 1), 1, live, altBad) IN live' = f[1] /\ altBad' = f[2]
  /\ hist' = Append(hist, <<now, items>>)
  /\ UNCHANGED <<now, nextPurge, ntick>>

(* async_expire: [record for records in cache.values() for record in records if record.is_expired(now)] *)
Purge ==
  /\ now = nextPurge
  /\ LET gone == {i \in Ids : kobj[i] # None /\ IsExpired(kobj[i], now)} IN
     /\ kobj' = [i \in Ids |-> IF i \in gone THEN None ELSE kobj[i]]
     /\ vobj' = [i \in Ids |-> IF i \in gone THEN None ELSE vobj[i]]
     /\ same' = [i \in Ids |-> IF i \in gone THEN TRUE ELSE same[i]]
     /\ LET f == Fire(IF PurgeNotifies THEN SeqOf({i \in gone : IsPtrId(i)}) ELSE <<>>, 1, live, altBad)
        IN live' = f[1] /\ altBad' = f[2]
  /\ spec' = Purged(spec, now)
  /\ nextPurge' = nextPurge + 10000
  /\ UNCHANGED <<now, nev, ntick, hist>>

(* discrete-event clock: advance by a grid step, but never across a purge instant *)
Tick(d) ==
  /\ ntick < MaxTicks /\ d > 0 /\ ntick' = ntick + 1
  /\ now' = IF now + d > nextPurge THEN nextPurge ELSE now + d
  /\ now # nextPurge
  /\ UNCHANGED <<kobj, vobj, same, spec, nextPurge, nev, live, altBad, hist>>

Next == \/ \E d \in Datagrams : Receive(d)
        \/ \E s \in Steps : Tick(s)
        \/ Purge
Spec == Init /\ [][Next]_vars

(* ---- refinement: every lookup path equals the contract ------------------------------- *)
ByRecord == vobj          \* get(), async_get_unique()
ByName == kobj            \* entries_with_name, get_all_by_details, get_by_details, async_expire
Refines == ByRecord = spec /\ ByName = spec
NoEarlyPurge == \A i \in Ids : spec[i] # None => kobj[i] # None /\ vobj[i] # None
Bound == now <= 200000
LiveMatches == live = {i \in PtrIds : kobj[i] # None}
Alternates == ~altBad
\* a complete behaviour: no datagram and no clock step left, no purge pending
EmitBehaviour == IF nev = MaxEvents /\ ntick = MaxTicks /\ now # nextPurge
                 THEN PrintT(<<"BEHAVIOUR", hist, now, [i \in Ids |-> IF kobj[i] = None THEN <<-1, -1>> ELSE <<kobj[i].c, kobj[i].ttl>>],
                                [i \in Ids |-> IF vobj[i] = None THEN <<-1, -1>> ELSE <<vobj[i].c, vobj[i].ttl>>], live>>)
                 ELSE TRUE
=============================================================================
