------------------------------ MODULE Listener ------------------------------
(* Implementation-shaped model of the datagram front end of one socket (zeroconf/_listener.py, AsyncListener): the duplicate
   guard, the split into responses / queries, and the reassembly of truncated (TC) query trains per source address with its
   400-500 ms hold timer -- together with the contract that C12 (truncated queries), C16 (back-to-back duplicates) and C15
   (nothing raises) put on it.  Time in integer milliseconds.

   Code -> model:
     AsyncListener.data / last_time / last_message                 mem      [d, t]: the last datagram that got past the guard
                                                                            (set before the datagram is looked at: also an
                                                                            undecodable one is remembered)
     _process_datagram_at_time: same bytes, < 1000 ms, no QU       Dup(d)
     record_manager.async_updates_from_response(msg)               ups      log of responses handed on
     registry.has_entries                                          (TRUE throughout: the replay registers one service)
     handle_query_or_defer                                         Receive, branch on the TC flag
     _deferred[addr] (list of DNSIncoming)                         deferred[a] (sequence of datagram ids)
     "if incoming.data == msg.data: return"                        a TC packet already in the train is dropped and does
                                                                   *not* re-arm the timer
     _timers[addr] / loop.call_at                                  cur[a] (deadline of the handle kept in the dict, -1 = none)
                                                                   timers (every handle the loop still holds, <<a, deadline>>)
     _cancel_any_timers_for_addr                                   removal of <<a, cur[a]>> from timers
     _respond_query(msg | None, addr)                              Flush: cancel, pop the train, append msg, one call of
     query_handler.handle_assembled_query(packets, addr, ...)      calls    log of [t, a, pk]

   The datagrams are taken from a fixed universe DG (what matters to this layer: kind, TC flag, whether a question has the
   QU bit); two ids are two different byte strings.  The environment delivers at the instants EnvTimes, from any source
   address, any datagram, or repeats the previous delivery ("link-layer duplicate").

   Contract (ghost variables gm, train, tnew, tany; the contract's own bookkeeping, written from the statements):
     C16_DuplicateEffect   a datagram equal to the last one that was accepted less than a second ago, and without a QU
                           question, has no effect at all (no call, no update, no change of a hold)
     C12_TrainAssembly     every accepted query packet is handed to the query handler exactly once; a packet without TC from
                           source a is answered at once together with everything held for a, in arrival order, and with
                           nothing from another source; a held train is answered as one call
     C12_HoldWindow        a train is answered by its timer no earlier than 400 ms after its last new packet and no later
                           than 500 ms after its last packet (NoOverdue: it is never forgotten)
     C15_EmptyAssembly     the handler is never called with an empty list (the code would raise IndexError)
     C06_ResponseHandedOn  every accepted response is handed to the record manager once, at once
   The configurations with CancelOnDefer = FALSE (the timer of the previous TC packet is not cancelled when a continuation
   arrives) and DedupTrain = FALSE must violate the contract.                                                              *)
EXTENDS Integers, Sequences, FiniteSets, TLC, ListenerContract

CONSTANTS Addrs, Dgrams, TcJitters, EnvTimes, Horizon,
          CancelOnDefer,      \* TRUE as in the code
          DedupTrain,         \* TRUE as in the code
          AllowRepeat         \* the environment may also repeat the previous delivery at the same instant

DG == [ qm  |-> [kind |-> "q", tc |-> FALSE, qu |-> FALSE],
        qm2 |-> [kind |-> "q", tc |-> FALSE, qu |-> FALSE],
        qu  |-> [kind |-> "q", tc |-> FALSE, qu |-> TRUE],
        t1  |-> [kind |-> "q", tc |-> TRUE,  qu |-> FALSE],
        t2  |-> [kind |-> "q", tc |-> TRUE,  qu |-> FALSE],
        tq  |-> [kind |-> "q", tc |-> TRUE,  qu |-> TRUE],
        rs  |-> [kind |-> "r", tc |-> FALSE, qu |-> FALSE],
        xx  |-> [kind |-> "x", tc |-> FALSE, qu |-> FALSE] ]
ASSUME Dgrams \subseteq DOMAIN DG

VARIABLES now, mem, deferred, cur, timers,            \* implementation state
          calls, ups,                                  \* what the layer hands on
          gm, train, tnew, tany,                       \* contract
          envDone, lastEnv, hist, bad
vars == <<now, mem, deferred, cur, timers, calls, ups, gm, train, tnew, tany, envDone, lastEnv, hist, bad>>
view == <<now, mem, deferred, cur, timers, gm, train, tnew, tany, envDone, lastEnv, bad>>

Range(s) == CRange(s)
NoMem == CNoMem

Init ==
  /\ now = 0 /\ mem = NoMem /\ deferred = [a \in Addrs |-> <<>>] /\ cur = [a \in Addrs |-> -1] /\ timers = {}
  /\ calls = <<>> /\ ups = <<>>
  /\ gm = NoMem /\ train = [a \in Addrs |-> <<>>] /\ tnew = [a \in Addrs |-> 0] /\ tany = [a \in Addrs |-> 0]
  /\ envDone = {} /\ lastEnv = [d |-> "", a |-> "", t |-> -1] /\ hist = <<>> /\ bad = ""

(* ------------------------------------------------------------------ the implementation's step for one datagram *)
ImplDup(d) == mem.d = d /\ now - 1000 < mem.t /\ ~DG[d].qu
\* result of a delivery: [mem, deferred, cur, timers, call (<<>> or <<record>>), up (<<>> or <<record>>)]
ImplRecv(d, a, j) ==
  LET keep == [mem |-> mem, deferred |-> deferred, cur |-> cur, timers |-> timers, call |-> <<>>, up |-> <<>>]
      m2 == [d |-> d, t |-> now]
      k == DG[d].kind
      cancelled == timers \ {<<a, cur[a]>>}
  IN IF ImplDup(d) THEN keep
     ELSE IF k = "x" THEN [keep EXCEPT !.mem = m2]
     ELSE IF k = "r" THEN [keep EXCEPT !.mem = m2, !.up = <<[t |-> now, d |-> d]>>]
     ELSE IF ~DG[d].tc
          THEN [keep EXCEPT !.mem = m2, !.timers = cancelled, !.cur = [cur EXCEPT ![a] = -1],
                            !.deferred = [deferred EXCEPT ![a] = <<>>],
                            !.call = <<[t |-> now, a |-> a, pk |-> Append(deferred[a], d)]>>]
     ELSE IF DedupTrain /\ d \in Range(deferred[a]) THEN [keep EXCEPT !.mem = m2]
     ELSE [keep EXCEPT !.mem = m2, !.deferred = [deferred EXCEPT ![a] = Append(@, d)],
                       !.timers = (IF CancelOnDefer THEN cancelled ELSE timers) \cup {<<a, now + j>>},
                       !.cur = [cur EXCEPT ![a] = now + j]]

(* ------------------------------------------------------------------ the contract (ListenerContract.tla) on this state *)
K(d) == DG[d]
SpecDup(d) == CDup(K, gm, d, now)
SpecRecv(d, a) == CRecv(K, gm, train, d, a, now)

Receive(d, a, j, rep) ==
  /\ now \in EnvTimes /\ bad = ""
  /\ IF rep THEN /\ AllowRepeat /\ lastEnv.t = now /\ lastEnv.d = d /\ lastEnv.a = a
                 /\ Len(hist) > 0 /\ ~hist[Len(hist)].rep       \* one repeat per delivery
                 /\ UNCHANGED envDone
            ELSE /\ now \notin envDone /\ envDone' = envDone \cup {now}
  /\ (rep \/ ~(DG[d].kind = "q" /\ DG[d].tc) => j = CHOOSE x \in TcJitters : \A y \in TcJitters : x <= y)    \* unused draws are not branched over
  \* (a repeated TC packet never draws: it is dropped by the guard or, with a QU question, by the train's own check)
  /\ LET r == ImplRecv(d, a, j)
         s == SpecRecv(d, a)
         dupEffect == SpecDup(d) /\ (r.call # <<>> \/ r.up # <<>> \/ r.deferred # deferred \/ r.timers # timers)
     IN /\ mem' = r.mem /\ deferred' = r.deferred /\ cur' = r.cur /\ timers' = r.timers
        /\ calls' = calls \o r.call /\ ups' = ups \o r.up
        /\ bad' = IF dupEffect THEN "C16_DuplicateEffect"
                  ELSE IF r.call # s[1] THEN (IF r.call # <<>> /\ CHasDup(r.call[1].pk) THEN "C16_DuplicateEffect" ELSE "C12_TrainAssembly")
                  ELSE IF r.up # s[2] THEN "C06_ResponseHandedOn"
                  ELSE ""
  /\ gm' = CGuard(K, gm, d, now)
  /\ train' = CTrain(K, gm, train, d, a, now)
  /\ tnew' = IF CNewTc(K, gm, train, d, a, now) THEN [tnew EXCEPT ![a] = now] ELSE tnew
  /\ tany' = IF CAnyTc(K, gm, d, now) THEN [tany EXCEPT ![a] = now] ELSE tany
  /\ lastEnv' = [d |-> d, a |-> a, t |-> now]
  /\ hist' = Append(hist, [t |-> now, d |-> d, a |-> a, j |-> IF DG[d].kind = "q" /\ DG[d].tc /\ ~rep THEN j ELSE 0, rep |-> rep])
  /\ UNCHANGED now

Skip ==
  /\ now \in EnvTimes /\ now \notin envDone /\ bad = ""
  /\ envDone' = envDone \cup {now}
  /\ UNCHANGED <<now, mem, deferred, cur, timers, calls, ups, gm, train, tnew, tany, lastEnv, hist, bad>>

(* ------------------------------------------------------------------ a hold timer fires: _respond_query(None, addr) *)
Fire(a) ==
  /\ <<a, now>> \in timers /\ bad = ""

  /\ timers' = timers \ {<<a, now>>, <<a, cur[a]>>}
  /\ cur' = [cur EXCEPT ![a] = -1]
  /\ deferred' = [deferred EXCEPT ![a] = <<>>]
  /\ calls' = Append(calls, [t |-> now, a |-> a, pk |-> deferred[a]])
  /\ bad' = CTimerCall(train, tnew, tany, a, deferred[a], now)
  /\ train' = [train EXCEPT ![a] = <<>>]
  /\ UNCHANGED <<now, mem, ups, gm, tnew, tany, envDone, lastEnv, hist>>

(* ------------------------------------------------------------------ time *)
Instants == {t[2] : t \in timers} \cup (EnvTimes \ envDone) \cup {tany[a] + 501 : a \in {x \in Addrs : train[x] # <<>>}}
Pending == (\E t \in timers : t[2] = now) \/ (now \in EnvTimes /\ now \notin envDone)
Tick ==
  /\ ~Pending /\ bad = "" /\ now < Horizon
  /\ \E t \in Instants : t > now /\ (\A u \in Instants : u > now => t <= u) /\ now' = t
  /\ UNCHANGED <<mem, deferred, cur, timers, calls, ups, gm, train, tnew, tany, envDone, lastEnv, hist, bad>>

Next == \/ \E d \in Dgrams, a \in Addrs, j \in TcJitters, rep \in BOOLEAN : Receive(d, a, j, rep)
        \/ \E a \in Addrs : Fire(a)
        \/ Skip \/ Tick
Spec == Init /\ [][Next]_vars
FairSpec == Spec /\ WF_vars(Next)

(* ------------------------------------------------------------------ invariants and properties *)
NoBad == bad = ""
NoOverdue == \A a \in Addrs : train[a] # <<>> => now <= tany[a] + 500
\* no timer without a train and no train without a timer (an orphan either way is a call with nothing, or a query never answered)
TimersCoverTrains == \A a \in Addrs : (deferred[a] # <<>>) <=> (cur[a] >= now /\ <<a, cur[a]>> \in timers)
NoStaleTimers == \A t \in timers : cur[t[1]] = t[2]
GuardAgrees == mem = gm
\* liveness (under FairSpec, no state constraint): whatever is held is eventually answered
Answered == \A a \in Addrs : (deferred[a] # <<>>) ~> (deferred[a] = <<>>)

(* ------------------------------------------------------------------ behaviours for the replay *)
Done == now >= Horizon \/ (~Pending /\ \A t \in Instants : t <= now)
EmitBehaviour == IF Done /\ bad = "" THEN PrintT(<<"BEHAVIOUR", hist, calls, ups>>) ELSE TRUE
=============================================================================
