SPECIFICATION Spec
CONSTANTS
  Recs = {r1, r2}
  Jitters = {20, 120}
  EnvTimes = {2000, 2950, 3100, 4400}
  Horizon = 7000
  Purge = TRUE
  AllowUnreg = FALSE
  CheckStrict = TRUE
VIEW view
INVARIANT NoBad
INVARIANT NoOverdue
CHECK_DEADLOCK FALSE
