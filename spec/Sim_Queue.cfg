SPECIFICATION Spec
CONSTANTS
  Recs = {r1, r2, r3}
  Jitters = {20, 47, 83, 120}
  EnvTimes = {2001, 2032, 2103, 2154, 2305, 2526, 2957, 3028, 3119, 3510, 4031, 4052, 4993, 5014}
  Horizon = 8000
  Purge = TRUE
  AllowUnreg = TRUE
  CheckStrict = FALSE
INVARIANT NoBad
INVARIANT NoOverdue
CHECK_DEADLOCK FALSE
