-------------------------------- MODULE Lookup --------------------------------
(* Implementation-shaped model of a service-info lookup (zeroconf/_services/info.py, ServiceInfo.async_request and
   _generate_request_query) and the C18 / C13 contract for it.  Milliseconds; the anti-synchronisation jitter is the constant
   Jitter (the replay scripts the same value).

   Code -> model:
        zc.cache (SRV / TXT / address records of the instance and its host)     cache  \subseteq {"srv", "txt", "a"}
        what the info object has taken over (_process_record_threadsafe)        Have   (addresses only once the host is known)
        first_request, delay, next_, last                                        first, delay, nextAt, last
        question history of the instance (QM questions asked < 1 s ago)         hq[q] = instant the question q was last asked QM
        await self.async_wait(min(next_, last) - now)                            phase = "wait"; woken when a record changed Have
   Questions: "srv" and "txt" (skipped when the cache holds the record), and the address questions, asked for the host name
   once SRV is known ("aH") and for the instance name before that ("aI").

   Contract:
        ReturnBy        the lookup returns no later than start + Timeout
        SuccessIff      it returns True iff by then it knows an address of the service's host (C18)
        CacheFirst      a lookup the cache already satisfies sends nothing
        QuThenQm        the first query is QU, the following ones QM
        OnlyMissing     no question for a record the cache holds
        Spacing         (C13, strict) successive QM queries are at least a second apart -- violated: finding D15            *)
EXTENDS Integers, Sequences, FiniteSets, TLC

CONSTANTS Timeout, Jitter, EnvTimes, InitialCache, CheckSpacing, Horizon

VARIABLES now, phase, cache, have, lastRx, c0, atBegin, first, delay, nextAt, last, hq, woken, sent, ret, envDone, hist, bad
vars == <<now, phase, cache, have, lastRx, c0, atBegin, first, delay, nextAt, last, hq, woken, sent, ret, envDone, hist, bad>>
view == <<now, phase, cache, have, lastRx, atBegin, first, delay, nextAt, last, hq, woken, ret, envDone, bad>>

Start == 1000
Kinds == {"srv", "txt", "a"}
Have(c) == (c \cap {"srv", "txt"}) \cup (IF "a" \in c /\ "srv" \in c THEN {"a"} ELSE {})
Complete(c) == "a" \in c                \* _is_complete (argument: what the info object has taken over): text defaults to b'' (never None), so an address of the known host is what counts
Qs == {"srv", "txt", "aI", "aH"}
NoHist == [q \in Qs |-> -100000]

Init == /\ now = 0 /\ phase = "idle" /\ cache \in InitialCache /\ have = {} /\ c0 = cache /\ atBegin = "none"
        \* the listener's duplicate guard: the cache was filled by one datagram at 100 ms (SRV first)
        /\ lastRx = IF cache = {} THEN [kind |-> "none", key |-> <<{}, TRUE>>, t |-> -100000] ELSE [kind |-> "r", key |-> <<cache, TRUE>>, t |-> 100]
        /\ first = TRUE /\ delay = 200 /\ nextAt = 0 /\ last = 0
        /\ hq = NoHist /\ woken = FALSE /\ sent = <<>> /\ ret = [t |-> -1, ok |-> FALSE] /\ envDone = {} /\ hist = <<>> /\ bad = ""

\* the questions _generate_request_query would ask now
Wanted == (IF "srv" \in cache THEN {} ELSE {"srv"}) \cup (IF "txt" \in cache THEN {} ELSE {"txt"})
          \cup (IF "srv" \in have THEN {"aH"} ELSE {"aI"})
\* a QM question is suppressed when it was asked less than a second ago (its known answers can only have grown)
Asked(qu) == IF qu THEN Wanted ELSE {q \in Wanted : now - hq[q] >= 1000}

RECURSIVE Body(_, _, _, _, _, _)
\* from a resumption point to the next await / return: result record
Body(cfirst, cdelay, cnext, chq, csent, guard) ==
  IF Complete(have) THEN [phase |-> "done", ok |-> TRUE, first |-> cfirst, delay |-> cdelay, nextAt |-> cnext, hq |-> chq, sent |-> csent]
  ELSE IF last <= now THEN [phase |-> "done", ok |-> FALSE, first |-> cfirst, delay |-> cdelay, nextAt |-> cnext, hq |-> chq, sent |-> csent]
  ELSE IF cnext <= now /\ guard > 0
       THEN LET qu == cfirst
                qs == IF qu THEN Wanted ELSE {q \in Wanted : now - chq[q] >= 1000}
                nhq == IF qu THEN chq ELSE [q \in Qs |-> IF q \in qs THEN now ELSE chq[q]]
                ns == IF qs # {} THEN Append(csent, [t |-> now, qu |-> qu, qs |-> qs]) ELSE csent
            IN Body(FALSE, IF ~qu /\ cdelay < 999 THEN 999 ELSE cdelay, now + cdelay + Jitter, nhq, ns, guard - 1)
  ELSE [phase |-> "wait", ok |-> FALSE, first |-> cfirst, delay |-> cdelay, nextAt |-> cnext, hq |-> chq, sent |-> csent]

SpacingBad(s) == CheckSpacing /\ \E j \in 1..(Len(s) - 1) : ~s[j].qu /\ ~s[j + 1].qu /\ s[j + 1].t - s[j].t < 1000
Apply(b) ==
  /\ phase' = b.phase /\ first' = b.first /\ delay' = b.delay /\ nextAt' = b.nextAt /\ hq' = b.hq /\ sent' = b.sent
  /\ woken' = FALSE
  /\ ret' = IF b.phase = "done" THEN [t |-> now, ok |-> b.ok] ELSE ret
  /\ bad' = IF SpacingBad(b.sent) THEN "Spacing" ELSE bad

Begin ==
  /\ phase = "idle" /\ now = Start /\ bad = ""
  /\ last' = now + Timeout
  /\ have' = Have(cache)                                      \* _load_from_cache: SRV, TXT, then the addresses of that host
  /\ IF Complete(Have(cache))                                  \* nothing is sent
     THEN /\ phase' = "done" /\ ret' = [t |-> now, ok |-> TRUE] /\ UNCHANGED nextAt
     ELSE /\ phase' = "wait" /\ nextAt' = now /\ UNCHANGED ret   \* the loop is entered with next_ = now: Resume runs at once
  /\ atBegin' = IF Complete(Have(cache)) THEN "complete" ELSE "incomplete"
  /\ UNCHANGED <<now, cache, lastRx, c0, first, delay, hq, woken, sent, envDone, hist, bad>>

WakeAt == IF nextAt < last THEN nextAt ELSE last
Resume ==
  /\ phase = "wait" /\ (now >= WakeAt \/ woken) /\ bad = ""
  /\ Apply(Body(first, delay, nextAt, hq, sent, 1))
  /\ lastRx' = IF Len(Body(first, delay, nextAt, hq, sent, 1).sent) > Len(sent) THEN [kind |-> "q", key |-> <<{}, TRUE>>, t |-> now] ELSE lastRx
  /\ UNCHANGED <<now, cache, have, c0, atBegin, last, envDone, hist>>

(* one response datagram carrying the records S; srvFirst tells whether SRV precedes the address record in it.  The info
   object is handed the records *before* they are in the cache: an address is taken over only when the host is known, and a
   new SRV loads the addresses the cache held before this datagram.  Until fix D19 the records were looked at in datagram
   order, so an address listed before its SRV was lost to the lookup (found as a C07 violation between two real instances);
   now the SRV records of a datagram come first and the order no longer matters. *)
Taken(S, srvFirst) ==
  LET t1 == have \cup (S \cap {"txt"})
      srvNew == "srv" \in S
      aNew == "a" \in S
      hostKnownForA == "srv" \in have \/ srvNew      \* since fix D19 the SRV records of a datagram are looked at first (srvFirst no longer matters)
  IN t1 \cup (IF srvNew THEN {"srv"} ELSE {})
        \cup (IF aNew /\ hostKnownForA THEN {"a"} ELSE {})
        \cup (IF srvNew /\ "srv" \notin have /\ "a" \in cache THEN {"a"} ELSE {})

Receive(S, srvFirst) ==
  /\ now \in EnvTimes /\ now \notin envDone /\ bad = "" /\ S # {} /\ S \subseteq Kinds /\ phase # "done"
  /\ envDone' = envDone \cup {now}
  /\ (srvFirst \/ ({"srv", "a"} \subseteq S))                \* the order only matters when both are in the datagram
  /\ hist' = Append(hist, [t |-> now, recs |-> S, srvFirst |-> srvFirst])
  /\ IF lastRx.kind = "r" /\ lastRx.key = <<S, srvFirst>> /\ now - 1000 < lastRx.t
     THEN UNCHANGED <<cache, have, woken, lastRx>>            \* byte-identical to the previous datagram: dropped by the duplicate guard
     ELSE /\ cache' = cache \cup S
          /\ have' = IF phase = "wait" THEN Taken(S, srvFirst) ELSE have      \* the info listens only while the lookup runs
          /\ woken' = (woken \/ (phase = "wait" /\ Taken(S, srvFirst) # have))
          /\ lastRx' = [kind |-> "r", key |-> <<S, srvFirst>>, t |-> now]
  /\ UNCHANGED <<now, phase, c0, atBegin, first, delay, nextAt, last, hq, sent, ret, bad>>

Skip ==
  /\ now \in EnvTimes /\ now \notin envDone /\ bad = "" /\ phase # "done"
  /\ envDone' = envDone \cup {now}
  /\ UNCHANGED <<now, phase, cache, have, lastRx, c0, atBegin, first, delay, nextAt, last, hq, woken, sent, ret, hist, bad>>

Instants == (EnvTimes \ envDone) \cup (IF phase = "idle" THEN {Start} ELSE {}) \cup (IF phase = "wait" THEN {WakeAt} ELSE {})
Pending == \/ (now \in EnvTimes /\ now \notin envDone /\ phase # "done")
           \/ (phase = "idle" /\ now = Start)
           \/ (phase = "wait" /\ (now >= WakeAt \/ woken))
Tick ==
  /\ ~Pending /\ bad = "" /\ now < Horizon /\ phase # "done"
  /\ \E t \in Instants : t > now /\ (\A u \in Instants : u > now => t <= u) /\ now' = t
  /\ UNCHANGED <<phase, cache, have, lastRx, c0, atBegin, first, delay, nextAt, last, hq, woken, sent, ret, envDone, hist, bad>>

Next == Begin \/ Resume \/ Skip \/ Tick \/ (\E S \in SUBSET Kinds, sf \in BOOLEAN : Receive(S, sf))
Spec == Init /\ [][Next]_vars

(* ---------------------------------------------------------------- contract *)
NoBad == bad = ""
ReturnBy == /\ (phase = "done" => ret.t <= Start + Timeout)
            /\ (phase = "wait" => now <= last)
SuccessIff == phase = "done" => (ret.ok <=> Complete(have))
CacheFirst == atBegin = "complete" => (sent = <<>> /\ phase = "done" /\ ret.ok /\ ret.t = Start)
QuThenQm == \A j \in 1..Len(sent) : sent[j].qu = (j = 1)
EmitBehaviour == IF phase = "done" /\ bad = "" THEN PrintT(<<"BEHAVIOUR", c0, hist, sent, ret>>) ELSE TRUE
=============================================================================
