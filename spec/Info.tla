--------------------------------- MODULE Info ---------------------------------
(* Implementation-shaped model of the memoised records of a service description (zeroconf/_services/info.py: ServiceInfo
   _dns_pointer_cache, _dns_service_cache, _dns_text_cache, _dns_address_cache, _get_address_and_nsec_records_cache) against
   InfoContract.tla.

   Code -> model:
     plain attributes port, other_ttl, host_ttl, text               Set(field, v): no memo is touched (the memos are reset when
                                                                     the description is (re-)entered into the registry)
     addresses setter                                                SetAddrs(v): resets the address and the "extra" memo
     registry._add -> info.async_clear_cache()                      Sync: every memo reset (register, update, re-register)
     dns_pointer() / dns_service() / dns_text() / dns_addresses()   Ask(kind): the memo if there is one, else built from the fields
       / get_address_and_nsec_records()                              and remembered
   Contract: an Ask made while the fields are as they were at the last Sync (clean) says what the fields say.  What is asked
   between a change of a field and the next Sync is not constrained (the application has not told the library yet).
   Defect configurations: SyncKeeps = "ptr" (async_clear_cache forgets the pointer memo: seeded change C03-b) and
   AddrsSetterKeepsExtra (the addresses setter forgets the address-and-NSEC memo) must fail.                                 *)
EXTENDS Integers, Sequences, FiniteSets, TLC, InfoContract

CONSTANTS Ports, OTtls, HTtls, Texts, AddrSets, MaxOps,
          SyncKeeps,               \* "" as in the code
          AddrsSetterKeepsExtra    \* FALSE as in the code

Kinds == {"ptr", "srv", "txt", "addr", "extra"}
NoMemo == [ttl |-> -1, port |-> -1, text |-> "?", addrs |-> "?"]

VARIABLES f, memo, clean, synced, hist, bad
vars == <<f, memo, clean, synced, hist, bad>>
view == <<f, memo, clean, synced, Len(hist), bad>>

Init == /\ f \in [port : Ports, ottl : OTtls, httl : HTtls, text : Texts, addrs : AddrSets]
        /\ memo = [k \in Kinds |-> NoMemo] /\ clean = FALSE /\ synced = FALSE /\ hist = <<>> /\ bad = ""
Can == bad = "" /\ Len(hist) < MaxOps

Set(field, v) ==
  /\ Can /\ f[field] # v
  /\ f' = [f EXCEPT ![field] = v] /\ clean' = FALSE
  /\ hist' = Append(hist, [op |-> "set", field |-> field, v |-> v, kind |-> "", res |-> NoMemo])
  /\ UNCHANGED <<memo, synced, bad>>

SetAddrs(v) ==
  /\ Can /\ f.addrs # v
  /\ f' = [f EXCEPT !.addrs = v] /\ clean' = FALSE
  /\ memo' = [memo EXCEPT !["addr"] = NoMemo, !["extra"] = IF AddrsSetterKeepsExtra THEN @ ELSE NoMemo]
  /\ hist' = Append(hist, [op |-> "setaddrs", field |-> "addrs", v |-> v, kind |-> "", res |-> NoMemo])
  /\ UNCHANGED <<synced, bad>>

Sync ==
  /\ Can
  /\ memo' = [k \in Kinds |-> IF k = SyncKeeps THEN memo[k] ELSE NoMemo]
  /\ clean' = TRUE /\ synced' = TRUE
  /\ hist' = Append(hist, [op |-> "sync", field |-> "", v |-> "", kind |-> "", res |-> NoMemo])
  /\ UNCHANGED <<f, bad>>

Ask(kind) ==
  /\ Can
  /\ LET r == IF memo[kind] # NoMemo THEN memo[kind] ELSE What(kind, f) IN
     /\ memo' = [memo EXCEPT ![kind] = r]
     /\ bad' = IF clean /\ r # What(kind, f) THEN "C03_MemoReflectsFields" ELSE ""
     /\ hist' = Append(hist, [op |-> "ask", field |-> "", v |-> "", kind |-> kind, res |-> r])
  /\ UNCHANGED <<f, clean, synced>>

Next == \/ \E v \in Ports : Set("port", v)
        \/ \E v \in OTtls : Set("ottl", v)
        \/ \E v \in HTtls : Set("httl", v)
        \/ \E v \in Texts : Set("text", v)
        \/ \E v \in AddrSets : SetAddrs(v)
        \/ Sync
        \/ \E k \in Kinds : Ask(k)
Spec == Init /\ [][Next]_vars

NoBad == bad = ""
Done == Len(hist) = MaxOps
EmitBehaviour == IF Done /\ bad = "" THEN PrintT(<<"BEHAVIOUR", hist>>) ELSE TRUE
=============================================================================
