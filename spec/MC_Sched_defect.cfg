SPECIFICATION Spec
CONSTANTS
  Aliases = {a1, a2}
  TTLs = {1200, 4500}
  Delay = 10000
  Start = 14020
  SteadyFrom = 14120
  EnvTimes = {20000, 60000, 915000, 925000, 1020000, 3390000}
  Horizon = 6000000
  Rearm = FALSE
  PurgeEvery = 10000
VIEW view
INVARIANT NoBad
INVARIANT RefreshDue
INVARIANT TimerAlive
INVARIANT TypeOK
CHECK_DEADLOCK FALSE
