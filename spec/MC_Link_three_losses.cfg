SPECIFICATION Spec
CONSTANTS
  RegAt = 0
  BrowseTimes = {0, 1400}
  UnregTimes = {2000}
  LossBudget = 3
  Converge = 16000
  Settle = 3000
  Horizon = 30000
  Goodbyes = 3
VIEW view
INVARIANT AddedInTime
INVARIANT RemovedInTime
INVARIANT Alternate
CHECK_DEADLOCK FALSE
