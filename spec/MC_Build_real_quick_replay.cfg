SPECIFICATION Spec
CONSTANTS
  Names <- MCNames
  RNames <- MCRNames
  LabelBytes <- MCLabelBytes
  Fixed <- RealFixedQuick
  FixedWithName <- RealFixedWithName
  MaxQ = 1
  MaxAn = 2
  MaxNs = 0
  MaxAr = 1
  Typical = 1460
  Absolute = 8966
  RollbackGE = TRUE
  OffsetInBytes = TRUE
INVARIANT NoBad
INVARIANT TableSound
INVARIANT Sizes
INVARIANT Partition
CHECK_DEADLOCK FALSE
CONSTRAINT EmitBehaviour
