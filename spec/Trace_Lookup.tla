---------------------------- MODULE Trace_Lookup ----------------------------
(* Code -> spec binding for C18 (service-info lookup) and the lookup part of C13.

   Input: { vocab: [{id, kind ("srv"|"txt"|"a"|"aaaa"), host, rr}], own, traces: [{id, events}] } recorded by
   props/lookupfam.py: one instance, a scripted cache history, one lookup of one instance name.

   Contract state: the record cache (CacheOps!IngestX + the 10 s purge), the duplicate-question
   history, and what the lookup knows: SRV (-> host), TXT, and the set of addresses of that host,
   each taken from a record that was not expired when it was read:
     * at the start from the cache (all live addresses of the SRV's host),
     * later from every response the instance receives, in datagram order, *before* the cache is
       updated with it (an address counts when the SRV naming its host is already known; an SRV
       that changes the host re-reads the addresses from the cache).
   The lookup is complete when it knows at least one address.                                   *)
EXTENDS CacheOps, Json, IOUtils, TLC, TLCExt

ASSUME TLCSet(42, JsonDeserialize(IOEnv.TRACE_FILE))
D == TLCGet(42)
Traces == D.traces
N == Len(Traces)
Vocab == D.vocab
Ids == 1..Len(Vocab)
RR(i) == Vocab[i].rr
NoPtr(i) == FALSE
Kind(i) == Vocab[i].kind
HostOf(i) == Vocab[i].host

VARIABLES tid, l, s
vars == <<tid, l, s>>
ToSet(q) == {q[k] : k \in 1..Len(q)}

ClausesOf ==
  [C18 |-> {"C18_ReturnBy", "C18_Iff", "C18_SucceedsWhenKnown", "C18_NoEarlyGiveUp", "C18_CacheFirst", "C18_FromLiveSrv",
            "C18_FromLiveTxt", "C18_AddressesOfHost", "C18_AllFromCache", "C18_NoException", "C18_QuThenQm", "C18_OnlyMissingQuestions",
            "C18_FirstQueryAsks"},
   C13 |-> {"C13_LookupQuestions", "C13_LookupKnownAnswers", "C13_QuThenQm", "C13_LookupSchedule", "C13_LookupSpacing",
            "C13_LookupShape"}]
Own(clause) == \/ D.own = "ALL" \/ clause \in {"Trace_Malformed", "C15_NoException"} \/ clause \in ClausesOf[D.own]
Bad(cond, clause) == cond /\ Own(clause)
Fail(st, clause) == [st EXCEPT !.err = clause]

NoHist == [t |-> -100000, ka |-> {}]
NoLookup == [on |-> FALSE, t0 |-> 0, dl |-> 0, forced |-> "none", nq |-> 0, nsent |-> 0, lastSent |-> -1, nextAt |-> 0, delay |-> 200,
             server |-> 0, srv |-> 0, txt |-> 0, addrs |-> {}, seen |-> {}, pend |-> <<>>, done |-> FALSE, sentAny |-> FALSE, fc |-> FALSE]
InitState ==
  [rec |-> [i \in Ids |-> None], lastDid |-> 0, lastProc |-> -100000, lastQU |-> FALSE,
   hist |-> [q \in 1..4 |-> [w \in {"inst", "h1", "h2"} |-> NoHist]], lk |-> NoLookup,
   objk |-> [srv |-> 0, txt |-> 0, addrs |-> {}],   \* what the info object of the last lookup ended up with (kept when the object is used again)
   err |-> ""]

Alive(st, i, t) == st.rec[i] # None /\ ~IsExpired(st.rec[i], t)
Fresh(st, i, t) == st.rec[i] # None /\ ~(st.rec[i].c + 500 * st.rec[i].ttl <= t)
Who(h) == IF h = 1 THEN "h1" ELSE IF h = 2 THEN "h2" ELSE "inst"
AddrsOfHost(ch, h, t) == {i \in Ids : Kind(i) \in {"a", "aaaa"} /\ HostOf(i) = h /\ ch[i] # None /\ ~IsExpired(ch[i], t)}

Purge(st, t) ==
  LET b == (t \div 10000) * 10000 IN
  [st EXCEPT !.rec = [i \in Ids |-> IF st.rec[i] # None /\ IsExpired(st.rec[i], b) THEN None ELSE st.rec[i]]]

(* ------------------------------------------------------------------ what a query must ask *)
QKind(q) == CASE q = 1 -> "srv" [] q = 2 -> "txt" [] q = 3 -> "a" [] OTHER -> "aaaa"
QWho(st, q) == IF q <= 2 THEN "inst" ELSE Who(st.lk.server)
QHost(st, q) == IF q <= 2 THEN 0 ELSE st.lk.server
(* cached records that answer question q and still have more than half of their TTL *)
Ka(st, q, t) ==
  {i \in Ids : Kind(i) = QKind(q) /\ Fresh(st, i, t) /\ (IF q <= 2 THEN TRUE ELSE (st.lk.server # 0 /\ HostOf(i) = st.lk.server))}
  \* while the host is unknown the address questions are put to the instance name: an address record owned by that name answers them
  \cup {i \in Ids : Kind(i) = "decoy" /\ Vocab[i].dq = q /\ q > 2 /\ st.lk.server = 0 /\ Fresh(st, i, t)}
\* first query QU unless QM is forced, later ones QM (a forced type applies to the first query of a lookup)
IsQU(st) == IF st.lk.forced = "QM" THEN FALSE ELSE st.lk.nq = 0
Suppressed(st, q, t) == LET h == st.hist[q][QWho(st, q)] IN t - h.t <= 999 /\ h.ka \subseteq Ka(st, q, t)
Asked(st, q, t) == /\ ~(q <= 2 /\ Ka(st, q, t) # {})                 \* SRV / TXT already held: not asked again
                   /\ (IsQU(st) \/ ~Suppressed(st, q, t))
ExpectedQs(st, t) == {q \in 1..4 : Asked(st, q, t)}
ExpectedKa(st, t) == UNION {{<<i, (st.rec[i].c + 1000 * st.rec[i].ttl - t) \div 1000>> : i \in Ka(st, q, t)} : q \in ExpectedQs(st, t)}

(* ------------------------------------------------------------------ knowledge *)
Complete(k) == k.addrs # {}
RECURSIVE Learn(_, _, _, _, _)
Learn(k, ch, items, n, t) ==
  \* k: lookup record, ch: cache as visible to listeners (refreshes and flush marks applied, nothing added yet)
  IF n > Len(items) THEN k
  ELSE LET it == items[n]
           i == it.id
       IN IF it.ttl = 0 \/ Kind(i) = "decoy" THEN Learn(k, ch, items, n + 1, t)       \* (decoy: says nothing about the service)
          ELSE IF Kind(i) \in {"a", "aaaa"}
               THEN Learn(IF k.server # 0 /\ HostOf(i) = k.server THEN [k EXCEPT !.addrs = @ \cup {i}, !.seen = @ \cup {i}] ELSE k,
                          ch, items, n + 1, t)
          ELSE IF Kind(i) = "txt" THEN Learn([k EXCEPT !.txt = i], ch, items, n + 1, t)
          ELSE \* SRV
               LET h == HostOf(i)
                   k1 == [k EXCEPT !.srv = i, !.server = h]
                   k2 == IF h # k.server
                         THEN [k1 EXCEPT !.addrs = AddrsOfHost(ch, h, t), !.seen = @ \cup AddrsOfHost(ch, h, t)]
                         ELSE k1
               IN Learn(k2, ch, items, n + 1, t)

(* ------------------------------------------------------------------ events *)
OnLookup(st, e) ==
  LET t == e.t
      srvs == {i \in Ids : Kind(i) = "srv" /\ Alive(st, i, t)}
      txts == {i \in Ids : Kind(i) = "txt" /\ Alive(st, i, t)}
      \* a lookup with the object of the previous lookup starts from what that object holds (it read those records while they were
      \* alive): an SRV / TXT record of the cache replaces what it has, otherwise host, port and text stay; when the host stays
      \* the same the addresses it has stay as well and those of the cache are added, a new host replaces them by the cache's
      reuse == "reuse" \in DOMAIN e /\ e.reuse
      old == IF reuse THEN st.objk ELSE [srv |-> 0, txt |-> 0, addrs |-> {}]
      srv == IF srvs = {} THEN old.srv ELSE CHOOSE i \in srvs : TRUE
      txt == IF txts = {} THEN old.txt ELSE CHOOSE i \in txts : TRUE
      h == IF srv = 0 THEN 0 ELSE HostOf(srv)
      hOld == IF old.srv = 0 THEN 0 ELSE HostOf(old.srv)
      ad == IF h = 0 THEN {} ELSE (IF h = hOld THEN old.addrs ELSE {}) \cup AddrsOfHost(st.rec, h, t)
  IN IF Bad(Cardinality(srvs) > 1, "Trace_Malformed") THEN Fail(st, "Trace_Malformed")      \* generator domain: one live SRV identity
     ELSE [st EXCEPT !.lk = [NoLookup EXCEPT !.on = TRUE, !.t0 = t, !.dl = t + e.timeout, !.forced = e.forced, !.nextAt = t,
                                             !.server = h, !.srv = srv, !.txt = txt, !.addrs = ad, !.seen = ad,
                                             !.done = ad # {}, !.fc = ad # {}]]

OnRecv(st, e) ==
  LET dup == e.did = st.lastDid /\ e.t - 1000 < st.lastProc /\ ~st.lastQU IN
  IF dup THEN st
  ELSE IF e.q THEN [st EXCEPT !.lastDid = e.did, !.lastProc = e.t, !.lastQU = e.qu]
  ELSE LET mk == MarkedX(Ids, RR, NoPtr, st.rec, e.items, e.t)
           nr == IngestX(Ids, RR, NoPtr, st.rec, e.items, e.t)
           k == IF st.lk.on /\ ~st.lk.done THEN Learn(st.lk, mk, e.items, 1, e.t) ELSE st.lk
           \* what the lookup MAY report in addition: an address record that precedes the SRV record of its host in the same
           \* datagram (whether the lookup takes it over depends on the order in which it looks at the records of a datagram,
           \* which the property leaves open); what it MUST know (addrs, done) follows the datagram order
           srvFirst == SelectSeq(e.items, LAMBDA it : Kind(it.id) = "srv") \o SelectSeq(e.items, LAMBDA it : Kind(it.id) # "srv")
           kMay == IF st.lk.on /\ ~st.lk.done THEN Learn(st.lk, mk, srvFirst, 1, e.t) ELSE st.lk
       IN [st EXCEPT !.lastDid = e.did, !.lastProc = e.t, !.lastQU = FALSE, !.rec = nr,
                     !.lk = [k EXCEPT !.done = st.lk.done \/ (st.lk.on /\ Complete(k)), !.seen = @ \cup kMay.seen]]

OnQuery(st, e) ==
  IF Bad(~st.lk.on \/ st.lk.pend # <<>>, "C13_LookupShape") THEN Fail(st, "C13_LookupShape")
  ELSE IF Bad(~e.mc \/ e.tc \/ e.nauth # 0 \/ e.nadd # 0 \/ e.flags # 0, "C13_LookupShape") THEN Fail(st, "C13_LookupShape")
  ELSE [st EXCEPT !.lk.pend = <<e>>]

(* a query of another lookup for the same instance on this host: its QM questions are questions "this instance asked" *)
OnBgQuery(st, e) ==
  [st EXCEPT !.hist = [q \in 1..4 |-> [w \in {"inst", "h1", "h2"} |->
      IF \E k \in 1..Len(e.qs) : e.qs[k].q = q /\ e.qs[k].who = w /\ ~e.qs[k].qu
      THEN [t |-> e.t, ka |-> {i \in ToSet(e.ka) : i \in Ids /\ Kind(i) = QKind(q)}] ELSE st.hist[q][w]]]]

(* the lookup's send opportunity (its anti-synchronisation jitter is drawn right after the query was built) *)
OnOpportunity(st, e) ==
  LET t == e.t
      lk == st.lk
      qsExp == ExpectedQs(st, t)
      qu == IsQU(st)
      obs == IF lk.pend = <<>> THEN {} ELSE {x.q : x \in ToSet(lk.pend[1].qs)}
      sent == lk.pend # <<>>
  IN IF ~lk.on THEN st
     ELSE IF Bad(t # lk.nextAt, "C13_LookupSchedule") THEN Fail(st, "C13_LookupSchedule")
     ELSE IF Bad(sent /\ \E x \in ToSet(lk.pend[1].qs) : x.qu # qu, "C13_QuThenQm") THEN Fail(st, "C13_QuThenQm")
     \* C18 states the same progression, and that questions whose answers are held are left out (C13 adds the suppression rules)
     ELSE IF Bad(sent /\ \E x \in ToSet(lk.pend[1].qs) : x.qu # qu, "C18_QuThenQm") THEN Fail(st, "C18_QuThenQm")
     ELSE IF Bad(\E q \in obs : q <= 2 /\ Ka(st, q, t) # {}, "C18_OnlyMissingQuestions") THEN Fail(st, "C18_OnlyMissingQuestions")
     \* "otherwise it asks first by QU": the first query of a lookup is never suppressed, it carries every question it needs
     ELSE IF Bad(qu /\ obs # qsExp, "C18_FirstQueryAsks") THEN Fail(st, "C18_FirstQueryAsks")
     ELSE IF Bad(obs # qsExp, "C13_LookupQuestions") THEN Fail(st, "C13_LookupQuestions")
     ELSE IF Bad(sent /\ \E x \in ToSet(lk.pend[1].qs) : x.who # QWho(st, x.q) \/ x.cls # 1, "C13_LookupQuestions") THEN Fail(st, "C13_LookupQuestions")
     ELSE IF Bad(sent /\ {<<p[1], p[2]>> : p \in ToSet(lk.pend[1].ka)} # ExpectedKa(st, t), "C13_LookupKnownAnswers") THEN Fail(st, "C13_LookupKnownAnswers")
     ELSE IF Bad(sent /\ lk.nsent >= 2 /\ t - lk.lastSent < 1000, "C13_LookupSpacing") THEN Fail(st, "C13_LookupSpacing")
     ELSE [st EXCEPT !.lk.pend = <<>>, !.lk.nq = @ + 1, !.lk.nextAt = t + lk.delay + e.v,
                     !.lk.delay = IF ~qu /\ lk.delay < 999 THEN 999 ELSE lk.delay,
                     !.lk.nsent = IF sent THEN @ + 1 ELSE @, !.lk.lastSent = IF sent THEN t ELSE @, !.lk.sentAny = @ \/ sent,
                     !.hist = [q \in 1..4 |-> [w \in {"inst", "h1", "h2"} |->
                                 IF ~qu /\ q \in qsExp /\ w = QWho(st, q) THEN [t |-> t, ka |-> Ka(st, q, t)] ELSE st.hist[q][w]]]]

OnRet(st, e) ==
  LET lk == st.lk
      t == e.t
      validAddrs == {i \in Ids : Kind(i) \in {"a", "aaaa"} /\ lk.server # 0 /\ HostOf(i) = lk.server /\ i \in lk.seen}
  IN IF Bad("exc" \in DOMAIN e, "C18_NoException") THEN Fail(st, "C18_NoException")
     ELSE IF Bad(t > lk.dl, "C18_ReturnBy") THEN Fail(st, "C18_ReturnBy")
     ELSE IF Bad(e.ok # (e.addrs # <<>>), "C18_Iff") THEN Fail(st, "C18_Iff")
     ELSE IF Bad(lk.done /\ ~e.ok, "C18_SucceedsWhenKnown") THEN Fail(st, "C18_SucceedsWhenKnown")
     ELSE IF Bad(~e.ok /\ t < lk.dl, "C18_NoEarlyGiveUp") THEN Fail(st, "C18_NoEarlyGiveUp")
     \* the cache sufficed when the lookup started: answered at once, nothing transmitted
     ELSE IF Bad(lk.fc /\ (lk.sentAny \/ lk.nq > 0 \/ ~e.ok \/ t # lk.t0), "C18_CacheFirst") THEN Fail(st, "C18_CacheFirst")
     ELSE IF Bad(e.ok /\ (lk.srv = 0 \/ e.server # lk.server \/ e.port # D.srvinfo[lk.srv][1] \/ e.prio # D.srvinfo[lk.srv][2]
                          \/ e.weight # D.srvinfo[lk.srv][3]), "C18_FromLiveSrv") THEN Fail(st, "C18_FromLiveSrv")
     ELSE IF Bad(~e.nofields /\ e.text # lk.txt, "C18_FromLiveTxt") THEN Fail(st, "C18_FromLiveTxt")
     ELSE IF Bad(~(ToSet(e.addrs) \subseteq validAddrs), "C18_AddressesOfHost") THEN Fail(st, "C18_AddressesOfHost")
     ELSE IF Bad(lk.fc /\ ToSet(e.addrs) # lk.addrs, "C18_AllFromCache") THEN Fail(st, "C18_AllFromCache")
     ELSE [st EXCEPT !.lk = NoLookup, !.objk = [srv |-> lk.srv, txt |-> lk.txt, addrs |-> ToSet(e.addrs)]]

Pre(st0, t) ==
  LET st == Purge(st0, t) IN
  IF Bad(st.lk.on /\ ~st.lk.done /\ st.lk.nextAt < t /\ st.lk.nextAt < st.lk.dl, "C13_LookupSchedule") THEN Fail(st, "C13_LookupSchedule")
  ELSE IF Bad(st.lk.on /\ t > st.lk.dl, "C18_ReturnBy") THEN Fail(st, "C18_ReturnBy")
  ELSE st

Step(st0, e) ==
  IF e.ev = "start" THEN InitState
  ELSE LET st == Pre(st0, e.t) IN
   IF st.err # "" THEN st
   ELSE CASE e.ev = "recv"   -> OnRecv(st, e)
          [] e.ev = "lookup" -> OnLookup(st, e)
          [] e.ev = "query"  -> OnQuery(st, e)
          [] e.ev = "rand"   -> OnOpportunity(st, e)
          [] e.ev = "bgquery" -> OnBgQuery(st, e)
          [] e.ev = "ret"    -> OnRet(st, e)
          [] e.ev = "end"    -> IF Bad(st.lk.on, "C18_ReturnBy") THEN Fail(st, "C18_ReturnBy") ELSE st
          [] e.ev = "badsend" -> Fail(st, "C13_LookupShape")
          [] e.ev = "exc"    -> Fail(st, "C15_NoException")
          [] OTHER           -> Fail(st, "Trace_Malformed")

Events == Traces[tid].events
Init == /\ tid \in 1..N /\ l = 1 /\ s = InitState
Next == /\ s.err = "" /\ l <= Len(Events)
        /\ s' = Step(s, Events[l])
        /\ l' = IF s'.err = "" THEN l + 1 ELSE l
        /\ UNCHANGED tid
Spec == Init /\ [][Next]_vars

ASSUME \A i \in 1..N : TLCSet(1000 + i, <<0, "">>)
DebugDump == IF s.err # "" /\ "dbg" \in DOMAIN D THEN PrintT(<<"DEBUG", Traces[tid].id, l, s>>) ELSE TRUE
Progress ==
  LET cur == TLCGet(1000 + tid)
      score == IF s.err = "" THEN 2 * l ELSE 2 * l + 1
  IN /\ IF score > cur[1] THEN TLCSet(1000 + tid, <<score, s.err>>) ELSE TRUE
     /\ DebugDump
Verdicts ==
  \A i \in 1..N :
    LET r == TLCGet(1000 + i)
        n == Len(Traces[i].events)
    IN IF r[1] = 2 * (n + 1) /\ r[2] = "" THEN PrintT(<<"VERDICT", Traces[i].id, TRUE, "", n>>)
       ELSE PrintT(<<"VERDICT", Traces[i].id, FALSE, r[2], r[1] \div 2>>)
=============================================================================
