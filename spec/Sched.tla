-------------------------------- MODULE Sched --------------------------------
(* Implementation-shaped model of the browser's query scheduler (zeroconf/_services/browser.py, class QueryScheduler,
   as repaired by the fixes D7 / D11 / D12) for one browsed type, in its steady state after the four start-up queries,
   together with the C10 contract it has to meet.  Time is in integer milliseconds, TTLs in seconds.

   Code -> model:
     _next_scheduled_for_alias[alias]        sched[a]      (the heap only matters through its live entries: cancelled
                                                            entries are skipped when popped)
     _next_run (timer handle)                armed         (the instant the one scheduler timer is armed for)
     reschedule_ptr_first_refresh            Reschedule    (no-churn rule: same TTL and within +-Delay of the current entry)
     cancel_ptr_refresh                      sched[a] := None
     _process_ready_types                    Fire          (pop everything due, push rescue entries at now + 10 % TTL while
                                                            that is before the expiry, send one query, re-arm at
                                                            max(now + Delay, earliest live entry))
     DNSCache + 10 s purge                   rec, Purge    (purge instants are the multiples of PurgeEvery)

   The environment (the rest of the link) acts at the instants EnvTimes only: Receive(a, ttl) delivers the pointer record
   of alias a with that TTL (0 = goodbye).  Between events the clock jumps to the next instant at which anything can happen.

   Contract (same windows as Trace_Querier.tla):
     attempt k = 0,1,2 of a record [c, ttl] is due in  [c + (750 + 100k) ttl - Delay ,  c + (750 + 100k) ttl + (k+1) Delay]
     RefreshDue      no window of a live, steady-state record has gone by unserved
     MinSpacing      successive queries are at least Delay apart
     Justified       every query is for a record that is past the start of its first window
     TimerAlive      the scheduler timer is never left behind the clock                                             *)
EXTENDS Integers, Sequences, FiniteSets, TLC

CONSTANTS Aliases,       \* model values or strings
          TTLs,          \* TTL choices of the environment, in seconds (0 = goodbye is always possible)
          Delay,         \* minimum time between queries (ms)
          Start,         \* instant of the fourth start-up query (ms): the scheduler timer is then armed for Start + Delay
          SteadyFrom,    \* refresh obligations are counted for records whose first window opens after this instant
          EnvTimes,      \* instants at which the environment may deliver a record
          Horizon,       \* behaviours are cut here
          Rearm,         \* TRUE = the repaired scheduler (re-arms its timer for an earlier first refresh); FALSE re-creates D7
          PurgeEvery

VARIABLES now, rec, sched, armed, lastQ, sat, envDone, hist, qlog, bad
vars == <<now, rec, sched, armed, lastQ, sat, envDone, hist, qlog, bad>>
view == <<now, rec, sched, armed, lastQ, sat, envDone, bad>>      \* hist / qlog are observation only

None == [none |-> TRUE]
Min(S) == CHOOSE x \in S : \A y \in S : x <= y

NextPurge(t) == ((t + PurgeEvery - 1) \div PurgeEvery) * PurgeEvery
RefreshAt(c, ttl) == c + 750 * ttl
ExpireAt(c, ttl) == c + 1000 * ttl
WLo(r, k) == r.c + (750 + 100 * k) * r.ttl - Delay
WHi(r, k) == r.c + (750 + 100 * k) * r.ttl + (k + 1) * Delay
Steady(r) == WLo(r, 0) >= SteadyFrom                 \* its 75 % point comes after the start-up queries (as in Trace_Querier)

Init ==
  /\ now = 0 /\ rec = [a \in Aliases |-> None] /\ sched = [a \in Aliases |-> None]
  /\ armed = Start + Delay /\ lastQ = Start /\ sat = {} /\ envDone = {} /\ hist = <<>> /\ qlog = <<>> /\ bad = ""

(* ---------------------------------------------------------------- the scheduler *)
Live(s) == {a \in Aliases : s[a] # None}

\* _schedule_ptr_refresh: push the entry and, in steady state, re-arm the timer when the entry is due before it
ArmFor(when, cur) == IF Rearm /\ now >= Start /\ when < cur THEN when ELSE cur

\* reschedule_ptr_first_refresh(pointer) for alias a just stored as [c |-> now, ttl |-> t]
Reschedule(a, t) ==
  LET when == RefreshAt(now, t)
      cur == sched[a]
      keep == cur # None /\ cur.ttl = t /\ when - cur.when <= Delay /\ cur.when - when <= Delay
  IN IF keep THEN /\ sched' = sched /\ armed' = armed
     ELSE /\ sched' = [sched EXCEPT ![a] = [when |-> when, ttl |-> t, expire |-> ExpireAt(now, t)]]
          /\ armed' = ArmFor(when, armed)

Receive(a, t) ==
  /\ now \in EnvTimes /\ now \notin envDone /\ bad = ""
  /\ envDone' = envDone \cup {now}
  /\ hist' = Append(hist, [t |-> now, a |-> a, ttl |-> t])
  /\ IF t = 0
     THEN \* goodbye: reported only when the record is cached; the cache drops it at once, the browser cancels the refresh
          /\ rec' = [rec EXCEPT ![a] = None]
          /\ sched' = IF rec[a] # None THEN [sched EXCEPT ![a] = None] ELSE sched
          /\ sat' = {p \in sat : p[1] # a}
          /\ UNCHANGED armed
     ELSE /\ rec' = [rec EXCEPT ![a] = [c |-> now, ttl |-> t]]
          /\ sat' = {p \in sat : p[1] # a}
          /\ Reschedule(a, t)
  /\ UNCHANGED <<now, lastQ, qlog, bad>>

\* the environment lets an instant go by
Skip ==
  /\ now \in EnvTimes /\ now \notin envDone /\ bad = ""
  /\ envDone' = envDone \cup {now}
  /\ UNCHANGED <<now, rec, sched, armed, lastQ, sat, hist, qlog, bad>>

Served(t) == {<<a, k>> : a \in {x \in Aliases : rec[x] # None}, k \in 0..2} \cap
             {p \in Aliases \X (0..2) : rec[p[1]] # None /\ t >= WLo(rec[p[1]], p[2]) /\ t <= WHi(rec[p[1]], p[2])}
JustifiedNow == \E a \in Aliases : rec[a] # None /\ now >= WLo(rec[a], 0)

\* _process_ready_types
Fire ==
  /\ now = armed /\ bad = ""
  /\ LET due == {a \in Live(sched) : sched[a].when <= now}
         resc(a) == [when |-> now + 100 * sched[a].ttl, ttl |-> sched[a].ttl, expire |-> sched[a].expire]
         s2 == [a \in Aliases |-> IF a \in due THEN (IF resc(a).when < sched[a].expire THEN resc(a) ELSE None) ELSE sched[a]]
         nextT == now + Delay
         whens == {s2[a].when : a \in Live(s2)}
         \* with nothing scheduled the code polls every Delay; polls that find nothing and precede the next instant at which
         \* anything can change are skipped in the model (they only re-arm the timer)
         ahead == {t \in (EnvTimes \ envDone) \cup {NextPurge(ExpireAt(rec[a].c, rec[a].ttl)) : a \in {x \in Aliases : rec[x] # None}} : t > now}
         idle == IF ahead = {} THEN now + Delay * (IF Horizon > now THEN (Horizon - now) \div Delay + 1 ELSE 1)
                 ELSE LET k == (Min(ahead) - now + Delay - 1) \div Delay IN now + Delay * (IF k < 1 THEN 1 ELSE k)
     IN /\ sched' = s2
        /\ armed' = IF whens # {} /\ Min(whens) > nextT THEN Min(whens) ELSE IF whens = {} THEN idle ELSE nextT
        /\ IF due = {} THEN UNCHANGED <<lastQ, sat, qlog, bad>>
           ELSE /\ lastQ' = now
                /\ sat' = sat \cup Served(now)
                /\ qlog' = Append(qlog, now)
                /\ bad' = IF now - lastQ < Delay THEN "MinSpacing" ELSE IF ~JustifiedNow THEN "Justified" ELSE ""
  /\ UNCHANGED <<now, rec, envDone, hist>>

\* cache purge: expired records are removed and reported; the browser cancels their refresh
Expired(a) == rec[a] # None /\ ExpireAt(rec[a].c, rec[a].ttl) <= now
Purge ==
  /\ now % PurgeEvery = 0 /\ \E a \in Aliases : Expired(a)
  /\ bad = ""
  /\ rec' = [a \in Aliases |-> IF Expired(a) THEN None ELSE rec[a]]
  /\ sched' = [a \in Aliases |-> IF Expired(a) THEN None ELSE sched[a]]
  /\ sat' = {p \in sat : ~Expired(p[1])}
  /\ UNCHANGED <<now, armed, lastQ, envDone, hist, qlog, bad>>

(* ---------------------------------------------------------------- time *)
Instants == {armed} \cup (EnvTimes \ envDone)
            \cup {NextPurge(ExpireAt(rec[a].c, rec[a].ttl)) : a \in {x \in Aliases : rec[x] # None}}
Pending == \/ now = armed
           \/ (now \in EnvTimes /\ now \notin envDone)
           \/ (now % PurgeEvery = 0 /\ \E a \in Aliases : Expired(a))
Tick ==
  /\ ~Pending /\ bad = "" /\ now < Horizon
  /\ \E t \in Instants : t > now /\ (\A u \in Instants : u > now => t <= u) /\ now' = t
  /\ UNCHANGED <<rec, sched, armed, lastQ, sat, envDone, hist, qlog, bad>>

Next == Fire \/ Purge \/ Skip \/ Tick \/ (\E a \in Aliases, t \in TTLs \cup {0} : Receive(a, t))
Spec == Init /\ [][Next]_vars

(* ---------------------------------------------------------------- the contract, as invariants of the model *)
NoBad == bad = ""
MissedDeadline ==
  \E a \in Aliases : rec[a] # None /\ Steady(rec[a]) /\ \E k \in 0..2 :
      /\ WHi(rec[a], k) < now
      /\ <<a, k>> \notin sat
RefreshDue == ~MissedDeadline
TimerAlive == armed >= now
TypeOK == /\ \A a \in Aliases : sched[a] # None => rec[a] # None        \* nothing is scheduled for a record that is gone

(* simulation support: print each behaviour (environment history and predicted query instants) once it is complete *)
Done == now >= Horizon \/ (~Pending /\ \A t \in Instants : t <= now)
EmitBehaviour == IF Done /\ bad = "" THEN PrintT(<<"BEHAVIOUR", hist, qlog>>) ELSE TRUE
=============================================================================
