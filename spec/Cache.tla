-------------------------------- MODULE Cache --------------------------------
(* Contract of the record cache and of response ingestion (properties C05, C06).
   RFC 6762 section 10 reference model over a finite vocabulary of record identities.

   A cache is a function  Ids -> Entry  where Entry is None or [c |-> created (ms), ttl |-> seconds].
   A datagram is a sequence of items [id, ttl, fl] in wire order.

   Written from the property statements / RFC 6762 10, 10.1, 10.2 -- not from the code:
     * non-zero TTL  => cached with created = arrival, ttl = received (PTR raised to 1125);
       several occurrences of one identity: the last non-zero one wins;
     * zero TTL and cached before the datagram => removed (removal wins over a refresh in
       the same datagram); zero TTL and not cached => ignored;
     * cache-flush bit on any item of (name,type,class) => every *other* cached record of
       that (name,type,class) that is not itself in the datagram and is older than one
       second expires one second later: [c |-> now, ttl |-> 1];
     * purge at instant b removes exactly the entries with c + 1000*ttl <= b.             *)
EXTENDS CacheOps

CONSTANTS Ids,          \* record identities of the vocabulary
          RRof(_),      \* identity -> (name,type,class) class id
          IsPtrId(_)    \* identity -> BOOLEAN (type PTR; CNAME is not subject to the floor)

Eff(i, ttl) == IF IsPtrId(i) /\ ttl > 0 /\ ttl < PtrMinTtl THEN PtrMinTtl ELSE ttl
Present(ch) == {i \in Ids : ch[i] # None}
FlushKeys(items) == {RRof(items[k].id) : k \in {j \in Idx(items) : items[j].fl}}

(* State visible to listeners during the first notification: refreshed TTLs and flush marks
   are in place, nothing has been added or removed yet. *)
Marked(ch, items, now) ==
  [i \in Ids |->
     IF ch[i] = None THEN None
     ELSE IF i \in InDatagram(items)
          THEN IF NonZero(items, i) # {} THEN [c |-> now, ttl |-> Eff(i, LastNZ(items, i))] ELSE ch[i]
          ELSE IF RRof(i) \in FlushKeys(items) /\ now - ch[i].c > 1000 THEN [c |-> now, ttl |-> 1]
          ELSE ch[i]]

(* State after the datagram has been applied. *)
Ingest(ch, items, now) ==
  LET m == Marked(ch, items, now) IN
  [i \in Ids |->
     IF i \in InDatagram(items)
     THEN IF ch[i] # None /\ HasZero(items, i) THEN None
          ELSE IF NonZero(items, i) # {} THEN [c |-> now, ttl |-> Eff(i, LastNZ(items, i))]
          ELSE m[i]
     ELSE m[i]]

(* The (new, previous) pairs a listener must be given, in datagram order.
   prev = 0 means "no previous copy". *)
PairFor(ch, it) == [n |-> it.id, nttl |-> Eff(it.id, it.ttl), o |-> IF ch[it.id] # None THEN it.id ELSE 0]
Reported(ch, it) == it.ttl > 0 \/ ch[it.id] # None
RECURSIVE PairsFrom(_, _, _)
PairsFrom(ch, items, k) ==
  IF k > Len(items) THEN <<>>
  ELSE IF Reported(ch, items[k]) THEN <<PairFor(ch, items[k])>> \o PairsFrom(ch, items, k + 1)
  ELSE PairsFrom(ch, items, k + 1)
Pairs(ch, items) == PairsFrom(ch, items, 1)

PurgeSet(ch, b) == {i \in Present(ch) : IsExpired(ch[i], b)}
Purged(ch, b) == [i \in Ids |-> IF i \in PurgeSet(ch, b) THEN None ELSE ch[i]]

View(ch) == {<<i, ch[i].c, ch[i].ttl>> : i \in Present(ch)}
=============================================================================
