SPECIFICATION Spec
CONSTANTS
  Timeout = 3000
  Jitter = 20
  EnvTimes = {1003, 1107, 1213, 1226, 1301, 1433, 1447, 1611, 1903, 2407, 2463, 2477, 3013, 3471, 3483, 3997, 4003}
  InitialCache = {{}, {"srv"}, {"txt"}, {"a"}, {"srv", "txt"}, {"srv", "a"}, {"txt", "a"}}
  CheckSpacing = FALSE
  Horizon = 6000
INVARIANT NoBad
INVARIANT ReturnBy
INVARIANT SuccessIff
CHECK_DEADLOCK FALSE
