------------------------------- MODULE Register -------------------------------
(* Implementation-shaped model of service registration with probing (zeroconf/_core.py, Zeroconf.async_check_service
   followed by async_register_service's announcements) and the C09 contract for its schedule.  Milliseconds.

   Code -> model (each `await` of the coroutine is a cut between two atomic steps):
        i, next_time, info.name, next_instance_number          i, nextTime, k (candidate k = 1: the name asked for,
                                                                               k >= 2: "<instance>-k")
        cache.current_entry_with_name_and_alias(type, name)    k \in conf (a live pointer record with that instance name)
        await self.async_wait(next_time - now)                 phase = "wait" until wakeAt, or until any record update
                                                               arrives (notify_all): Receive sets woken
        the body between two awaits                             Run (conflict loop, then either wait or probe)

   The environment delivers conflicting pointer records for candidate names at the instants EnvTimes (one-way delay
   already included).  Contract:
        ProbeSchedule   the probes for the candidate finally registered (or being probed when registration fails) are sent
                        at r, r + 175, r + 350 where r is the instant the candidate was taken up
        ConflictDetected a conflict for the current candidate that is in the cache when a probe check runs (i.e. learned
                        before the third probe was sent) restarts probing under the next free name at that very instant,
                        or fails the registration when renaming is not allowed
        NeverRejected   a candidate that was given up is never announced
        Done            registration completes at the third probe of the last candidate; announcements at +0 / +225 / +450 *)
EXTENDS Integers, Sequences, FiniteSets, TLC

CONSTANTS EnvTimes, MaxK, Rename, Horizon,
          RecheckAfterWait     \* TRUE = the code as it is (`continue` after the wait re-runs the conflict check)

VARIABLES now, phase, i, nextTime, k, r, conf, woken, wakeAt, probes, ann, envDone, lastRx, hist, bad
vars == <<now, phase, i, nextTime, k, r, conf, woken, wakeAt, probes, ann, envDone, lastRx, hist, bad>>
view == <<now, phase, i, nextTime, k, r, conf, woken, wakeAt, ann, envDone, lastRx, bad>>

Start == 1000            \* the application calls async_register_service at this instant

Init == /\ now = 0 /\ phase = "idle" /\ i = 0 /\ nextTime = 0 /\ k = 1 /\ r = 0 /\ conf = {} /\ woken = FALSE /\ wakeAt = 0
        /\ probes = <<>> /\ ann = {} /\ envDone = {} /\ hist = <<>> /\ bad = ""
        /\ lastRx = [kind |-> "none", key |-> 0, t |-> -100000]       \* the listener's duplicate guard: last datagram processed

\* first candidate number >= c that has no conflict in the cache (the while loop of the code)
RECURSIVE FirstFree(_)
FirstFree(c) == IF c \in conf /\ c <= MaxK THEN FirstFree(c + 1) ELSE c

(* the body of the coroutine from a resumption point to the next await / return *)
RECURSIVE Body(_, _, _, _, _)
\* returns [phase, i, nextTime, k, r, probes, wakeAt]
Body(ci, cnext, ck, cr, cprobes) ==
  IF ci >= 3 THEN [phase |-> "done", i |-> ci, nextTime |-> cnext, k |-> ck, r |-> cr, probes |-> cprobes, wakeAt |-> 0]
  ELSE IF ck \in conf
       THEN IF ~Rename THEN [phase |-> "failed", i |-> ci, nextTime |-> cnext, k |-> ck, r |-> cr, probes |-> cprobes, wakeAt |-> 0]
            ELSE Body(0, now, FirstFree(ck + 1), now, cprobes)          \* next free name, probing starts over now
  ELSE IF now < cnext
       THEN [phase |-> "wait", i |-> ci, nextTime |-> cnext, k |-> ck, r |-> cr, probes |-> cprobes, wakeAt |-> cnext]
  ELSE Body(ci + 1, cnext + 175, ck, cr, Append(cprobes, [t |-> now, k |-> ck]))

Apply(b) ==
  /\ phase' = b.phase /\ i' = b.i /\ nextTime' = b.nextTime /\ k' = b.k /\ r' = b.r /\ probes' = b.probes /\ wakeAt' = b.wakeAt
  /\ woken' = FALSE
  /\ ann' = IF b.phase = "done" THEN {now, now + 225, now + 450} ELSE ann
  /\ bad' = bad
  \* the host hears its own probe (a query): it becomes the last datagram processed unless it repeats the previous one
  /\ lastRx' = IF Len(b.probes) > Len(probes) /\ ~(lastRx.kind = "p" /\ lastRx.key = b.k /\ now - 1000 < lastRx.t)
               THEN [kind |-> "p", key |-> b.k, t |-> now] ELSE lastRx

Begin ==
  /\ phase = "idle" /\ now = Start /\ bad = ""
  /\ Apply(Body(0, now, 1, now, <<>>))
  /\ UNCHANGED <<now, conf, envDone, hist>>

\* the coroutine is resumed: timeout of async_wait, or a record update arrived while it waited
Resume ==
  /\ phase = "wait" /\ (now >= wakeAt \/ woken) /\ bad = ""
  /\ IF RecheckAfterWait \/ now >= nextTime
     THEN Apply(Body(i, nextTime, k, r, probes))
     ELSE \* (seeded slip C09-a: a loop that only waits again, without re-running the conflict check)
          /\ woken' = FALSE /\ UNCHANGED <<phase, i, nextTime, k, r, probes, wakeAt, ann, lastRx, bad>>
  /\ UNCHANGED <<now, conf, envDone, hist>>

Receive(c) ==
  /\ now \in EnvTimes /\ now \notin envDone /\ bad = ""
  /\ envDone' = envDone \cup {now}
  /\ hist' = Append(hist, [t |-> now, c |-> c])
  /\ IF lastRx.kind = "c" /\ lastRx.key = c /\ now - 1000 < lastRx.t
     THEN UNCHANGED <<conf, woken, lastRx>>                     \* byte-identical to the previous datagram: dropped by the guard
     ELSE /\ conf' = conf \cup {c}
          /\ woken' = (woken \/ phase = "wait")
          /\ lastRx' = [kind |-> "c", key |-> c, t |-> now]
  /\ UNCHANGED <<now, phase, i, nextTime, k, r, wakeAt, probes, ann, bad>>

Skip ==
  /\ now \in EnvTimes /\ now \notin envDone /\ bad = ""
  /\ envDone' = envDone \cup {now}
  /\ UNCHANGED <<now, phase, i, nextTime, k, r, conf, woken, wakeAt, probes, ann, lastRx, hist, bad>>

Instants == (EnvTimes \ envDone) \cup (IF phase = "idle" THEN {Start} ELSE {}) \cup (IF phase = "wait" THEN {wakeAt} ELSE {})
Pending == \/ (now \in EnvTimes /\ now \notin envDone)
           \/ (phase = "idle" /\ now = Start)
           \/ (phase = "wait" /\ (now >= wakeAt \/ woken))
Tick ==
  /\ ~Pending /\ bad = "" /\ now < Horizon
  /\ \E t \in Instants : t > now /\ (\A u \in Instants : u > now => t <= u) /\ now' = t
  /\ UNCHANGED <<phase, i, nextTime, k, r, conf, woken, wakeAt, probes, ann, envDone, lastRx, hist, bad>>

Next == Begin \/ Resume \/ Skip \/ Tick \/ (\E c \in 1..MaxK : Receive(c))
Spec == Init /\ [][Next]_vars

(* ---------------------------------------------------------------- contract *)
NoBad == bad = ""
\* the probes of the current candidate are exactly those sent since it was taken up, at r + 175 j
CurProbes == SelectSeq(probes, LAMBDA p : p.k = k /\ p.t >= r)
ProbeSchedule == /\ Len(CurProbes) = i
                 /\ \A j \in 1..Len(CurProbes) : CurProbes[j].t = r + 175 * (j - 1)
\* a conflict for the current candidate that the cache holds while the coroutine is suspended has been acted upon as soon as
\* the coroutine could run: it is never suspended, done or announcing with a known conflict on its name
ConflictDetected == (phase = "wait" /\ ~woken) => k \notin conf
\* registration never completes under a name whose conflict was known before its third probe went out
DoneClean == phase = "done" => ~\E h \in {hist[j] : j \in 1..Len(hist)} : h.c = k /\ h.t < r + 350
Done == now >= Horizon \/ (~Pending /\ \A t \in Instants : t <= now)
EmitBehaviour == IF Done /\ bad = "" THEN PrintT(<<"BEHAVIOUR", hist, probes, phase, k>>) ELSE TRUE
=============================================================================
