--------------------------- MODULE Trace_History ---------------------------
(* Trace validation of the real QuestionHistory (zeroconf/_history.py) against HistoryContract.tla: the harness
   (props/historymodel.py) performs the calls of a history of the model History.tla on a real QuestionHistory with real DNSQuestion
   and DNSPointer objects (names in changing letter case) and records every answer of suppresses():
        add [t, q, ka]     ask [t, q, ka, res]     expire [t]
   Clause C13_HistorySuppresses: every answer is HSuppresses of the sightings so far (the clean-up is invisible).            *)
EXTENDS Integers, Sequences, FiniteSets, Json, IOUtils, TLC, TLCExt, HistoryContract

ASSUME TLCSet(42, JsonDeserialize(IOEnv.TRACE_FILE))
D == TLCGet(42)
Traces == D.traces
N == Len(Traces)
ToSet(q) == {q[k] : k \in 1..Len(q)}
QSet == ToSet(D.questions)

VARIABLES tid, l, s
vars == <<tid, l, s>>
Fail(st, c) == [st EXCEPT !.err = c]
InitState == [last |-> [q \in QSet |-> NoSight], err |-> ""]

Step(st, e) ==
  CASE e.ev = "start" -> InitState
    [] e.ev = "add" -> [st EXCEPT !.last = HAfterAdd(st.last, e.q, e.t, ToSet(e.ka))]
    [] e.ev = "ask" -> IF e.res # HSuppresses(st.last, e.q, e.t, ToSet(e.ka)) THEN Fail(st, "C13_HistorySuppresses") ELSE st
    [] e.ev = "expire" -> st
    [] e.ev = "exc" -> Fail(st, "C15_NoException")
    [] e.ev = "end" -> st
    [] OTHER -> Fail(st, "Trace_Malformed")

Events == Traces[tid].events
Init == /\ tid \in 1..N /\ l = 1 /\ s = InitState
Next == /\ s.err = "" /\ l <= Len(Events)
        /\ s' = Step(s, Events[l])
        /\ l' = IF s'.err = "" THEN l + 1 ELSE l
        /\ UNCHANGED tid
Spec == Init /\ [][Next]_vars

ASSUME \A i \in 1..N : TLCSet(1000 + i, <<0, "">>)
Progress ==
  LET cur == TLCGet(1000 + tid)
      score == IF s.err = "" THEN 2 * l ELSE 2 * l + 1
  IN IF score > cur[1] THEN TLCSet(1000 + tid, <<score, s.err>>) ELSE TRUE
Verdicts ==
  \A i \in 1..N :
    LET r == TLCGet(1000 + i)
        n == Len(Traces[i].events)
    IN IF r[1] = 2 * (n + 1) /\ r[2] = "" THEN PrintT(<<"VERDICT", Traces[i].id, TRUE, "", n>>)
       ELSE PrintT(<<"VERDICT", Traces[i].id, FALSE, r[2], r[1] \div 2>>)
=============================================================================
