SPECIFICATION Spec
CONSTANTS
  Aliases = {a1, a2, a3}
  TTLs = {1125, 1200, 4500}
  Delay = 10000
  Start = 14020
  SteadyFrom = 14120
  EnvTimes = {20000, 60000, 850000, 915000, 925000, 1020000, 1100000, 3390000, 3400000}
  Horizon = 6000000
  Rearm = TRUE
  PurgeEvery = 10000
VIEW view
INVARIANT NoBad
INVARIANT RefreshDue
INVARIANT TimerAlive
INVARIANT TypeOK
CHECK_DEADLOCK FALSE
