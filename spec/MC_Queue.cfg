SPECIFICATION Spec
CONSTANTS
  Recs = {r1, r2}
  Jitters = {20, 120}
  EnvTimes = {2000, 2050, 2130, 2400, 2950, 3100}
  Horizon = 6000
  Purge = TRUE
  AllowUnreg = TRUE
  CheckStrict = FALSE
VIEW view
INVARIANT NoBad
INVARIANT NoOverdue
INVARIANT TimersCoverQueues
CHECK_DEADLOCK FALSE
