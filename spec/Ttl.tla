--------------------------------- MODULE Ttl ---------------------------------
(* The lifetime predicates of a resource record (RFC 6762 sections 5.2, 7.1, 10; zeroconf/_dns.py: DNSRecord.is_expired,
   is_stale, is_recent, get_remaining_ttl, get_expiration_time, _suppressed_by_answer, DNSRRSet.suppresses) as the statements of
   the properties use them.  c = creation instant in ms, ttl in s, now in ms.
     Expired    the whole TTL has gone by                                                      (C05, C18: "had not expired")
     Stale      half of the TTL has gone by: no longer listed as a known answer               (C13: "more than half of their TTL left")
     Recent     less than a quarter of the TTL has gone by                                     (C11: "within a quarter of its TTL")
     Remaining  whole-or-fractional seconds left, never negative: here in ms                   (C13: "each with its remaining TTL")
     Suppresses a known answer suppresses when its TTL is more than half of the record's       (C03)                       *)
EXTENDS Integers
Expired(c, ttl, now) == c + 1000 * ttl <= now
Stale(c, ttl, now) == c + 500 * ttl <= now
Recent(c, ttl, now) == c + 250 * ttl > now
RemainingMs(c, ttl, now) == IF c + 1000 * ttl - now < 0 THEN 0 ELSE c + 1000 * ttl - now
PercentAt(c, ttl, pct) == c + 10 * pct * ttl
Suppresses(knownTtl, ownTtl) == 2 * knownTtl > ownTtl
=============================================================================
