--------------------------------- MODULE Wire ---------------------------------
(* StrictParse: a strict RFC 1035 section 4 / RFC 6762 message parser as a TLA+ operator over a
   datagram given as a sequence of octets (property C02, clause Faithful).  Written from the RFCs:

     header (12 octets), QDCOUNT questions, then ANCOUNT+NSCOUNT+ARCOUNT resource records;
     a name is a sequence of labels (length octet 1..63), ended by a zero octet or by ONE
     compression pointer per hop (11xxxxxx xxxxxxxx) which must point strictly backward -- below the
     start of the name and below every earlier hop of the same name -- so that decoding terminates;
     at most 127 hops per name (no encoder produces label-less hops; strict parsers in the field cap
     them, e.g. 126 in miekg/dns), at most 128 labels and 253 characters of text; rdata of the
     known types must consume exactly RDLENGTH octets; nothing may follow the last record.

   Octets >= 0x80 inside labels / character strings are represented by the code point 65533 (the
   harness only sends TLC datagrams whose label octets are ASCII or invalid as UTF-8 on their own).
   32-bit TTLs are kept as <<high 16 bits, low 16 bits>> (TLC integers are 32-bit signed).          *)
EXTENDS Integers, Sequences, FiniteSets

MaxHops == 127
MaxLabels == 128
MaxText == 253
Bad == [ok |-> FALSE]
Ch(x) == IF x < 128 THEN x ELSE 65533
Chars(s) == [k \in 1..Len(s) |-> Ch(s[k])]
U16(b, o) == b[o + 1] * 256 + b[o + 2]                \* o: 0-based offset

RECURSIVE NameFrom(_, _, _, _, _, _, _)
NameFrom(b, off, labels, nxt, hops, lowest, chars) ==
  IF off >= Len(b) THEN Bad
  ELSE LET ln == b[off + 1] IN
    IF ln = 0 THEN [ok |-> TRUE, labels |-> labels, next |-> IF nxt < 0 THEN off + 1 ELSE nxt]
    ELSE IF ln < 64
         THEN IF off + 1 + ln > Len(b) \/ Len(labels) + 1 > MaxLabels \/ chars + ln + 1 > MaxText THEN Bad
              ELSE NameFrom(b, off + 1 + ln, Append(labels, Chars(SubSeq(b, off + 2, off + 1 + ln))), nxt, hops, lowest, chars + ln + 1)
    ELSE IF ln < 192 THEN Bad
    ELSE IF off + 2 > Len(b) THEN Bad
    ELSE LET tgt == (ln - 192) * 256 + b[off + 2] IN
         IF tgt >= lowest \/ hops + 1 > MaxHops THEN Bad
         ELSE NameFrom(b, tgt, labels, IF nxt < 0 THEN off + 2 ELSE nxt, hops + 1, tgt, chars)
ReadName(b, off) == NameFrom(b, off, <<>>, -1, 0, off, 0)

(* dotted text of a name as the sequence of its characters, with the trailing dot *)
RECURSIVE TextFrom(_, _)
TextFrom(labels, k) == IF k > Len(labels) THEN <<>> ELSE labels[k] \o <<46>> \o TextFrom(labels, k + 1)
NameText(labels) == IF labels = <<>> THEN <<46>> ELSE TextFrom(labels, 1)

(* rdata of the supported types; `lim` = offset just after the rdata.  Names inside rdata may only
   use octets before lim. *)
ReadNameIn(b, off, lim) == LET r == ReadName(SubSeq(b, 1, lim), off) IN r

Types(b, o, lim) ==
  LET RECURSIVE T(_, _)
      T(p, acc) == IF p = lim THEN [ok |-> TRUE, set |-> acc]
                   ELSE IF p + 2 > lim THEN Bad
                   ELSE LET w == b[p + 1]
                            n == b[p + 2]
                        IN IF p + 2 + n > lim THEN Bad
                           ELSE T(p + 2 + n, acc \cup {w * 256 + i * 8 + bit : <<i, bit>> \in {x \in (0..(n - 1)) \X (0..7) :
                                                                   (b[p + 3 + x[1]] \div (2 ^ (7 - x[2]))) % 2 = 1}})
  IN T(o, {})

Rdata(b, type, off, len) ==
  LET lim == off + len IN
  CASE type = 1  -> IF len = 4 THEN [ok |-> TRUE, rd |-> <<"a", SubSeq(b, off + 1, lim)>>] ELSE Bad
    [] type = 28 -> IF len = 16 THEN [ok |-> TRUE, rd |-> <<"a", SubSeq(b, off + 1, lim)>>] ELSE Bad
    [] type \in {12, 5} -> LET n == ReadNameIn(b, off, lim) IN
                           IF n.ok /\ n.next = lim THEN [ok |-> TRUE, rd |-> <<"n", NameText(n.labels)>>] ELSE Bad
    [] type = 16 -> [ok |-> TRUE, rd |-> <<"t", SubSeq(b, off + 1, lim)>>]
    [] type = 33 -> IF len < 7 THEN Bad
                    ELSE LET n == ReadNameIn(b, off + 6, lim) IN
                         IF n.ok /\ n.next = lim THEN [ok |-> TRUE, rd |-> <<"s", U16(b, off), U16(b, off + 2), U16(b, off + 4), NameText(n.labels)>>] ELSE Bad
    [] type = 13 -> IF len < 2 THEN Bad
                    ELSE LET l1 == b[off + 1] IN
                         IF off + 1 + l1 >= lim THEN Bad
                         ELSE LET o2 == off + 1 + l1
                                  l2 == b[o2 + 1]
                              IN IF o2 + 1 + l2 # lim THEN Bad
                                 ELSE [ok |-> TRUE, rd |-> <<"h", Chars(SubSeq(b, off + 2, off + 1 + l1)), Chars(SubSeq(b, o2 + 2, o2 + 1 + l2))>>]
    [] type = 47 -> LET n == ReadNameIn(b, off, lim) IN
                    IF ~n.ok THEN Bad
                    ELSE LET ty == Types(b, n.next, lim) IN
                         IF ty.ok THEN [ok |-> TRUE, rd |-> <<"x", NameText(n.labels), ty.set>>] ELSE Bad
    [] OTHER -> [ok |-> TRUE, rd |-> <<"u">>]

Supported(type) == type \in {1, 28, 12, 5, 16, 33, 13, 47}

RECURSIVE Questions(_, _, _, _)
Questions(b, off, n, acc) ==
  IF n = 0 THEN [ok |-> TRUE, next |-> off, qs |-> acc]
  ELSE LET nm == ReadName(b, off) IN
       IF ~nm.ok \/ nm.next + 4 > Len(b) THEN Bad
       ELSE Questions(b, nm.next + 4, n - 1, Append(acc, <<NameText(nm.labels), U16(b, nm.next), U16(b, nm.next + 2)>>))

RECURSIVE Records(_, _, _, _)
Records(b, off, n, acc) ==
  IF n = 0 THEN [ok |-> TRUE, next |-> off, rrs |-> acc]
  ELSE LET nm == ReadName(b, off) IN
       IF ~nm.ok \/ nm.next + 10 > Len(b) THEN Bad
       ELSE LET o == nm.next
                type == U16(b, o)
                len == U16(b, o + 8)
            IN IF o + 10 + len > Len(b) THEN Bad
               ELSE LET rd == Rdata(b, type, o + 10, len) IN
                    IF ~rd.ok THEN Bad
                    ELSE Records(b, o + 10 + len, n - 1,
                                 Append(acc, <<NameText(nm.labels), type, U16(b, o + 2), <<U16(b, o + 4), U16(b, o + 6)>>, rd.rd>>))

StrictParse(b) ==
  IF Len(b) < 12 THEN Bad
  ELSE LET q == Questions(b, 12, U16(b, 4), <<>>) IN
       IF ~q.ok THEN Bad
       ELSE LET nrec == U16(b, 6) + U16(b, 8) + U16(b, 10)
                r == Records(b, q.next, nrec, <<>>)
            IN IF ~r.ok \/ r.next # Len(b) THEN Bad
               ELSE [ok |-> TRUE, id |-> U16(b, 0), flags |-> U16(b, 2), qs |-> q.qs, rrs |-> r.rrs,
                     supported |-> \A k \in 1..Len(r.rrs) : Supported(r.rrs[k][2])]
=============================================================================
