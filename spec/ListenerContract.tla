--------------------------- MODULE ListenerContract ---------------------------
(* The contract of the datagram front end (duplicate guard, response / query split, truncated query trains) as pure operators,
   shared by the implementation-shaped model Listener.tla (which judges its own steps with them) and by the trace
   specification Trace_Listener.tla (which judges what the real AsyncListener handed on).
   K(d) is the description of datagram d: [kind : "q" | "r" | "x", tc, qu].  gm = [d, t] is the last accepted datagram,
   train[a] the accepted truncated packets of source a that still wait for their answer.                                   *)
EXTENDS Integers, Sequences

CRange(s) == {s[i] : i \in 1..Len(s)}
CNoMem == [d |-> "", t |-> -100000]
\* C16: equal to the last accepted datagram, less than a second later, no QU question
CDup(K(_), gm, d, now) == gm.d = d /\ now - 1000 < gm.t /\ ~K(d).qu
\* what must be handed on at the instant of the delivery: <<calls, updates>>
CRecv(K(_), gm, train, d, a, now) ==
  IF CDup(K, gm, d, now) THEN <<<<>>, <<>>>>
  ELSE IF K(d).kind = "r" THEN <<<<>>, <<[t |-> now, d |-> d]>>>>
  ELSE IF K(d).kind = "q" /\ ~K(d).tc THEN <<<<[t |-> now, a |-> a, pk |-> Append(train[a], d)]>>, <<>>>>
  ELSE <<<<>>, <<>>>>
CTrain(K(_), gm, train, d, a, now) ==
  IF CDup(K, gm, d, now) \/ K(d).kind # "q" THEN train
  ELSE IF ~K(d).tc THEN [train EXCEPT ![a] = <<>>]
  ELSE IF d \in CRange(train[a]) THEN train
  ELSE [train EXCEPT ![a] = Append(@, d)]
CGuard(K(_), gm, d, now) == IF CDup(K, gm, d, now) THEN gm ELSE [d |-> d, t |-> now]
CNewTc(K(_), gm, train, d, a, now) == ~CDup(K, gm, d, now) /\ K(d).kind = "q" /\ K(d).tc /\ d \notin CRange(train[a])
CAnyTc(K(_), gm, d, now) == ~CDup(K, gm, d, now) /\ K(d).kind = "q" /\ K(d).tc
\* the clause a timer call [a, pk] at `now` violates ("" = none)
\* the same datagram twice in one assembly: a repeated delivery had an effect (a copy that carries a QU question is exempt from
\* the guard but not from the train's own check)
CHasDup(pk) == \E i, j \in 1..Len(pk) : i < j /\ pk[i] = pk[j]
CTimerCall(train, tnew, tany, a, pk, now) ==
  IF pk = <<>> THEN "C15_EmptyAssembly"
  ELSE IF CHasDup(pk) THEN "C16_DuplicateEffect"
  ELSE IF pk # train[a] THEN "C12_TrainAssembly"
  ELSE IF now < tnew[a] + 400 \/ now > tany[a] + 500 THEN "C12_HoldWindow"
  ELSE ""
=============================================================================
