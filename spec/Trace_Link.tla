------------------------------ MODULE Trace_Link ------------------------------
(* Code -> spec binding for C07: several real instances on one simulated link.  The trace holds the
   API calls (register / unregister / close), browser starts, browser callbacks, the results of the
   lookups made from inside every Added callback, and "check" events placed by the scenario one
   settling time after the last change (16 s after registrations / browser starts, 2.5 s after
   withdrawals).  The link's behaviour (delay <= 100 ms per receiver, duplication, the loss of ONE
   chosen datagram) is part of the scenario, not of the trace: the contract is about what every
   browser reports, whatever the link did within those limits.                                     *)
EXTENDS Integers, Sequences, FiniteSets, Json, IOUtils, TLC, TLCExt

ASSUME TLCSet(42, JsonDeserialize(IOEnv.TRACE_FILE))
D == TLCGet(42)
Traces == D.traces
N == Len(Traces)
Bids == 1..4

VARIABLES tid, l, s
vars == <<tid, l, s>>
ToSet(q) == {q[k] : k \in 1..Len(q)}
Fail(st, clause) == [st EXCEPT !.err = clause]

InitState == [reg |-> {}, pend |-> {}, bt |-> [b \in Bids |-> {}], live |-> [b \in Bids |-> {}], lax |-> {}, err |-> ""]

Registered(st, ty) == {v.name : v \in {x \in st.reg : x.type = ty}}
LiveOf(st, b, ty) == {p[2] : p \in {q \in st.live[b] : q[1] = ty}}

CheckClause(st) ==
  IF \E b \in Bids : \E ty \in st.bt[b] : Registered(st, ty) \ LiveOf(st, b, ty) # {} THEN "C07_RegisteredNotAdded"
  ELSE IF \E b \in Bids : \E ty \in st.bt[b] : LiveOf(st, b, ty) \ Registered(st, ty) # {} THEN "C07_WithdrawnNotRemoved"
  ELSE ""

(* a browser one of whose callbacks raised (st.lax) may be told the events of that batch again: for it only the sets are
   judged, not the alternation *)
OnCb(st, e) ==
  IF e.kind = "add" THEN (IF <<e.ty, e.name>> \in st.live[e.bid] /\ e.bid \notin st.lax THEN Fail(st, "C07_Alternation")
                          ELSE [st EXCEPT !.live[e.bid] = @ \cup {<<e.ty, e.name>>}])
  ELSE IF e.kind = "rem" THEN (IF <<e.ty, e.name>> \notin st.live[e.bid] /\ e.bid \notin st.lax THEN Fail(st, "C07_Alternation")
                               ELSE [st EXCEPT !.live[e.bid] = @ \ {<<e.ty, e.name>>}])
  ELSE st

(* a lookup made from the Added callback: when the instance is (still) registered and was registered before the
   lookup started, it must resolve to what was advertised *)
OnLookup(st, e) ==
  LET cur == {v \in st.reg : v.name = e.name /\ v.since <= e.t0} IN
  IF cur = {} THEN st
  ELSE LET v == CHOOSE x \in cur : TRUE IN
       IF ~e.ok THEN Fail(st, "C07_LookupResolves")
       ELSE IF e.host # v.host \/ e.port # v.port \/ e.txt # v.txt \/ v.addr \notin ToSet(e.addrs) THEN Fail(st, "C07_LookupFields")
       ELSE st

Step(st, e) ==
  CASE e.ev = "start" -> InitState
    [] e.ev = "api" /\ e.op = "reg" -> [st EXCEPT !.pend = @ \cup {e.svc}]
    [] e.ev = "api_ret" /\ e.op = "reg" ->
         IF e.ok /\ \E v \in st.pend : v.name = e.name
         THEN LET v == CHOOSE x \in st.pend : x.name = e.name IN
              [st EXCEPT !.pend = @ \ {v},
                         !.reg = @ \cup {[name |-> v.name, type |-> v.type, host |-> v.host, port |-> v.port, txt |-> v.txt,
                                          addr |-> v.addr, on |-> v.on, since |-> e.t]}]
         ELSE Fail(st, "C07_RegistrationFailed")
    [] e.ev = "api" /\ e.op = "unreg" -> [st EXCEPT !.reg = {v \in @ : v.name # e.name}]
    [] e.ev = "api" /\ e.op = "close" -> [st EXCEPT !.reg = {v \in @ : v.on # e.host}]
    [] e.ev = "api_ret" /\ e.op = "close" -> st
    [] e.ev = "bstart" -> [st EXCEPT !.bt[e.bid] = ToSet(e.types), !.live[e.bid] = {}]
    [] e.ev = "bstop"  -> [st EXCEPT !.bt[e.bid] = {}, !.live[e.bid] = {}]
    [] e.ev = "cb"     -> OnCb(st, e)
    [] e.ev = "lookup_ret" -> OnLookup(st, e)
    [] e.ev = "check"  -> IF CheckClause(st) # "" THEN Fail(st, CheckClause(st)) ELSE st
    [] e.ev = "uexc"   -> [st EXCEPT !.lax = @ \cup {e.bid}]
    [] e.ev = "inject" -> st
    [] e.ev = "exc"    -> Fail(st, "C15_NoException")
    [] e.ev = "end"    -> st
    [] OTHER           -> Fail(st, "Trace_Malformed")

Events == Traces[tid].events
Init == /\ tid \in 1..N /\ l = 1 /\ s = InitState
Next == /\ s.err = "" /\ l <= Len(Events)
        /\ s' = Step(s, Events[l])
        /\ l' = IF s'.err = "" THEN l + 1 ELSE l
        /\ UNCHANGED tid
Spec == Init /\ [][Next]_vars

ASSUME \A i \in 1..N : TLCSet(1000 + i, <<0, "">>)
DebugDump == IF s.err # "" /\ "dbg" \in DOMAIN D THEN PrintT(<<"DEBUG", Traces[tid].id, l, s>>) ELSE TRUE
Progress ==
  LET cur == TLCGet(1000 + tid)
      score == IF s.err = "" THEN 2 * l ELSE 2 * l + 1
  IN /\ IF score > cur[1] THEN TLCSet(1000 + tid, <<score, s.err>>) ELSE TRUE
     /\ DebugDump
Verdicts ==
  \A i \in 1..N :
    LET r == TLCGet(1000 + i)
        n == Len(Traces[i].events)
    IN IF r[1] = 2 * (n + 1) /\ r[2] = "" THEN PrintT(<<"VERDICT", Traces[i].id, TRUE, "", n>>)
       ELSE PrintT(<<"VERDICT", Traces[i].id, FALSE, r[2], r[1] \div 2>>)
=============================================================================
