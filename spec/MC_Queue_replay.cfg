SPECIFICATION Spec
CONSTANTS
  Recs = {r1, r2}
  Jitters = {20, 120}
  EnvTimes = {2000, 2100, 2950}
  Horizon = 6000
  Purge = TRUE
  AllowUnreg = TRUE
  CheckStrict = FALSE
CONSTRAINT EmitBehaviour
INVARIANT NoBad
INVARIANT NoOverdue
CHECK_DEADLOCK FALSE
