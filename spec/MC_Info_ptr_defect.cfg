SPECIFICATION Spec
CONSTANTS
  Ports = {80, 8080}
  OTtls = {4500, 120}
  HTtls = {120}
  Texts = {"a"}
  AddrSets = {"x", "y"}
  MaxOps = 5
  SyncKeeps = "ptr"
  AddrsSetterKeepsExtra = FALSE
VIEW view
INVARIANT NoBad
CHECK_DEADLOCK FALSE
