SPECIFICATION Spec
CONSTANTS
  Svcs = {s1}
  EnvTimes = {1000, 1237, 1480, 1603}
  Horizon = 6000
  Guarded = FALSE
  AllowProbe = FALSE
  AllowBusy = TRUE
VIEW view
INVARIANT NoBad
CHECK_DEADLOCK FALSE
