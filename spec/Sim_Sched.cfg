SPECIFICATION Spec
CONSTANTS
  Aliases = {a1, a2, a3}
  TTLs = {1125, 1200, 2000, 4500}
  Delay = 10000
  Start = 14020
  SteadyFrom = 14120
  EnvTimes = {3001, 20002, 60003, 300004, 850005, 905006, 915007, 925008, 1020009, 1100010, 1500011, 1700012, 3390013, 3400014, 3500015, 4000016}
  Horizon = 6000000
  Rearm = TRUE
  PurgeEvery = 10000
INVARIANT NoBad
INVARIANT RefreshDue
INVARIANT TimerAlive
CHECK_DEADLOCK FALSE
