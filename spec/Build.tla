-------------------------------- MODULE Build --------------------------------
(* Implementation-shaped model of the message builder (zeroconf/_protocol/outgoing.py: DNSOutgoing.packets, _write_question,
   _write_record, write_name, _check_data_limit_or_rollback) with scaled-down size limits, and the C01 / C14 contract for it.

   A name is a sequence of label ids; LabelBytes gives the length of each label in octets.  An entry is
        [sec, name, kind, fixed, rname]     kind "q" (question: 4 octets after the name) or "r" (record: 10 octets + rdata),
                                            fixed = rdata octets that are not a name, rname = the name inside the rdata (<<>> = none)
   Code -> model:
        self.size                                   size      (starts at 12, the header)
        self.names  (name / suffix -> offset)       names     (set of <<suffix, offset>>)
        self.data (what has been written)           spelled   (offset -> suffix whose literal labels start there), items
        self.allow_long                             allowLong (the first entry of a datagram may exceed the typical limit)
        packets(): questions, answers, authorities, additionals are tried in turn for every datagram, each section stops at
        its first entry that does not fit (rolled back); a datagram without any entry ends the loop.

   Contract:
        TableSound      every entry of the compression table points at octets that spell that very suffix (what a decoder
                        will read when it follows the pointer)
        Sizes           a finished datagram is at most Typical octets, or holds a single entry of at most Absolute octets
        Partition       the entries of each section come out once, in order, over the datagrams
        Progress        the builder ends having written everything (no entry can be larger than Absolute here)             *)
EXTENDS Integers, Sequences, FiniteSets, TLC

CONSTANTS Names,         \* the owner names that may occur (sequences of label ids)
          RNames,        \* the names that may occur inside rdata
          LabelBytes,    \* label id -> octets
          Fixed,         \* choices for the rdata size of a record without a name in its rdata (TXT: any size)
          FixedWithName, \* choices for the rdata octets that precede the name of a record that has one (PTR: 0, SRV: 6)
          MaxQ, MaxAn, MaxNs, MaxAr,
          Typical, Absolute,
          RollbackGE,    \* TRUE: entries of the table with offset >= the start of the rolled back entry are dropped (the code)
          OffsetInBytes  \* TRUE: suffix offsets are computed in octets (the code); FALSE: one octet short per label (a char/byte slip)

VARIABLES inp, off, size, names, spelled, items, allowLong, sec, pkts, phase, bad
vars == <<inp, off, size, names, spelled, items, allowLong, sec, pkts, phase, bad>>

Header == 12
Secs == <<"qd", "an", "ns", "ar">>
Suffix(n, k) == SubSeq(n, k, Len(n))
RECURSIVE NameBytes(_)
NameBytes(n) == IF n = <<>> THEN 0 ELSE 1 + LabelBytes[n[1]] + NameBytes(Tail(n))
Lookup(tbl, n) == IF \E p \in tbl : p[1] = n THEN (CHOOSE p \in tbl : p[1] = n)[2] ELSE 0

(* write_name(n) at offset start with table tbl: result [tbl, sp (new spelled entries), bytes] *)
RECURSIVE WriteFrom(_, _, _, _, _, _)
WriteFrom(n, k, start, at, tbl, sp) ==
  \* labels k.. of n still to write, the current write position is `at`
  IF k > Len(n) THEN [tbl |-> tbl, sp |-> sp, bytes |-> at + 1 - start]                         \* terminating zero octet
  ELSE LET suf == Suffix(n, k)
           hit == Lookup(tbl, suf)
       IN IF hit # 0 THEN [tbl |-> tbl, sp |-> sp, bytes |-> at + 2 - start]                  \* pointer
          ELSE LET noted == IF OffsetInBytes THEN at ELSE at - (k - 1)
               IN WriteFrom(n, k + 1, start, at + 1 + LabelBytes[n[k]], tbl \cup {<<suf, noted>>}, sp \cup {<<at, suf>>})
WriteName(n, start, tbl) ==
  IF n = <<>> THEN [tbl |-> tbl, sp |-> {}, bytes |-> 1]
  ELSE WriteFrom(n, 1, start, start, tbl, {})

\* (property domain: every single entry fits a datagram of Absolute octets on its own)
Fits(e) == Header + NameBytes(e.name) + (IF e.kind = "q" THEN 4 ELSE 10) + e.fixed
           + (IF e.rname # <<>> THEN NameBytes(e.rname) ELSE 0) <= Absolute
UniverseAll ==
  [sec : {"qd"}, name : Names, kind : {"q"}, fixed : {0}, rname : {<<>>}]
  \cup [sec : {"an", "ns", "ar"}, name : Names, kind : {"r"}, fixed : FixedWithName, rname : RNames]
  \cup [sec : {"an", "ns", "ar"}, name : Names, kind : {"r"}, fixed : Fixed, rname : {<<>>}]
Universe == {e \in UniverseAll : Fits(e)}
SeqsUpTo(S, n) == UNION {[1..k -> S] : k \in 0..n}

Init ==
  /\ inp \in [qd : SeqsUpTo({e \in Universe : e.sec = "qd"}, MaxQ), an : SeqsUpTo({e \in Universe : e.sec = "an"}, MaxAn),
              ns : SeqsUpTo({e \in Universe : e.sec = "ns"}, MaxNs), ar : SeqsUpTo({e \in Universe : e.sec = "ar"}, MaxAr)]
  /\ off = [qd |-> 0, an |-> 0, ns |-> 0, ar |-> 0]
  /\ size = Header /\ names = {} /\ spelled = {} /\ items = <<>> /\ allowLong = TRUE /\ sec = 1 /\ pkts = <<>> /\ phase = "write" /\ bad = ""

Section(s) == IF s = "qd" THEN inp.qd ELSE IF s = "an" THEN inp.an ELSE IF s = "ns" THEN inp.ns ELSE inp.ar
Written(s) == Len(SelectSeq(items, LAMBDA e : e.sec = s))
MoreToAdd == \E k \in 1..4 : off[Secs[k]] < Len(Section(Secs[k]))

(* one _write_question / _write_record call: the next entry of the current section, or the end of that section's loop *)
Write ==
  /\ phase = "write" /\ sec <= 4 /\ bad = ""
  /\ LET s == Secs[sec]
         nxt == off[s] + Written(s) + 1
     IN IF nxt > Len(Section(s))
        THEN /\ sec' = sec + 1 /\ UNCHANGED <<size, names, spelled, items, allowLong>>
        ELSE LET e == Section(s)[nxt]
                 w1 == WriteName(e.name, size, names)
                 afterHead == size + w1.bytes + (IF e.kind = "q" THEN 4 ELSE 10) + e.fixed
                 w2 == IF e.kind = "r" /\ e.rname # <<>> THEN WriteName(e.rname, afterHead, w1.tbl)
                       ELSE [tbl |-> w1.tbl, sp |-> {}, bytes |-> 0]
                 newSize == afterHead + w2.bytes
                 limit == IF allowLong THEN Absolute ELSE Typical
             IN /\ allowLong' = FALSE
                /\ IF newSize <= limit
                   THEN /\ size' = newSize /\ names' = w2.tbl /\ spelled' = spelled \cup w1.sp \cup w2.sp
                        /\ items' = Append(items, e) /\ sec' = sec
                   ELSE \* rollback: the octets go, and the table entries that point into them
                        /\ size' = size /\ spelled' = spelled /\ items' = items
                        /\ names' = {p \in w2.tbl : IF RollbackGE THEN p[2] < size ELSE p[2] <= size}
                        /\ sec' = sec + 1
  /\ UNCHANGED <<inp, off, pkts, phase, bad>>

(* all four sections have been tried: the datagram is finished *)
Finish ==
  /\ phase = "write" /\ sec = 5 /\ bad = ""
  /\ IF items = <<>> /\ MoreToAdd
     THEN /\ bad' = "NoProgress" /\ UNCHANGED <<pkts, off, size, names, spelled, items, allowLong, sec, phase>>
     ELSE /\ pkts' = Append(pkts, [size |-> size, items |-> items])
          /\ off' = [s \in {"qd", "an", "ns", "ar"} |-> off[s] + Written(s)]
          /\ LET more == \E k \in 1..4 : off[Secs[k]] + Written(Secs[k]) < Len(Section(Secs[k])) IN
             IF more THEN /\ size' = Header /\ names' = {} /\ spelled' = {} /\ items' = <<>> /\ allowLong' = TRUE /\ sec' = 1
                          /\ UNCHANGED phase
             ELSE /\ phase' = "done" /\ UNCHANGED <<size, names, spelled, items, allowLong, sec>>
          /\ UNCHANGED bad
  /\ UNCHANGED inp

Next == Write \/ Finish
Spec == Init /\ [][Next]_vars

(* ---------------------------------------------------------------- contract *)
NoBad == bad = ""
TableSound == \A p \in names : <<p[2], p[1]>> \in spelled
Sizes == \A k \in 1..Len(pkts) : pkts[k].size <= Typical \/ (Len(pkts[k].items) = 1 /\ pkts[k].size <= Absolute)
RECURSIVE Cat(_, _, _)
Cat(ps, s, k) == IF k > Len(ps) THEN <<>> ELSE SelectSeq(ps[k].items, LAMBDA e : e.sec = s) \o Cat(ps, s, k + 1)
Partition == phase = "done" => \A k \in 1..4 : Cat(pkts, Secs[k], 1) = Section(Secs[k])
EmitBehaviour == IF phase = "done" THEN PrintT(<<"BEHAVIOUR", inp, [k \in 1..Len(pkts) |-> <<pkts[k].size, Len(pkts[k].items)>>]>>) ELSE TRUE
=============================================================================
