--------------------------- MODULE HistoryContract ---------------------------
(* Duplicate question suppression (RFC 6762 7.3) as the statement of C13 has it: a QM question is not sent if it was asked or heard
   within the previous 999 ms with a known-answer list that contained nothing the asker does not know itself.  last[q] is the most
   recent sighting [t, ka] of question q (a question is its name in lower case, type and class), NoSight when there is none.     *)
EXTENDS Integers
NoSight == [t |-> -100000, ka |-> {}]
HSuppresses(last, q, now, ka) == last[q] # NoSight /\ now - last[q].t <= 999 /\ last[q].ka \subseteq ka
HAfterAdd(last, q, now, ka) == [last EXCEPT ![q] = [t |-> now, ka |-> ka]]
=============================================================================
