------------------------------- MODULE Threads -------------------------------
(* Design-level model of a "thread-safe" accessor of the record cache (zeroconf/_cache.py: get_all_by_details, entries_with_name,
   entries_with_server, get_by_details ...) read by an application thread while the event-loop thread changes the same bucket
   (async_add_records / async_remove_records / async_expire), and its contract: linearizability.

   Code -> model:
     the per-name dict of records                      S        (set of identities)
     records = self.cache.get(key)                     reader step "lookup"   (holds a reference to the live dict)
     list(records)                                     reader step "copy"     (Snapshot = TRUE: one C call, atomic under the GIL)
     [e for e in ... if type_ == e.type ...]           reader steps "visit"   (one per element: the interpreter may switch threads
                                                                               between any two of them)
     iterating the live dict instead of the copy       Snapshot = FALSE       (what async_all_by_details does, fine on the loop
                                                                               thread): a dict that changed size during iteration
                                                                               raises RuntimeError at the next step; one that was
                                                                               changed and restored yields an arbitrary rest
     store[record] = record / store.pop(record)        writer step            (at most MaxWrites of them, at any moment)

   Contract (what props/threadsfam.py + Trace_Threads.tla judge on the real threads, there for one write):
     NoError        the reader never raises
     Linearizable   what it returns is Sel intersected with the bucket as it was at some moment between its invocation and its return
   The configuration with Snapshot = FALSE must violate both (MC_Threads_live_defect.cfg): the seeded changes C05-n and C18-m.  *)
EXTENDS Integers, FiniteSets, Sequences, TLC

CONSTANTS Ids, Init0, Sel, Snapshot, MaxWrites

VARIABLES S, rpc, view, todo, acc, size0, moments, writes
vars == <<S, rpc, view, todo, acc, size0, moments, writes>>

Init == /\ S = Init0 /\ rpc = "idle" /\ view = {} /\ todo = {} /\ acc = {} /\ size0 = 0 /\ moments = {} /\ writes = 0

(* the loop thread *)
Write == /\ writes < MaxWrites
         /\ \E x \in Ids : S' = IF x \in S THEN S \ {x} ELSE S \cup {x}
         /\ writes' = writes + 1
         /\ moments' = IF rpc \in {"idle", "done", "err"} THEN moments ELSE moments \cup {S'}
         /\ UNCHANGED <<rpc, view, todo, acc, size0>>

(* the application thread *)
Invoke == /\ rpc = "idle" /\ rpc' = "looked" /\ moments' = {S} /\ size0' = Cardinality(S)
          /\ UNCHANGED <<S, view, todo, acc, writes>>
Copy   == /\ rpc = "looked" /\ Snapshot
          /\ view' = S /\ todo' = S /\ rpc' = "visiting"
          /\ UNCHANGED <<S, acc, size0, moments, writes>>
StartLive == /\ rpc = "looked" /\ ~Snapshot
             /\ todo' = S /\ rpc' = "visiting"
             /\ UNCHANGED <<S, view, acc, size0, moments, writes>>
Visit == /\ rpc = "visiting"
         /\ IF Snapshot
            THEN IF todo = {} THEN rpc' = "done" /\ UNCHANGED <<todo, acc>>
                 ELSE \E x \in todo : todo' = todo \ {x} /\ acc' = (IF x \in Sel THEN acc \cup {x} ELSE acc) /\ rpc' = rpc
            ELSE \* the iterator of the live dict: size check first, then the next entry that is still there
                 IF Cardinality(S) # size0 THEN rpc' = "err" /\ UNCHANGED <<todo, acc>>
                 ELSE LET rest == todo \cap S IN
                      IF rest = {} THEN rpc' = "done" /\ UNCHANGED <<todo, acc>>
                      ELSE \E x \in rest : todo' = todo \ {x} /\ acc' = (IF x \in Sel THEN acc \cup {x} ELSE acc) /\ rpc' = rpc
         /\ UNCHANGED <<S, view, size0, moments, writes>>

Next == Write \/ Invoke \/ Copy \/ StartLive \/ Visit
Spec == Init /\ [][Next]_vars

NoError == rpc # "err"
Linearizable == rpc = "done" => \E m \in moments : acc = m \cap Sel
=============================================================================
