------------------------------ MODULE MC_Route ------------------------------
EXTENDS Route
ASSUME TLCSet(60, 0)
EmitSampled == EmitEvery(23)
EmitSampled2 == EmitEvery(47)
=============================================================================
