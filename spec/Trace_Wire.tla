------------------------------ MODULE Trace_Wire ------------------------------
(* Code -> spec binding for the message builder: C01 (round trip) and C14 (size limits and section
   accounting).  Each case is one message handed to DNSOutgoing and the datagrams it produced, in the
   abstract form extracted by the independent RFC 1035 parser (vf/wire.py) and by the library's own
   decoder.  Entries (questions / records) are interned by the harness from the *input description*:
   an id stands for (name spelling, type, class incl. cache-flush/QU bit as it must appear on the wire,
   TTL or remaining TTL, rdata); 0 = something nobody put in.

   The contract says nothing about where compression pointers or packet boundaries fall.          *)
EXTENDS Integers, Sequences, FiniteSets, Json, IOUtils, TLC, TLCExt

ASSUME TLCSet(42, JsonDeserialize(IOEnv.TRACE_FILE))
D == TLCGet(42)
Cases == D.cases
N == Len(Cases)
MaxAbs == 8966
MaxTypical == 1460

ClausesOf ==
  [C01 |-> {"C01_RejectOnlyTooLong", "C01_MustRejectTooLong", "C01_Decodable", "C01_Pointers", "C01_RoundTrip", "C01_LibraryAgrees",
            "C01_NoOtherError", "C01_InOrderOnce"},
   C14 |-> {"C14_Abs", "C14_Typical", "C14_Counts", "C14_Partition", "C14_TC", "C14_Header", "C14_WellFormed"}]
Own(clause) == D.own = "ALL" \/ clause \in ClausesOf[D.own]
Bad(cond, clause) == cond /\ Own(clause)

RECURSIVE Cat(_, _, _)
Cat(pk, sec, k) == IF k > Len(pk) THEN <<>> ELSE pk[k][sec] \o Cat(pk, sec, k + 1)
NEntries(p) == Len(p.qs) + Len(p.an) + Len(p.ns) + Len(p.ar)

PktClause(c, p, last) ==
  IF ~p.ok /\ Bad(p.present >= 0 /\ p.hdrTotal # p.present, "C14_Counts") THEN "C14_Counts"   \* decodable once the counts are corrected
  \* (C14: "a well-formed sequence rather than a corrupt or oversized packet")
  ELSE IF ~p.ok THEN (IF Own("C01_Decodable") THEN "C01_Decodable" ELSE IF Own("C14_WellFormed") THEN "C14_WellFormed" ELSE "")
  ELSE IF Bad(p.len > MaxAbs, "C14_Abs") THEN "C14_Abs"
  ELSE IF Bad(p.len > MaxTypical /\ NEntries(p) # 1, "C14_Typical") THEN "C14_Typical"
  ELSE IF Bad(p.counts # <<Len(p.qs), Len(p.an), Len(p.ns), Len(p.ar)>>, "C14_Counts") THEN "C14_Counts"
  ELSE IF Bad(p.tc # (c.query /\ ~last), "C14_TC") THEN "C14_TC"
  ELSE IF Bad(p.id # (IF c.multicast THEN 0 ELSE c.mid), "C14_Header") THEN "C14_Header"
  ELSE IF Bad(p.hopsBad # 0, "C01_Pointers") THEN "C01_Pointers"
  ELSE IF Bad(\E x \in {p.qs[k] : k \in 1..Len(p.qs)} \cup {p.an[k] : k \in 1..Len(p.an)} \cup {p.ns[k] : k \in 1..Len(p.ns)}
                       \cup {p.ar[k] : k \in 1..Len(p.ar)} : x = 0, "C01_RoundTrip") THEN "C01_RoundTrip"
  ELSE IF Bad(p.lib.exc # "" \/ ~p.lib.valid \/ p.lib.qs # p.qs \/ p.lib.rr # p.an \o p.ns \o p.ar, "C01_LibraryAgrees") THEN "C01_LibraryAgrees"
  ELSE ""

CaseClause(c) ==
  IF c.out = "NamePartTooLong" THEN (IF Bad(~c.longLabel, "C01_RejectOnlyTooLong") THEN "C01_RejectOnlyTooLong" ELSE "")
  ELSE IF Bad(c.out = "exc:DoesNotTerminate", "C14_Partition") THEN "C14_Partition"     \* no well-formed sequence at all
  ELSE IF Bad(c.out # "ok", "C01_NoOtherError") THEN "C01_NoOtherError"
  ELSE IF c.out # "ok" THEN ""
  ELSE IF Bad(c.longLabel, "C01_MustRejectTooLong") THEN "C01_MustRejectTooLong"
  ELSE LET bad == {k \in 1..Len(c.pkts) : PktClause(c, c.pkts[k], k = Len(c.pkts)) # ""} IN
       IF bad # {} THEN PktClause(c, c.pkts[CHOOSE k \in bad : \A j \in bad : k <= j], (CHOOSE k \in bad : \A j \in bad : k <= j) = Len(c.pkts))
       ELSE IF \E k \in 1..Len(c.pkts) : ~c.pkts[k].ok THEN ""
       \* C01: the entries of each section come back in the order given, none lost, duplicated or invented, over all datagrams
       ELSE IF Bad(Cat(c.pkts, "qs", 1) # c.inp.qs \/ Cat(c.pkts, "an", 1) # c.inp.an \/ Cat(c.pkts, "ns", 1) # c.inp.ns
                   \/ Cat(c.pkts, "ar", 1) # c.inp.ar, "C01_InOrderOnce") THEN "C01_InOrderOnce"
       ELSE IF Bad(Cat(c.pkts, "qs", 1) # c.inp.qs \/ Cat(c.pkts, "an", 1) # c.inp.an \/ Cat(c.pkts, "ns", 1) # c.inp.ns
                   \/ Cat(c.pkts, "ar", 1) # c.inp.ar, "C14_Partition") THEN "C14_Partition"
       ELSE IF Bad(Len(c.pkts) = 0, "C14_Partition") THEN "C14_Partition"
       ELSE ""

VARIABLE x
ASSUME TLCSet(50, 0)
Judge == \A i \in 1..N : LET cl == CaseClause(Cases[i]) IN
                         /\ TLCSet(50, TLCGet(50) + 1)
                         /\ IF cl = "" THEN TRUE ELSE PrintT(<<"VERDICT", Cases[i].id, FALSE, cl, 0>>)
Init == x = 0
Next == x = 0 /\ Judge /\ PrintT(<<"INFO", "cases", TLCGet(50)>>) /\ x' = 1
Spec == Init /\ [][Next]_x
=============================================================================
