SPECIFICATION Spec
CONSTANTS
  Ports = {80, 8080}
  OTtls = {4500, 120}
  HTtls = {120, 60}
  Texts = {"a", "b"}
  AddrSets = {"x", "y"}
  MaxOps = 4
  SyncKeeps = ""
  AddrsSetterKeepsExtra = FALSE
CONSTRAINT EmitBehaviour
INVARIANT NoBad
CHECK_DEADLOCK FALSE
