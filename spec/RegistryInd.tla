---------------------------- MODULE RegistryInd ----------------------------
(* Apalache wrapper: the registry model's step relation on typed variables, for an inductive-invariant check (unbounded
   histories over the bounded universe of names / types / hosts). *)
EXTENDS Integers, Sequences, FiniteSets, Apalache

Names == {"n1", "n2", "n3"}
Types == {"t1", "t2"}
Hosts == {"h1", "h2"}

VARIABLES
  \* @type: Str -> {name: Str, type: Str, host: Str};
  svc,
  \* @type: Str -> Seq(Str);
  types,
  \* @type: Set(Str);
  tb,
  \* @type: Str -> Seq(Str);
  servers,
  \* @type: Set(Str);
  sb,
  \* @type: Bool;
  has,
  \* @type: Str -> {name: Str, type: Str, host: Str};
  reg

\* @type: {name: Str, type: Str, host: Str};
NoneD == [name |-> "", type |-> "", host |-> ""]
Descs == [name : Names, type : Types, host : Hosts]

\* @type: (Seq(Str), Str) => Seq(Str);
Without(s, x) == SelectSeq(s, LAMBDA y : y # x)
\* @type: Seq(Str) => Set(Str);
Range(s) == {s[i] : i \in DOMAIN s}

\* @type: ({name: Str, type: Str, host: Str}) => (Str -> {name: Str, type: Str, host: Str});
RemovedSvc(d) == [svc EXCEPT ![d.name] = NoneD]

\* @type: ({name: Str, type: Str, host: Str}) => Bool;
Add(d) ==
  IF svc[d.name] # NoneD
  THEN UNCHANGED <<svc, types, tb, servers, sb, has, reg>>
  ELSE /\ svc' = [svc EXCEPT ![d.name] = d]
       /\ types' = [types EXCEPT ![d.type] = Append(@, d.name)] /\ tb' = tb \cup {d.type}
       /\ servers' = [servers EXCEPT ![d.host] = Append(@, d.name)] /\ sb' = sb \cup {d.host}
       /\ has' = TRUE
       /\ reg' = [reg EXCEPT ![d.name] = d]

\* @type: ({name: Str, type: Str, host: Str}) => Bool;
Remove(d) ==
  IF svc[d.name] = NoneD
  THEN /\ UNCHANGED <<svc, types, tb, servers, sb>> /\ has' = (\E n \in Names : svc[n] # NoneD) /\ reg' = [reg EXCEPT ![d.name] = NoneD]
  ELSE LET old == svc[d.name]
           ty2 == [types EXCEPT ![old.type] = Without(@, d.name)]
           sv2 == [servers EXCEPT ![old.host] = Without(@, d.name)]
       IN /\ svc' = RemovedSvc(d)
          /\ types' = ty2 /\ tb' = IF ty2[old.type] = <<>> THEN tb \ {old.type} ELSE tb
          /\ servers' = sv2 /\ sb' = IF sv2[old.host] = <<>> THEN sb \ {old.host} ELSE sb
          /\ has' = (\E n \in Names : RemovedSvc(d)[n] # NoneD)
          /\ reg' = [reg EXCEPT ![d.name] = NoneD]

\* @type: ({name: Str, type: Str, host: Str}) => Bool;
Update(d) ==
  LET old == svc[d.name]
      ty1 == IF old = NoneD THEN types ELSE [types EXCEPT ![old.type] = Without(@, d.name)]
      tb1 == IF old = NoneD THEN tb ELSE (IF ty1[old.type] = <<>> THEN tb \ {old.type} ELSE tb)
      sv1 == IF old = NoneD THEN servers ELSE [servers EXCEPT ![old.host] = Without(@, d.name)]
      sb1 == IF old = NoneD THEN sb ELSE (IF sv1[old.host] = <<>> THEN sb \ {old.host} ELSE sb)
  IN /\ svc' = [svc EXCEPT ![d.name] = d]
     /\ types' = [ty1 EXCEPT ![d.type] = Append(@, d.name)] /\ tb' = tb1 \cup {d.type}
     /\ servers' = [sv1 EXCEPT ![d.host] = Append(@, d.name)] /\ sb' = sb1 \cup {d.host}
     /\ has' = TRUE
     /\ reg' = [reg EXCEPT ![d.name] = d]

Next == \E d \in Descs : Add(d) \/ Remove(d) \/ Update(d)

\* negative control: the index buckets are created before the duplicate check (seeded change C03-i); IndInv is not inductive for it
\* @type: ({name: Str, type: Str, host: Str}) => Bool;
AddDefect(d) ==
  IF svc[d.name] # NoneD
  THEN /\ tb' = tb \cup {d.type} /\ sb' = sb \cup {d.host} /\ UNCHANGED <<svc, types, servers, has, reg>>
  ELSE Add(d)
NextDefect == \E d \in Descs : AddDefect(d) \/ Remove(d) \/ Update(d)

Init == /\ svc = [n \in Names |-> NoneD] /\ types = [t \in Types |-> <<>>] /\ tb = {} /\ servers = [h \in Hosts |-> <<>>] /\ sb = {}
        /\ has = FALSE /\ reg = [n \in Names |-> NoneD]

Registered == {reg[n] : n \in {m \in Names : reg[m] # NoneD}}
GetByType(t) == IF t \in tb THEN {svc[n] : n \in Range(types[t])} ELSE {}
GetByServer(h) == IF h \in sb THEN {svc[n] : n \in Range(servers[h])} ELSE {}
Contract ==
  /\ \A n \in Names : svc[n] = reg[n]
  /\ \A t \in Types : GetByType(t) = {d \in Registered : d.type = t}
  /\ \A h \in Hosts : GetByServer(h) = {d \in Registered : d.host = h}
  /\ tb = {d.type : d \in Registered}
  /\ sb = {d.host : d \in Registered}
  /\ has = (Registered # {})
  /\ \A t \in Types : Len(types[t]) = Cardinality(Range(types[t]))
  /\ \A h \in Hosts : Len(servers[h]) = Cardinality(Range(servers[h]))

\* the strengthening that makes the contract inductive
Shape ==
  /\ \A n \in Names : svc[n] = NoneD \/ (svc[n] \in Descs /\ svc[n].name = n)
  /\ \A t \in Types : Range(types[t]) = {n \in Names : svc[n] # NoneD /\ svc[n].type = t}
  /\ \A h \in Hosts : Range(servers[h]) = {n \in Names : svc[n] # NoneD /\ svc[n].host = h}
  /\ \A t \in Types : Len(types[t]) <= 3
  /\ \A h \in Hosts : Len(servers[h]) <= 3
IndInv == Contract /\ Shape

IndInit ==
  /\ svc \in [Names -> Descs \cup {NoneD}]
  /\ reg \in [Names -> Descs \cup {NoneD}]
  /\ types = Gen(3) /\ servers = Gen(3)
  /\ DOMAIN types = Types /\ DOMAIN servers = Hosts
  /\ tb \in SUBSET Types /\ sb \in SUBSET Hosts
  /\ has \in BOOLEAN
  /\ IndInv
=============================================================================
