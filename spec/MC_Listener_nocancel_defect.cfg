SPECIFICATION Spec
CONSTANTS
  Addrs = {a1, a2}
  Dgrams = {"qm", "t1", "t2"}
  TcJitters = {400, 500}
  EnvTimes = {2000, 2300, 2450, 2800}
  Horizon = 5000
  CancelOnDefer = FALSE
  DedupTrain = TRUE
  AllowRepeat = FALSE
VIEW view
INVARIANT NoBad
CHECK_DEADLOCK FALSE
