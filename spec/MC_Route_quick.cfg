SPECIFICATION Spec
CONSTANTS
  MaxQ = 1
  TwoPackets = TRUE
  KnownUniverse = {"ptr", "srv", "a"}
  Deviations = {"a"}
  QuarterRule = TRUE
  LastSecondRule = TRUE
INVARIANT Asked
INVARIANT Routes
INVARIANT AddsOwn
CHECK_DEADLOCK FALSE
