CONSTANTS
  Ids = {1, 2, 3}
  RRTable <- MC_RR
  PtrIds = {1, 2}
  TTLs = {0, 1, 120}
  Steps = {1000, 1001, 10000}
  MaxEvents = 2
  MaxTicks = 3
  MaxItems = 2
  PurgeNotifies = FALSE
  Fixed = TRUE
SPECIFICATION Spec
INVARIANT Refines
INVARIANT NoEarlyPurge
INVARIANT LiveMatches
INVARIANT Alternates
VIEW view
CONSTRAINT Bound
CHECK_DEADLOCK FALSE
