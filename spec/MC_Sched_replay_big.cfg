SPECIFICATION Spec
CONSTANTS
  Aliases = {a1, a2}
  TTLs = {1200, 4500}
  Delay = 10000
  Start = 14020
  SteadyFrom = 14120
  EnvTimes = {20000, 60000, 915000, 925000, 3390000}
  Horizon = 6000000
  Rearm = TRUE
  PurgeEvery = 10000
CONSTRAINT EmitBehaviour
INVARIANT NoBad
INVARIANT RefreshDue
INVARIANT TimerAlive
CHECK_DEADLOCK FALSE
