SPECIFICATION Spec
CONSTANTS
  EnvTimes = {400, 902, 998, 1001, 1052, 1103, 1174, 1177, 1209, 1258, 1297, 1348, 1353, 1381, 1423, 1476, 1530, 1601, 1706}
  MaxK = 3
  Rename = TRUE
  Horizon = 4000
  RecheckAfterWait = TRUE
INVARIANT NoBad
INVARIANT ProbeSchedule
INVARIANT ConflictDetected
CHECK_DEADLOCK FALSE
