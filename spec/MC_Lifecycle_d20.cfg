SPECIFICATION Spec
CONSTANTS
  Svcs = {s1, s2}
  EnvTimes = {1000, 1480, 1603, 1790}
  Horizon = 6000
  Guarded = FALSE
  AllowProbe = TRUE
  AllowBusy = FALSE
VIEW view
INVARIANT WithdrawnAtClose
CHECK_DEADLOCK FALSE
