SPECIFICATION Spec
CONSTANTS
  Addrs = {a1, a2}
  Dgrams = {"qm", "qu", "xx", "rs"}
  TcJitters = {400, 500}
  EnvTimes = {2000, 2433, 3519, 4019}
  Horizon = 6000
  CancelOnDefer = TRUE
  DedupTrain = TRUE
  AllowRepeat = FALSE
CONSTRAINT EmitBehaviour
INVARIANT NoBad
INVARIANT NoOverdue
CHECK_DEADLOCK FALSE
