SPECIFICATION Spec
CONSTANTS
  Names <- MCNames
  RNames <- MCRNames
  LabelBytes <- MCLabelBytes
  Fixed <- MCFixed
  FixedWithName <- MCFixed
  MaxQ = 1
  MaxAn = 3
  MaxNs = 1
  MaxAr = 2
  Typical = 70
  Absolute = 110
  RollbackGE = FALSE
  OffsetInBytes = TRUE
INVARIANT NoBad
INVARIANT TableSound
INVARIANT Sizes
INVARIANT Partition
CHECK_DEADLOCK FALSE
