SPECIFICATION Spec
CONSTRAINT Progress
POSTCONDITION Verdicts
CHECK_DEADLOCK FALSE
