---------------------------- MODULE Trace_Threads ----------------------------
(* Contract for the operations the library documents as usable from other threads than the event loop's (DNSCache.get,
   get_by_details, get_all_by_details, entries_with_name, entries_with_server; ServiceInfo.load_from_cache, .properties; two
   DNSIncoming decoders in two threads), judged on histories recorded from real threads (props/threadsfam.py, vf/preempt.py).

   A history is one schedule: operation A was invoked, executed k bytecodes inside the library, was pre-empted; operation B ran
   to completion on another thread; A resumed and returned.  The abstract state is a set of identities S (records in the cache,
   keys of a TXT dictionary, records of a datagram); B is "add x", "rem x" or a reader ("none"); A is a reader that reports the
   identities it saw among `sel`.  The contract is linearizability: there is an order of the two operations -- A takes effect
   either entirely before or entirely after B -- that explains what A returned; B, which ran alone, sees the state it leaves.
   An exception in either thread is explained by no order.

     Step(S, op, x)        the sequential meaning of B
     Lin(h)                the set of results some order of A and B allows
     mode "all"            A reports every identity of `sel` in the state at its linearization point
     mode "one"            A reports one of them (any), and none only if there is none                                        *)
EXTENDS Sequences, FiniteSets, Integers, Json, IOUtils, TLC, TLCExt

ASSUME TLCSet(42, JsonDeserialize(IOEnv.TRACE_FILE))
D == TLCGet(42)
H == D.hs
N == Len(H)
ClauseOf == [C05 |-> "C05_ThreadSafeLookup", C18 |-> "C18_ThreadSafeLoad", C19 |-> "C19_PropertiesAtomic", C02 |-> "C02_DecodersIndependent"]

ToSet(s) == {s[i] : i \in 1..Len(s)}
Step(S, op, x) == IF op = "add" THEN S \cup {x} ELSE IF op = "rem" THEN S \ {x} ELSE S

\* the two orders: A before B sees S, A after B sees Step(S)
Lin(h) == LET S == ToSet(h.S) IN {S \cap ToSet(h.sel), Step(S, h.op, h.x) \cap ToSet(h.sel)}

Explained(h) ==
  LET got == ToSet(h.ra.val) IN
  /\ h.ra.exc = ""
  /\ IF h.mode = "all" THEN got \in Lin(h)
     ELSE /\ Cardinality(got) <= 1
          /\ \E v \in Lin(h) : IF v = {} THEN got = {} ELSE got # {} /\ got \subseteq v

BExplained(h) ==
  /\ h.rb.exc = ""
  /\ Len(h.selb) > 0 => ToSet(h.rb.val) = Step(ToSet(h.S), h.op, h.x) \cap ToSet(h.selb)

Check(i) ==
  LET h == H[i] IN
  /\ IF Explained(h) THEN TRUE ELSE PrintT(<<"VERDICT", i, FALSE, ClauseOf[D.own], "A">>)
  /\ IF BExplained(h) THEN TRUE ELSE PrintT(<<"VERDICT", i, FALSE, ClauseOf[D.own], "B">>)

VARIABLE x
Init == x = 0
Next == x' = x
Spec == Init /\ [][Next]_x
Post == /\ \A i \in 1..N : Check(i)
        /\ PrintT(<<"INFO", "histories", N>>)
=============================================================================
