SPECIFICATION Spec
CONSTANTS
  Addrs = {a1, a2}
  Dgrams = {"qm", "qu", "t1", "t2", "tq", "rs", "xx", "qm2"}
  TcJitters = {400, 500}
  EnvTimes = {2001, 2032, 2103, 2154, 2305, 2457, 2526, 2958, 3029, 3111, 3512, 4033, 4054, 4996, 5017}
  Horizon = 7000
  CancelOnDefer = TRUE
  DedupTrain = TRUE
  AllowRepeat = TRUE

INVARIANT NoBad
INVARIANT NoOverdue
INVARIANT TimersCoverTrains
INVARIANT NoStaleTimers
INVARIANT GuardAgrees
CHECK_DEADLOCK FALSE
