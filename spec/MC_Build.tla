------------------------------ MODULE MC_Build ------------------------------
EXTENDS Build
\* labels: 1 = "local" (5), 2 = "_tcp" (4), 3 = "_http" (5), 4 = "h1" (2), 5 = "Inst" (4)
MCLabelBytes == <<5, 4, 5, 2, 4>>
MCNames == {<<3, 2, 1>>, <<5, 3, 2, 1>>, <<4, 1>>}
MCRNames == {<<5, 3, 2, 1>>}
MCFixed == {6}
\* the real limits (1460 / 8966): TXT records whose size puts a datagram exactly at, and one octet over, a limit
\* (<<4, 1>> is 10 octets on the wire: 12 + 10 + 10 + 1428 = 1460;  12 + 10 + 10 + 8934 = 8966)
RealFixed == {6, 700, 1428, 1429, 8934}
RealFixedQuick == {6, 1428, 1429}
RealFixedWithName == {0, 6}
=============================================================================
