SPECIFICATION Spec
CONSTANTS
  Addrs = {a1, a2}
  Dgrams = {"qm", "qu", "t1", "t2", "tq", "rs", "xx"}
  TcJitters = {400, 500}
  EnvTimes = {2000, 2300, 2450, 2800, 3010}
  Horizon = 5000
  CancelOnDefer = TRUE
  DedupTrain = TRUE
  AllowRepeat = TRUE
VIEW view
INVARIANT NoBad
INVARIANT NoOverdue
INVARIANT TimersCoverTrains
INVARIANT NoStaleTimers
INVARIANT GuardAgrees
CHECK_DEADLOCK FALSE
