---------------------------- MODULE Trace_SyncApi ----------------------------
(* The synchronous API on two real blocking instances (props/syncapi.py): calls from the application thread, each instance with its
   own loop thread, the thread-based ServiceBrowser; real time, so the contract is about order, counts and generous deadlines.
   Events:  api [op] / api_ret [op, ok, ...]   send [who, uc, kind : probe | ann | bye | query | other, port]   cb [kind, mine]
            bstart   settled [what]   exc   end.   A is the responder, B the querier.
   Clauses (own = the property whose check runs this):
     C09_SyncProbesFirst        register_service: three probes before anything about the service is multicast
     C09_SyncAnnounced          ... and it returns only after three announcements
     C18_SyncIff / C18_SyncFields / C18_SyncReturnBy   get_service_info: found iff registered, with the registered port, host and
                                address, back no later than its timeout (+ 1.5 s of thread scheduling)
     C08_SyncUpdateAnnounced    update_service returns after three announcements of the new description
     C08_SyncGoodbyeBeforeReturn / C08_SyncGoodbyeComplete / C08_SyncNoResurrection
                                unregister_service: a goodbye before it returns, three in all, nothing positive afterwards
     C07_SyncAdded / C07_SyncRemoved / C07_SyncAlternate    the thread-based browser on the other instance
     C17_SyncQuiet              nothing is sent by a closed instance, no callback after both are closed (a history marked `solo`
                                has one instance, living on a loop that keeps running after close() was called from another thread)
     C04_SyncAlternate / C04_SyncMatchesCache    every instance's callbacks alternate starting with Added -- also for an instance
                                announced and withdrawn while the listener was busy -- and at every settled point the instances
                                reported present are those with a pointer record in the cache
     C18_SyncIff also covers a lookup of an instance whose cached records have all expired and are not purged yet: not found.   *)
EXTENDS Integers, Sequences, FiniteSets, Json, IOUtils, TLC, TLCExt

ASSUME TLCSet(42, JsonDeserialize(IOEnv.TRACE_FILE))
D == TLCGet(42)
Traces == D.traces
N == Len(Traces)
ClausesOf ==
  [C09 |-> {"C09_SyncProbesFirst", "C09_SyncAnnounced"}, C18 |-> {"C18_SyncIff", "C18_SyncFields", "C18_SyncReturnBy"},
   C08 |-> {"C08_SyncUpdateAnnounced", "C08_SyncGoodbyeBeforeReturn", "C08_SyncGoodbyeComplete", "C08_SyncNoResurrection"},
   C07 |-> {"C07_SyncAdded", "C07_SyncRemoved", "C07_SyncAlternate"}, C17 |-> {"C17_SyncQuiet"},
   C04 |-> {"C04_SyncAlternate", "C04_SyncMatchesCache"}]
Own(c) == D.own = "ALL" \/ c \in {"Trace_Malformed", "C15_NoException"} \/ c \in ClausesOf[D.own]
Bad(cond, c) == cond /\ Own(c)

VARIABLES tid, l, s
vars == <<tid, l, s>>
Fail(st, c) == [st EXCEPT !.err = c]
InitState == [op |-> "", t0 |-> 0, tmo |-> 0, want |-> FALSE, probes |-> 0, anns |-> 0, byes |-> 0, unreg |-> FALSE, posAfter |-> FALSE,
              live |-> FALSE, present |-> {}, everAdded |-> FALSE, browsing |-> FALSE, registered |-> FALSE, closedA |-> FALSE, closedB |-> FALSE, err |-> ""]

OnSend(st, e) ==
  IF Bad((e.who = "A" /\ st.closedA) \/ (e.who = "B" /\ st.closedB), "C17_SyncQuiet") THEN Fail(st, "C17_SyncQuiet")
  ELSE IF e.who # "A" \/ e.uc THEN st
  ELSE IF e.kind = "probe" THEN [st EXCEPT !.probes = @ + 1]
  ELSE IF e.kind = "ann"
       THEN IF Bad(st.op = "reg" /\ st.probes < 3, "C09_SyncProbesFirst") THEN Fail(st, "C09_SyncProbesFirst")
            ELSE IF Bad(st.unreg /\ st.byes >= 3, "C08_SyncNoResurrection") THEN Fail(st, "C08_SyncNoResurrection")
            ELSE [st EXCEPT !.anns = @ + 1]
  ELSE IF e.kind = "bye" THEN [st EXCEPT !.byes = @ + 1]
  ELSE st

OnRet(st, e) ==
  CASE e.op = "reg" -> IF Bad(~e.ok \/ st.anns < 3, "C09_SyncAnnounced") THEN Fail(st, "C09_SyncAnnounced")
                       ELSE [st EXCEPT !.op = "", !.registered = TRUE]
    [] e.op = "upd" -> IF Bad(~e.ok \/ st.anns < 3, "C08_SyncUpdateAnnounced") THEN Fail(st, "C08_SyncUpdateAnnounced") ELSE [st EXCEPT !.op = ""]
    [] e.op = "unreg" -> IF Bad(~e.ok \/ st.byes < 1, "C08_SyncGoodbyeBeforeReturn") THEN Fail(st, "C08_SyncGoodbyeBeforeReturn")
                         ELSE [st EXCEPT !.op = "", !.registered = FALSE]
    [] e.op = "lookup" -> IF Bad(e.ok # st.want, "C18_SyncIff") THEN Fail(st, "C18_SyncIff")
                          ELSE IF Bad(e.ok /\ (e.port # e.want \/ ~e.host \/ ~e.addr), "C18_SyncFields") THEN Fail(st, "C18_SyncFields")
                          ELSE IF Bad(e.t - st.t0 > st.tmo + 1500, "C18_SyncReturnBy") THEN Fail(st, "C18_SyncReturnBy")
                          ELSE [st EXCEPT !.op = ""]
    [] e.op = "close" -> IF e.who = "A" THEN [st EXCEPT !.closedA = TRUE] ELSE [st EXCEPT !.closedB = TRUE]
    [] OTHER -> Fail(st, "Trace_Malformed")

Step(st, e) ==
  CASE e.ev = "start" -> [InitState EXCEPT !.closedB = "solo" \in DOMAIN e]
    [] e.ev = "bstart" -> [st EXCEPT !.browsing = TRUE]
    [] e.ev = "api" -> IF e.op = "lookup" THEN [st EXCEPT !.op = "lookup", !.t0 = e.t, !.tmo = e.timeout, !.want = e.registered]
                       ELSE IF e.op = "unreg" THEN [st EXCEPT !.op = "unreg", !.byes = 0, !.unreg = TRUE]
                       ELSE IF e.op \in {"reg", "upd"} THEN [st EXCEPT !.op = e.op, !.anns = 0, !.probes = IF e.op = "reg" THEN 0 ELSE @]
                       ELSE st
    [] e.ev = "api_ret" -> OnRet(st, e)
    [] e.ev = "send" -> OnSend(st, e)
    [] e.ev = "cb" -> IF Bad(st.closedA /\ st.closedB, "C17_SyncQuiet") THEN Fail(st, "C17_SyncQuiet")
                      ELSE IF e.kind = "add" /\ Bad(e.name \in st.present, "C04_SyncAlternate") THEN Fail(st, "C04_SyncAlternate")
                      ELSE IF e.kind = "rem" /\ Bad(e.name \notin st.present, "C04_SyncAlternate") THEN Fail(st, "C04_SyncAlternate")
                      ELSE IF ~e.mine THEN [st EXCEPT !.present = IF e.kind = "add" THEN @ \cup {e.name} ELSE IF e.kind = "rem" THEN @ \ {e.name} ELSE @]
                      ELSE IF e.kind = "add" THEN (IF Bad(st.live, "C07_SyncAlternate") THEN Fail(st, "C07_SyncAlternate") ELSE [st EXCEPT !.live = TRUE, !.everAdded = TRUE, !.present = @ \cup {e.name}])
                      ELSE IF e.kind = "rem" THEN (IF Bad(~st.live, "C07_SyncAlternate") THEN Fail(st, "C07_SyncAlternate") ELSE [st EXCEPT !.live = FALSE, !.present = @ \ {e.name}])
                      ELSE st
    [] e.ev = "settled" -> IF Bad(st.browsing /\ st.present # {e.ptrs[i] : i \in 1..Len(e.ptrs)}, "C04_SyncMatchesCache") THEN Fail(st, "C04_SyncMatchesCache")
                           ELSE IF e.what = "updated" /\ Bad(st.browsing /\ ~st.live, "C07_SyncAdded") THEN Fail(st, "C07_SyncAdded")
                           ELSE IF e.what = "unregistered" /\ Bad(st.byes < 3, "C08_SyncGoodbyeComplete") THEN Fail(st, "C08_SyncGoodbyeComplete")
                           ELSE IF e.what = "unregistered" /\ Bad(st.browsing /\ st.live, "C07_SyncRemoved") THEN Fail(st, "C07_SyncRemoved")
                           ELSE st
    [] e.ev = "exc" -> Fail(st, "C15_NoException")
    [] e.ev = "end" -> st
    [] OTHER -> Fail(st, "Trace_Malformed")

Events == Traces[tid].events
Init == /\ tid \in 1..N /\ l = 1 /\ s = InitState
Next == /\ s.err = "" /\ l <= Len(Events)
        /\ s' = Step(s, Events[l])
        /\ l' = IF s'.err = "" THEN l + 1 ELSE l
        /\ UNCHANGED tid
Spec == Init /\ [][Next]_vars

ASSUME \A i \in 1..N : TLCSet(1000 + i, <<0, "">>)
Progress ==
  LET cur == TLCGet(1000 + tid)
      score == IF s.err = "" THEN 2 * l ELSE 2 * l + 1
  IN IF score > cur[1] THEN TLCSet(1000 + tid, <<score, s.err>>) ELSE TRUE
Verdicts ==
  \A i \in 1..N :
    LET r == TLCGet(1000 + i)
        n == Len(Traces[i].events)
    IN IF r[1] = 2 * (n + 1) /\ r[2] = "" THEN PrintT(<<"VERDICT", Traces[i].id, TRUE, "", n>>)
       ELSE PrintT(<<"VERDICT", Traces[i].id, FALSE, r[2], r[1] \div 2>>)
=============================================================================
