----------------------------- MODULE InfoContract -----------------------------
(* The records a registered service description stands for (C03: "each record carrying the service's configured TTL ... after a
   service is updated replies reflect only the new state").  f = [port, ottl, httl, text, addrs] are the fields of the description;
   What(kind, f) is what the record(s) of that kind must say.                                                              *)
What(kind, f) ==
  CASE kind = "ptr"  -> [ttl |-> f.ottl, port |-> 0, text |-> "", addrs |-> ""]
    [] kind = "srv"  -> [ttl |-> f.httl, port |-> f.port, text |-> "", addrs |-> ""]
    [] kind = "txt"  -> [ttl |-> f.ottl, port |-> 0, text |-> f.text, addrs |-> ""]
    [] kind = "addr" -> [ttl |-> f.httl, port |-> 0, text |-> "", addrs |-> f.addrs]
    [] OTHER         -> [ttl |-> f.httl, port |-> 0, text |-> "", addrs |-> f.addrs]        \* "extra": addresses + NSEC set
=============================================================================
