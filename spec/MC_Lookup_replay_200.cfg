SPECIFICATION Spec
CONSTANTS
  Timeout = 200
  Jitter = 20
  EnvTimes = {1050, 1199, 1201, 1400}
  InitialCache = {{}, {"srv"}, {"txt"}, {"a"}, {"srv", "txt"}, {"srv", "a"}, {"txt", "a"}, {"srv", "txt", "a"}}
  CheckSpacing = FALSE
  Horizon = 6000
CONSTRAINT EmitBehaviour
INVARIANT NoBad
INVARIANT ReturnBy
INVARIANT SuccessIff
CHECK_DEADLOCK FALSE
