SPECIFICATION Spec
CONSTANTS
  EnvTimes = {500, 1000, 1100, 1175, 1349}
  MaxK = 3
  Rename = FALSE
  Horizon = 4000
  RecheckAfterWait = TRUE
CONSTRAINT EmitBehaviour
INVARIANT NoBad
INVARIANT ProbeSchedule
INVARIANT ConflictDetected
CHECK_DEADLOCK FALSE
