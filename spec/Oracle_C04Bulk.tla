--------------------------- MODULE Oracle_C04Bulk ---------------------------
(* C04 on a large population: N distinct instances of one browsed type announced in datagrams of a few dozen pointer records,
   later withdrawn (props/c04.py, bulk_history).  The harness reports, per phase, the instances for which Added / Removed was
   delivered, for which the pointer was found in the cache from inside add_service, and the pointers the cache holds when
   processing is quiescent -- as sets of instance numbers.  The contract is the one of Trace_Cache.tla, without the per-record
   bookkeeping that bounds that specification to a vocabulary of twenty identities:
     C04_LiveMatchesCache   reported Added and not since Removed = pointers in the cache, at every quiescent point
     C04_SeenFromCallback   a lookup from inside add_service sees the pointer of the triggering datagram
     C04_AlternatesFromAdd  every instance: exactly one Added (phase 1), exactly one Removed after it (phase 2)                 *)
EXTENDS Integers, Sequences, FiniteSets, Json, IOUtils, TLC, TLCExt

ASSUME TLCSet(42, JsonDeserialize(IOEnv.TRACE_FILE))
D == TLCGet(42)
ToSet(s) == {s[i] : i \in 1..Len(s)}
All == 1..D.n
Once(s) == Len(s) = Cardinality(ToSet(s))

Clause ==
  IF ~Once(D.added) \/ ToSet(D.added) # All THEN "C04_AlternatesFromAdd"
  ELSE IF ToSet(D.seen) # ToSet(D.added) THEN "C04_SeenFromCallback"
  ELSE IF ToSet(D.cached1) # ToSet(D.added) THEN "C04_LiveMatchesCache"
  ELSE IF ~Once(D.removed) \/ ~(ToSet(D.removed) \subseteq ToSet(D.added)) \/ ToSet(D.removed) # ToSet(D.withdrawn) THEN "C04_AlternatesFromAdd"
  ELSE IF ToSet(D.cached2) # ToSet(D.added) \ ToSet(D.removed) THEN "C04_LiveMatchesCache"
  ELSE ""

VARIABLE x
Init == x = 0
Next == x' = x
Spec == Init /\ [][Next]_x
Post == /\ IF Clause = "" THEN TRUE ELSE PrintT(<<"VERDICT", 1, FALSE, Clause, 0>>)
        /\ PrintT(<<"INFO", "instances", D.n>>)
=============================================================================
