SPECIFICATION Spec
CONSTANTS
  Svcs = {s1, s2}
  EnvTimes = {1000, 1480, 1603, 1790, 2391}
  Horizon = 6000
  Guarded = TRUE
  AllowProbe = TRUE
  AllowBusy = FALSE
VIEW view
INVARIANT NoBad
INVARIANT WithdrawnAtClose
INVARIANT GoodbyeComplete
CHECK_DEADLOCK FALSE
