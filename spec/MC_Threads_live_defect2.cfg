SPECIFICATION Spec
CONSTANTS
  Ids = {1, 2, 3, 4}
  Init0 = {1, 2, 3}
  Sel = {1, 2, 4}
  Snapshot = FALSE
  MaxWrites = 3
INVARIANT Linearizable
CHECK_DEADLOCK FALSE
