--------------------------- MODULE Trace_Listener ---------------------------
(* Trace validation of the real AsyncListener (zeroconf/_listener.py) against ListenerContract.tla: the harness
   (props/listenermodel.py) delivers datagrams to the listen socket of a real instance and records what the listener hands on
   to the query handler (handle_assembled_query: source and list of packets) and to the record manager
   (async_updates_from_response).  Events, in the order they happened:
        rx   [t, d, a]       datagram d from source a delivered
        call [t, a, pk]      handle_assembled_query(packets pk, source a)
        up   [t, d]          async_updates_from_response(d)
        exc  [t]             an exception left datagram_received or a timer callback
        end  [t]
   D.kinds[d] = [kind, tc, qu].  Clauses: C16_DuplicateEffect, C12_TrainAssembly, C12_HoldWindow, C15_EmptyAssembly,
   C15_NoException, C15_QueryHandedOn, C06_ResponseHandedOn (see Listener.tla).  D.own names the property whose check runs this.                                                               *)
EXTENDS Integers, Sequences, FiniteSets, Json, IOUtils, TLC, TLCExt, ListenerContract

ASSUME TLCSet(42, JsonDeserialize(IOEnv.TRACE_FILE))
D == TLCGet(42)
Traces == D.traces
N == Len(Traces)
AddrSet == {D.addrs[i] : i \in 1..Len(D.addrs)}
K(d) == D.kinds[d]

VARIABLES tid, l, s
vars == <<tid, l, s>>
Fail(st, c) == [st EXCEPT !.err = c]
InitState == [gm |-> CNoMem, train |-> [a \in AddrSet |-> <<>>], tnew |-> [a \in AddrSet |-> 0], tany |-> [a \in AddrSet |-> 0],
              expect |-> <<>>, dup |-> FALSE, last |-> -1, err |-> ""]

Overdue(st, t) == \E a \in AddrSet : st.train[a] # <<>> /\ t > st.tany[a] + 500
\* a plain query (no train involved) that is not handed on at all is the instance no longer answering a well-formed query: C15
HeadClause(st) == IF st.expect[1].k = "call" THEN (IF Len(st.expect[1].pk) = 1 /\ D.own = "C15" THEN "C15_QueryHandedOn" ELSE "C12_TrainAssembly")
                  ELSE "C06_ResponseHandedOn"

Step(st, e) ==
  CASE e.ev = "rx" ->
         IF st.expect # <<>> THEN Fail(st, HeadClause(st))
         ELSE IF Overdue(st, e.t) THEN Fail(st, "C12_HoldWindow")
         ELSE LET r == CRecv(K, st.gm, st.train, e.d, e.a, e.t)
              IN [st EXCEPT !.expect = [i \in 1..Len(r[1]) |-> [k |-> "call", a |-> r[1][i].a, pk |-> r[1][i].pk, d |-> ""]]
                                        \o [i \in 1..Len(r[2]) |-> [k |-> "up", a |-> "", pk |-> <<>>, d |-> r[2][i].d]],
                            !.dup = CDup(K, st.gm, e.d, e.t), !.last = e.t,
                            !.gm = CGuard(K, st.gm, e.d, e.t),
                            !.train = CTrain(K, st.gm, st.train, e.d, e.a, e.t),
                            !.tnew = IF CNewTc(K, st.gm, st.train, e.d, e.a, e.t) THEN [st.tnew EXCEPT ![e.a] = e.t] ELSE st.tnew,
                            !.tany = IF CAnyTc(K, st.gm, e.d, e.t) THEN [st.tany EXCEPT ![e.a] = e.t] ELSE st.tany]
    [] e.ev = "call" ->
         IF st.expect # <<>>
         THEN IF st.expect[1].k = "call" /\ st.expect[1].a = e.a /\ st.expect[1].pk = e.pk /\ e.t = st.last
              THEN [st EXCEPT !.expect = Tail(@)]
              ELSE IF CHasDup(e.pk) THEN Fail(st, "C16_DuplicateEffect") ELSE Fail(st, "C12_TrainAssembly")
         ELSE IF st.dup /\ e.t = st.last THEN Fail(st, "C16_DuplicateEffect")
         ELSE IF e.a \notin AddrSet THEN Fail(st, "C12_TrainAssembly")
         ELSE LET c == CTimerCall(st.train, st.tnew, st.tany, e.a, e.pk, e.t)
              IN IF c # "" THEN Fail(st, c) ELSE [st EXCEPT !.train = [@ EXCEPT ![e.a] = <<>>]]
    [] e.ev = "up" ->
         IF st.expect # <<>>
         THEN IF st.expect[1].k = "up" /\ st.expect[1].d = e.d /\ e.t = st.last
              THEN [st EXCEPT !.expect = Tail(@)] ELSE Fail(st, HeadClause(st))
         ELSE IF st.dup /\ e.t = st.last THEN Fail(st, "C16_DuplicateEffect")
         ELSE Fail(st, "C06_ResponseHandedOn")
    [] e.ev = "exc" -> Fail(st, "C15_NoException")
    [] e.ev = "end" -> IF st.expect # <<>> THEN Fail(st, HeadClause(st))
                       ELSE IF Overdue(st, e.t) THEN Fail(st, "C12_HoldWindow") ELSE st
    [] OTHER -> Fail(st, "Trace_Malformed")

Events == Traces[tid].events
Init == /\ tid \in 1..N /\ l = 1 /\ s = InitState
Next == /\ s.err = "" /\ l <= Len(Events)
        /\ s' = Step(s, Events[l])
        /\ l' = IF s'.err = "" THEN l + 1 ELSE l
        /\ UNCHANGED tid
Spec == Init /\ [][Next]_vars

ASSUME \A i \in 1..N : TLCSet(1000 + i, <<0, "">>)
Progress ==
  LET cur == TLCGet(1000 + tid)
      score == IF s.err = "" THEN 2 * l ELSE 2 * l + 1
  IN IF score > cur[1] THEN TLCSet(1000 + tid, <<score, s.err>>) ELSE TRUE
Verdicts ==
  \A i \in 1..N :
    LET r == TLCGet(1000 + i)
        n == Len(Traces[i].events)
    IN IF r[1] = 2 * (n + 1) /\ r[2] = "" THEN PrintT(<<"VERDICT", Traces[i].id, TRUE, "", n>>)
       ELSE PrintT(<<"VERDICT", Traces[i].id, FALSE, r[2], r[1] \div 2>>)
=============================================================================
