SPECIFICATION Spec
CONSTANTS
  Addrs = {a1, a2}
  Dgrams = {"qm", "t1", "t2", "rs"}
  TcJitters = {400, 500}
  EnvTimes = {2000, 2317, 2433, 3019}
  Horizon = 5000
  CancelOnDefer = TRUE
  DedupTrain = TRUE
  AllowRepeat = FALSE
CONSTRAINT EmitBehaviour
INVARIANT NoBad
INVARIANT NoOverdue
CHECK_DEADLOCK FALSE
