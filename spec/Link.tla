--------------------------------- MODULE Link ---------------------------------
(* Design-level model of end-to-end discovery between one responder R (one service) and one browsing host B on a link that
   may lose one datagram (C07).  Milliseconds; delivery is immediate unless the datagram is the one that is lost.

   What is modelled, as the library does it:
     R  registration with probing: probes at reg, +175, +350, then announcements at reg+350, +225, +450; the service is
        answered for from the first announcement on.  Its own announcements loop back; the first one is the sighting its cache
        keeps (the other two are byte-identical and dropped by the duplicate guard).
        A QU question is answered by unicast when the record was multicast within a quarter of its TTL (always, here), a QM
        question by multicast after the 20 ms jitter, or one second later when R's cache saw the record less than a second ago;
        a question that lists the pointer as known answer is not answered.
        unregister: goodbyes at +0 / +125 / +250, queued answers withdrawn.
     B  the host joins the link (empty cache) and starts browsing at b0: queries at b0+20 (QU), +1000, +4000, +9000 later (QM)
        with the pointer as known answer once it has it; Added when the pointer is learned, Removed on goodbye.
     link: every datagram reaches the other host unless it is the lost one (LossBudget datagrams in total may be lost).

   Contract (C07): Added within Converge ms of max(first announcement, b0); after an unregistration Removed within Settle ms;
   Added / Removed alternate.                                                                                             *)
EXTENDS Integers, Sequences, FiniteSets, TLC

CONSTANTS RegAt, BrowseTimes, UnregTimes, LossBudget, Converge, Settle, Horizon, Goodbyes

VARIABLES now, phase, pend, lastSight, rLast, qAns, bUp, bHas, bAdded, cbs, lost, b0, unregAt, dropped, bad
vars == <<now, phase, pend, lastSight, rLast, qAns, bUp, bHas, bAdded, cbs, lost, b0, unregAt, dropped, bad>>
view == <<now, phase, pend, lastSight, rLast, qAns, bUp, bHas, bAdded, lost, b0, unregAt, bad>>

(* pend: set of timed events still to happen: [k, t] with k in
     "probe" "ann" (R)   "bye" (R)   "ans" (R: queued multicast answer)   "join" (B)   "q1".."q4" (B start-up queries)   "unreg" *)
Ev(k, t) == [k |-> k, t |-> t]

Init ==
  /\ now = 0 /\ phase = "probing" /\ lastSight = -100000 /\ qAns = -1
  /\ rLast = [k |-> "none", t |-> -100000]                     \* R's duplicate guard: kind and instant of the last datagram it processed
  /\ bUp = FALSE /\ bHas = FALSE /\ bAdded = FALSE /\ cbs = <<>> /\ lost = 0 /\ dropped = <<>> /\ bad = ""
  /\ b0 \in BrowseTimes /\ unregAt \in UnregTimes \cup {-1}
  /\ pend = {Ev("ann", RegAt + 350), Ev("ann", RegAt + 575), Ev("ann", RegAt + 800), Ev("join", b0)}
            \cup (IF unregAt >= 0 THEN {Ev("unreg", unregAt)} ELSE {})

Due == {e \in pend : e.t = now}

\* B receives a datagram carrying the pointer with a positive TTL / a goodbye
Learn(got) == /\ bHas' = (IF got THEN TRUE ELSE bHas)
              /\ bAdded' = (IF got /\ bUp /\ ~bAdded THEN TRUE ELSE bAdded)
              /\ cbs' = IF got /\ bUp /\ ~bAdded THEN Append(cbs, [k |-> "add", t |-> now]) ELSE cbs
Forget(got) == /\ bHas' = (IF got THEN FALSE ELSE bHas)
               /\ bAdded' = (IF got /\ bAdded THEN FALSE ELSE bAdded)
               /\ cbs' = IF got /\ bAdded THEN Append(cbs, [k |-> "rem", t |-> now]) ELSE cbs

\* one datagram on the link: lose \in {FALSE, TRUE} is the environment's choice while the budget lasts
MayLose(lose) == ~lose \/ lost < LossBudget
Count(lose, what) == /\ lost' = IF lose THEN lost + 1 ELSE lost
                     /\ dropped' = IF lose THEN Append(dropped, [k |-> what, t |-> now]) ELSE dropped

Announce(lose) ==
  /\ \E e \in Due : e.k = "ann" /\ MayLose(lose) /\ bad = ""
  /\ pend' = pend \ {Ev("ann", now)}
  /\ phase' = "registered"
  /\ LET same == rLast.k = "ann" /\ now - 1000 < rLast.t IN        \* duplicate guard on the loopback
     /\ lastSight' = IF same THEN lastSight ELSE now
     /\ rLast' = IF same THEN rLast ELSE [k |-> "ann", t |-> now]
  /\ Count(lose, "r") /\ Learn(bUp /\ ~lose)
  /\ UNCHANGED <<now, qAns, bUp, b0, unregAt, bad>>

Join ==
  /\ Ev("join", now) \in pend /\ bad = ""
  /\ bUp' = TRUE
  /\ pend' = (pend \ {Ev("join", now)}) \cup {Ev("q1", now + 20), Ev("q2", now + 1020), Ev("q3", now + 5020), Ev("q4", now + 14020)}
  /\ UNCHANGED <<now, phase, lastSight, rLast, qAns, bHas, bAdded, cbs, lost, b0, unregAt, dropped, bad>>

\* a start-up query of B; lose = the query is lost; loseReply = the unicast reply to the first (QU) query is lost
Query(k, lose, loseReply) ==
  /\ Ev(k, now) \in pend /\ bad = "" /\ MayLose(lose)
  /\ pend' = (pend \ {Ev(k, now)}) \cup
       (IF ~lose /\ phase = "registered" /\ k # "q1" /\ ~bHas /\ qAns < 0
        THEN {Ev("ans", IF now - lastSight < 1000 THEN now + 1020 ELSE now + 20)} ELSE {})
  /\ qAns' = IF ~lose /\ phase = "registered" /\ k # "q1" /\ ~bHas /\ qAns < 0
             THEN (IF now - lastSight < 1000 THEN now + 1020 ELSE now + 20) ELSE qAns
  /\ rLast' = IF lose THEN rLast ELSE [k |-> "q", t |-> now]
  /\ IF k = "q1" /\ ~lose /\ phase = "registered" /\ ~bHas
     THEN \* unicast reply at once
          /\ (loseReply => lost < LossBudget)
          /\ Count(loseReply, "u") /\ Learn(~loseReply)
     ELSE /\ ~loseReply /\ Count(lose, "q") /\ UNCHANGED <<bHas, bAdded, cbs>>
  /\ UNCHANGED <<now, phase, lastSight, bUp, b0, unregAt, bad>>

Answer(lose) ==
  /\ Ev("ans", now) \in pend /\ bad = "" /\ MayLose(lose)
  /\ pend' = pend \ {Ev("ans", now)}
  /\ qAns' = -1
  /\ lastSight' = now /\ rLast' = [k |-> "ans", t |-> now]
  /\ Count(lose, "r") /\ Learn(bUp /\ ~lose)
  /\ UNCHANGED <<now, phase, bUp, b0, unregAt, bad>>

Unregister(lose) ==
  /\ Ev("unreg", now) \in pend /\ bad = "" /\ MayLose(lose) /\ phase = "registered"
  /\ ~\E e \in pend : e.k = "ann"                                   \* not while its announcements still run (C08 domain)
  /\ phase' = "gone"
  /\ pend' = ((pend \ {Ev("unreg", now)}) \ {e \in pend : e.k = "ans"})
             \cup {Ev("bye", now + 125 * j) : j \in 1..(Goodbyes - 1)}
  /\ qAns' = -1
  /\ Count(lose, "g") /\ Forget(bUp /\ ~lose)
  /\ rLast' = [k |-> "bye", t |-> now]
  /\ UNCHANGED <<now, lastSight, bUp, b0, unregAt, bad>>

\* an unregistration scheduled while the announcements still run is postponed to their end (scenario domain)
Postpone ==
  /\ Ev("unreg", now) \in pend /\ bad = "" /\ (phase # "registered" \/ \E e \in pend : e.k = "ann")
  /\ pend' = (pend \ {Ev("unreg", now)}) \cup {Ev("unreg", RegAt + 850)}
  /\ UNCHANGED <<now, phase, lastSight, rLast, qAns, bUp, bHas, bAdded, cbs, lost, b0, unregAt, dropped, bad>>

Bye(lose) ==
  /\ Ev("bye", now) \in pend /\ bad = "" /\ MayLose(lose)
  /\ pend' = pend \ {Ev("bye", now)}
  /\ Count(lose, "g") /\ Forget(bUp /\ ~lose)
  /\ UNCHANGED <<now, phase, lastSight, rLast, qAns, bUp, b0, unregAt, bad>>

Tick ==
  /\ Due = {} /\ bad = "" /\ now < Horizon
  /\ LET ts == {e.t : e \in pend} \cup {Horizon} IN
     \E t \in ts : t > now /\ (\A u \in ts : u > now => t <= u) /\ now' = t
  /\ UNCHANGED <<phase, pend, lastSight, rLast, qAns, bUp, bHas, bAdded, cbs, lost, b0, unregAt, dropped, bad>>

Next == \/ Join \/ Postpone \/ Tick
        \/ \E lose \in BOOLEAN : Announce(lose) \/ Answer(lose) \/ Unregister(lose) \/ Bye(lose)
        \/ \E k \in {"q1", "q2", "q3", "q4"}, lose \in BOOLEAN, lr \in BOOLEAN : Query(k, lose, lr)
Spec == Init /\ [][Next]_vars

(* ---------------------------------------------------------------- contract *)
FirstAnn == RegAt + 350
Since == IF b0 > FirstAnn THEN b0 ELSE FirstAnn
RealUnreg == IF unregAt < 0 THEN -1 ELSE IF unregAt < RegAt + 850 THEN RegAt + 850 ELSE unregAt
\* registered => Added within Converge (as long as it is still registered then)
AddedInTime == (now >= Since + Converge /\ phase = "registered" /\ bUp) => bAdded
\* withdrawn => Removed within Settle
RemovedInTime == (phase = "gone" /\ RealUnreg >= 0 /\ now >= RealUnreg + Settle) => ~bAdded
Alternate == \A j \in 1..(Len(cbs) - 1) : cbs[j].k # cbs[j + 1].k
Done == now >= Horizon
EmitBehaviour == IF Done /\ Due = {} THEN PrintT(<<"BEHAVIOUR", b0, unregAt, dropped, cbs>>) ELSE TRUE
=============================================================================
