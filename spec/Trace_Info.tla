----------------------------- MODULE Trace_Info -----------------------------
(* Trace validation of the memoised records of a real ServiceInfo against InfoContract.tla: the harness (props/infomodel.py)
   performs a history of the model Info.tla on a real description and a real registry -- plain attribute assignments, the
   addresses setter, registry add / update -- and records what dns_pointer() / dns_service() / dns_text() / dns_addresses() /
   get_address_and_nsec_records() say:   init [f]   set [field, v]   sync   ask [kind, res]
   Clause C03_MemoReflectsFields: what is asked while the fields are as they were at the last registry add / update says what
   the fields say.                                                                                                         *)
EXTENDS Integers, Sequences, FiniteSets, Json, IOUtils, TLC, TLCExt, InfoContract

ASSUME TLCSet(42, JsonDeserialize(IOEnv.TRACE_FILE))
D == TLCGet(42)
Traces == D.traces
N == Len(Traces)
VARIABLES tid, l, s
vars == <<tid, l, s>>
Fail(st, c) == [st EXCEPT !.err = c]
InitState == [f |-> [port |-> 0, ottl |-> 0, httl |-> 0, text |-> "", addrs |-> ""], clean |-> FALSE, err |-> ""]

Step(st, e) ==
  CASE e.ev = "init" -> [InitState EXCEPT !.f = e.f]
    [] e.ev = "set"  -> [st EXCEPT !.f = [@ EXCEPT ![e.field] = e.v], !.clean = FALSE]
    [] e.ev = "sync" -> [st EXCEPT !.clean = TRUE]
    [] e.ev = "ask"  -> IF st.clean /\ e.res # What(e.kind, st.f) THEN Fail(st, "C03_MemoReflectsFields") ELSE st
    [] e.ev = "exc"  -> Fail(st, "C15_NoException")
    [] e.ev = "end"  -> st
    [] OTHER -> Fail(st, "Trace_Malformed")

Events == Traces[tid].events
Init == /\ tid \in 1..N /\ l = 1 /\ s = InitState
Next == /\ s.err = "" /\ l <= Len(Events)
        /\ s' = Step(s, Events[l])
        /\ l' = IF s'.err = "" THEN l + 1 ELSE l
        /\ UNCHANGED tid
Spec == Init /\ [][Next]_vars

ASSUME \A i \in 1..N : TLCSet(1000 + i, <<0, "">>)
Progress ==
  LET cur == TLCGet(1000 + tid)
      score == IF s.err = "" THEN 2 * l ELSE 2 * l + 1
  IN IF score > cur[1] THEN TLCSet(1000 + tid, <<score, s.err>>) ELSE TRUE
Verdicts ==
  \A i \in 1..N :
    LET r == TLCGet(1000 + i)
        n == Len(Traces[i].events)
    IN IF r[1] = 2 * (n + 1) /\ r[2] = "" THEN PrintT(<<"VERDICT", Traces[i].id, TRUE, "", n>>)
       ELSE PrintT(<<"VERDICT", Traces[i].id, FALSE, r[2], r[1] \div 2>>)
=============================================================================
