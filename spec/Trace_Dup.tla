------------------------------ MODULE Trace_Dup ------------------------------
(* Code -> spec binding for C16: a reference execution and the execution in which datagrams were
   delivered twice back to back (same scenario, same scripted random draws keyed by call site and
   virtual instant) are stepped through in lockstep.

   Contract: duplicating a datagram is a stuttering step on everything observable -- datagrams sent
   (destination, header, sections, instant), browser callbacks, record-update-listener calls --
   except ExtraUnicast: a duplicated query that contains a QU question may be answered by unicast a
   second time (the copy of a unicast reply sent at the instant of the duplication).

   Input: { traces: [ {id, ref: [obs], dup: [obs], qudups: [instants]} ] } with
   obs = [k |-> "send" | "cb" | "lc" | "exc", t, mc (send only), sig (interned content)].        *)
EXTENDS Integers, Sequences, FiniteSets, Json, IOUtils, TLC, TLCExt

ASSUME TLCSet(42, JsonDeserialize(IOEnv.TRACE_FILE))
D == TLCGet(42)
Traces == D.traces
N == Len(Traces)

VARIABLES tid, i, j, err
vars == <<tid, i, j, err>>

Ref == Traces[tid].ref
Dup == Traces[tid].dup
QuDups == {Traces[tid].qudups[k] : k \in 1..Len(Traces[tid].qudups)}
Same(a, b) == a.k = b.k /\ a.t = b.t /\ a.sig = b.sig /\ a.mc = b.mc

(* the permitted difference: an extra copy of a unicast reply at the instant a QU query was duplicated *)
ExtraUnicast(d) == d.k = "send" /\ ~d.mc /\ d.t \in QuDups      \* (its id is the copy's own id when the first copy completed a held TC train)

ClauseFor(d) == IF d.k = "send" THEN (IF d.mc THEN "C16_NoExtraMulticast" ELSE "C16_OnlyPermittedExtraUnicast")
                ELSE IF d.k = "cb" THEN "C16_SameCallbacks"
                ELSE IF d.k = "lc" THEN "C16_SameListenerCalls"
                ELSE "C15_NoException"

Init == tid \in 1..N /\ i = 1 /\ j = 1 /\ err = ""
Next ==
  /\ err = "" /\ (i <= Len(Ref) \/ j <= Len(Dup))
  /\ IF i <= Len(Ref) /\ j <= Len(Dup) /\ Same(Ref[i], Dup[j]) THEN i' = i + 1 /\ j' = j + 1 /\ err' = ""
     ELSE IF j <= Len(Dup) /\ ExtraUnicast(Dup[j]) THEN i' = i /\ j' = j + 1 /\ err' = ""
     ELSE IF j <= Len(Dup) /\ (i > Len(Ref) \/ Dup[j].t <= Ref[i].t) THEN i' = i /\ j' = j /\ err' = ClauseFor(Dup[j])
     ELSE i' = i /\ j' = j /\ err' = "C16_NothingLost"          \* the reference has an event the duplicated run lacks
  /\ UNCHANGED tid
Spec == Init /\ [][Next]_vars

ASSUME \A n \in 1..N : TLCSet(1000 + n, <<0, "", 0, 0>>)
Progress ==
  LET cur == TLCGet(1000 + tid)
      score == 2 * (i + j) + (IF err = "" THEN 0 ELSE 1)
  IN IF score > cur[1] THEN TLCSet(1000 + tid, <<score, err, i, j>>) ELSE TRUE
Verdicts ==
  \A n \in 1..N :
    LET r == TLCGet(1000 + n) IN
    IF r[2] = "" /\ r[3] = Len(Traces[n].ref) + 1 /\ r[4] = Len(Traces[n].dup) + 1
    THEN PrintT(<<"VERDICT", Traces[n].id, TRUE, "", r[4]>>)
    ELSE PrintT(<<"VERDICT", Traces[n].id, FALSE, r[2], r[4]>>)
=============================================================================
