------------------------------ MODULE Trace_Dup ------------------------------
(* Code -> spec binding for C16: a reference execution and the execution in which datagrams were
   delivered twice back to back (same scenario, same scripted random draws keyed by call site and
   virtual instant) are stepped through in lockstep.

   Contract: duplicating a datagram is a stuttering step on everything observable -- datagrams sent
   (destination, header, sections, instant), browser callbacks, record-update-listener calls --
   except ExtraUnicast: a duplicated query that contains a QU question may be answered by unicast a
   second time (see ExtraUnicast).

   Input: { traces: [ {id, ref: [obs], dup: [obs], qudups: [instants]} ] } with
   obs = [k |-> "send" | "cb" | "lc" | "exc" | "rand" (a draw from the process-wide random generator for the hold time of a
          truncated query or the delay of an aggregated answer: it shifts every later delay of the process), t, mc (send only), sig (interned content), sig2 (sends: content without id)].        *)
EXTENDS Integers, Sequences, FiniteSets, Json, IOUtils, TLC, TLCExt

ASSUME TLCSet(42, JsonDeserialize(IOEnv.TRACE_FILE))
D == TLCGet(42)
Traces == D.traces
N == Len(Traces)

VARIABLES tid, i, j, err
vars == <<tid, i, j, err>>

Ref == Traces[tid].ref
Dup == Traces[tid].dup
QuDups == {Traces[tid].qudups[k] : k \in 1..Len(Traces[tid].qudups)}      \* [t |-> instant of the copy, tc |-> its TC flag]
Same(a, b) == a.k = b.k /\ a.t = b.t /\ a.sig = b.sig /\ a.mc = b.mc

(* the permitted difference: the copy of a query with a QU question is answered by unicast as well -- at the instant of the
   copy, or, when the query carries the TC flag and is therefore held back for its continuation, when that hold (at most
   500 ms) runs out.  (Its id is the copy's own id when the first copy completed a held TC train.) *)
ExtraUnicast(d) == /\ d.k = "send" /\ ~d.mc
                   /\ \E q \in QuDups : d.t = q.t \/ (q.tc /\ q.t < d.t /\ d.t <= q.t + 500)

(* while the copy of a TC-flagged QU query is held, a further query of the same source completes the held train: its unicast
   reply is the same datagram at the same instant but carries the id of the train's first packet *)
SameButId(a, b) == /\ a.k = "send" /\ b.k = "send" /\ ~a.mc /\ ~b.mc /\ a.t = b.t /\ a.sig2 = b.sig2
                   /\ \E q \in QuDups : q.tc /\ q.t < a.t /\ a.t <= q.t + 500

(* at a tie (both runs have a different next event in the same millisecond) the reference is the one with the extra event
   when the duplicated run's event occurs further on in the reference at that instant *)
RefAhead == \E k \in (i + 1)..Len(Ref) : Ref[k].t = Dup[j].t /\ Same(Ref[k], Dup[j])

ClauseFor(d) == IF d.k = "send" THEN (IF d.mc THEN "C16_NoExtraMulticast" ELSE "C16_OnlyPermittedExtraUnicast")
                ELSE IF d.k = "cb" THEN "C16_SameCallbacks"
                ELSE IF d.k = "lc" THEN "C16_SameListenerCalls"
                ELSE IF d.k = "rand" THEN "C16_SameRandomDraws"
                ELSE "C15_NoException"

Init == tid \in 1..N /\ i = 1 /\ j = 1 /\ err = ""
Next ==
  /\ err = "" /\ (i <= Len(Ref) \/ j <= Len(Dup))
  /\ IF i <= Len(Ref) /\ j <= Len(Dup) /\ (Same(Ref[i], Dup[j]) \/ SameButId(Ref[i], Dup[j])) THEN i' = i + 1 /\ j' = j + 1 /\ err' = ""
     ELSE IF j <= Len(Dup) /\ ExtraUnicast(Dup[j]) THEN i' = i /\ j' = j + 1 /\ err' = ""
     ELSE IF j <= Len(Dup) /\ (i > Len(Ref) \/ Dup[j].t < Ref[i].t \/ (Dup[j].t = Ref[i].t /\ ~RefAhead))
          THEN i' = i /\ j' = j /\ err' = ClauseFor(Dup[j])
     ELSE i' = i /\ j' = j /\ err' = "C16_NothingLost"          \* the reference has an event the duplicated run lacks
  /\ UNCHANGED tid
Spec == Init /\ [][Next]_vars

ASSUME \A n \in 1..N : TLCSet(1000 + n, <<0, "", 0, 0>>)
Progress ==
  LET cur == TLCGet(1000 + tid)
      score == 2 * (i + j) + (IF err = "" THEN 0 ELSE 1)
  IN IF score > cur[1] THEN TLCSet(1000 + tid, <<score, err, i, j>>) ELSE TRUE
Verdicts ==
  \A n \in 1..N :
    LET r == TLCGet(1000 + n) IN
    IF r[2] = "" /\ r[3] = Len(Traces[n].ref) + 1 /\ r[4] = Len(Traces[n].dup) + 1
    THEN PrintT(<<"VERDICT", Traces[n].id, TRUE, "", r[4]>>)
    ELSE PrintT(<<"VERDICT", Traces[n].id, FALSE, r[2], r[4]>>)
=============================================================================
