----------------------------- MODULE Trace_Cache -----------------------------
(* Code -> spec binding for the cache family (C05, C06, C04).

   Input (IOEnv.TRACE_FILE): { vocab: [...], traces: [ {id, t0, events: [...]}, ... ] } recorded by
   props/cachefam.py from a real instance running in the virtual-time simulator.
   Every trace is replayed through the contract of Cache.tla; the monitor state is one record `s`
   and every clause that can fail has a name, which ends up in s.err together with the index of
   the rejected event.  Verdicts are printed from the POSTCONDITION, one line per trace.

   Silent actions: the 10 s purge leaves no event when nothing expired (the harness' sentinel
   listener makes every non-empty purge visible), so a silent purge is a stuttering step of the
   contract state; what the monitor checks is that no boundary strictly before the next event
   had something to purge (C05_PurgeExact).                                                     *)
EXTENDS Integers, Sequences, FiniteSets, Json, IOUtils, TLC, TLCExt

ASSUME TLCSet(42, JsonDeserialize(IOEnv.TRACE_FILE))
D == TLCGet(42)
Traces == D.traces
N == Len(Traces)
Vocab == D.vocab
Ids == 1..Len(Vocab)
RRof(i) == Vocab[i].rr
IsPtrId(i) == Vocab[i].ptr
INSTANCE Cache

Bids == 1..32
PurgeEvery == 10000

VARIABLES tid, l, s
vars == <<tid, l, s>>

ToSet(q) == {q[k] : k \in 1..Len(q)}
NoPhase == [k |-> "none", inRecv |-> FALSE, isPurge |-> FALSE, left |-> {}, pairs |-> <<>>, post |-> <<>>, bid |-> 0, lax |-> FALSE]

InitState(t0) ==
  [cache |-> [i \in Ids |-> None], t0 |-> t0, purged |-> t0, lastDid |-> 0, lastProc |-> -100000, lastQU |-> FALSE,
   lst |-> {}, ph |-> NoPhase, live |-> [b \in Bids |-> {}], bt |-> [b \in Bids |-> {}], exc |-> FALSE,
   loose |-> {}, altc |-> [i \in Ids |-> None], err |-> ""]

Fail(st, clause) == [st EXCEPT !.err = clause]

(* Each check evaluates the clauses of its own property; the others are skipped (not failed), so
   that e.g. the C05 run still judges every lookup path after a listener-contract (C06) clause
   would have stopped the trace.  D.own is "C04", "C05", "C06" or "ALL". *)
ClausesOf ==
  [C05 |-> {"C05_PurgeExact", "C05_PurgeReportsRecord", "C05_NoEarlyPurge", "C05_ReportedOnce", "C05_CaseInsensitive",
            "C05_PathByRecord", "C05_PathByName", "C05_PathByDetails", "C05_PathByServer", "C05_PathFirstByDetails",
            "C05_PathNames"},
   C06 |-> {"C06_EachListenerOnce", "C06_PairsInDatagramOrder", "C06_PtrFloor", "C06_ReceivedTtl", "C06_CreatedIsArrival",
            "C06_OldIffCached", "C06_RefreshVisible", "C06_NotifyBeforeApply", "C06_CompleteAfterApply",
            "C06_NoCallWithoutUpdate", "C06_ListenerManagement"},
   C04 |-> {"C04_CallbackAfterCache", "C04_OnlyBrowsedTypes", "C04_Alternate", "C04_InitialReplay", "C04_LiveMatchesCache"}]
Own(clause) == \/ D.own = "ALL"
               \/ clause \in {"Trace_Malformed", "C15_NoException"}
               \/ clause \in ClausesOf[D.own]
Bad(cond, clause) == cond /\ Own(clause)

(* last purge boundary strictly before t *)
LastBoundaryBefore(st, t) ==
  IF t <= st.t0 THEN st.t0 ELSE st.t0 + ((t - 1 - st.t0) \div PurgeEvery) * PurgeEvery

CheckSilent(st, t) ==
  LET b == LastBoundaryBefore(st, t) IN
  IF b > st.purged
  THEN IF Bad(PurgeSet(st.cache, b) # {}, "C05_PurgeExact") THEN Fail(st, "C05_PurgeExact") ELSE [st EXCEPT !.purged = b]
  ELSE st

(* a purge's notification phase has no closing bracket in the log: it ends at the next event
   that is not one of its listener calls / browser callbacks *)
ClosePurge(st) ==
  IF st.ph.k # "none" /\ st.ph.isPurge
  THEN IF Bad(st.ph.left # {} /\ ~st.ph.lax, "C06_EachListenerOnce") THEN Fail(st, "C06_EachListenerOnce")
       ELSE IF Bad(st.ph.k = "upd" /\ st.lst # {} /\ ~st.ph.lax, "C06_EachListenerOnce") THEN Fail(st, "C06_EachListenerOnce")
       ELSE [st EXCEPT !.ph = NoPhase]
  ELSE st

(* ------------------------------------------------------------------ recv *)
OnRecv(st0, e) ==
  LET st == ClosePurge(st0) IN
  IF st.err # "" THEN st
  ELSE IF Bad(st.ph.k # "none" \/ st.ph.inRecv, "Trace_Malformed") THEN Fail(st, "Trace_Malformed")
  ELSE LET dup == e.did = st.lastDid /\ e.t - 1000 < st.lastProc /\ ~st.lastQU IN
    IF dup THEN [st EXCEPT !.ph = [NoPhase EXCEPT !.inRecv = TRUE]]
    ELSE IF e.q THEN [st EXCEPT !.lastDid = e.did, !.lastProc = e.t, !.lastQU = e.qu,
                               !.ph = [NoPhase EXCEPT !.inRecv = TRUE]]
    ELSE LET ps == Pairs(st.cache, e.items)
             mk == Marked(st.cache, e.items, e.t)
             po == Ingest(st.cache, e.items, e.t)
         IN [st EXCEPT !.lastDid = e.did, !.lastProc = e.t, !.lastQU = e.qu, !.cache = mk,
                       !.ph = IF ps = <<>> THEN [NoPhase EXCEPT !.inRecv = TRUE]
                              ELSE [k |-> "upd", inRecv |-> TRUE, isPurge |-> FALSE, left |-> st.lst,
                                    pairs |-> ps, post |-> po, bid |-> 0, lax |-> FALSE]]

(* ------------------------------------------------------------------ listener calls *)
PairClause(st, e, exp, got) ==
  IF Bad(got.n # exp.n, "C06_PairsInDatagramOrder") THEN "C06_PairsInDatagramOrder"
  ELSE IF Bad(got.nttl # exp.nttl /\ IsPtrId(exp.n), "C06_PtrFloor") THEN "C06_PtrFloor"
  ELSE IF Bad(got.nttl # exp.nttl /\ ~IsPtrId(exp.n), "C06_ReceivedTtl") THEN "C06_ReceivedTtl"
  ELSE IF Bad(got.nc # e.t, "C06_CreatedIsArrival") THEN "C06_CreatedIsArrival"
  ELSE IF Bad(got.o # exp.o, "C06_OldIffCached") THEN "C06_OldIffCached"
  ELSE IF Bad(exp.o # 0 /\ (got.oc # st.cache[exp.o].c \/ got.ottl # st.cache[exp.o].ttl), "C06_RefreshVisible") THEN "C06_RefreshVisible"
  ELSE ""

PairsClause(st, e) ==
  IF Bad(Len(e.pairs) # Len(st.ph.pairs), "C06_PairsInDatagramOrder") THEN "C06_PairsInDatagramOrder"
  ELSE LET n == IF Len(e.pairs) < Len(st.ph.pairs) THEN Len(e.pairs) ELSE Len(st.ph.pairs)   \* the length clause may belong to another check
           bad == {k \in 1..n : PairClause(st, e, st.ph.pairs[k], e.pairs[k]) # ""} IN
       IF bad = {} THEN ""
       ELSE PairClause(st, e, st.ph.pairs[CHOOSE k \in bad : \A j \in bad : k <= j],
                       e.pairs[CHOOSE k \in bad : \A j \in bad : k <= j])

OnUpdInRecv(st, e) ==
  IF Bad(e.lid \notin st.ph.left /\ ~st.ph.lax, "C06_EachListenerOnce") THEN Fail(st, "C06_EachListenerOnce")
  ELSE IF PairsClause(st, e) # "" THEN Fail(st, PairsClause(st, e))
  ELSE IF Bad(ToSet(e.view) # View(st.cache), "C06_NotifyBeforeApply") THEN Fail(st, "C06_NotifyBeforeApply")
  ELSE [st EXCEPT !.ph.left = @ \ {e.lid}]

(* first listener call of a purge *)
OnPurgeStart(st, e) ==
  LET b == e.t
      expected == PurgeSet(st.cache, b)
      got == {e.pairs[k].n : k \in 1..Len(e.pairs)}
      newCache == Purged(st.cache, b)
  IN IF Bad((b - st.t0) % PurgeEvery # 0 \/ b <= st.purged, "C06_NoCallWithoutUpdate") THEN Fail(st, "C06_NoCallWithoutUpdate")
     ELSE IF Bad(\E k \in 1..Len(e.pairs) : e.pairs[k].o # e.pairs[k].n, "C05_PurgeReportsRecord") THEN Fail(st, "C05_PurgeReportsRecord")
     ELSE IF Bad(~(got \subseteq expected), "C05_NoEarlyPurge") THEN Fail(st, "C05_NoEarlyPurge")
     ELSE IF Bad(got # expected, "C05_PurgeExact") THEN Fail(st, "C05_PurgeExact")
     ELSE IF Bad(Len(e.pairs) # Cardinality(expected), "C05_ReportedOnce") THEN Fail(st, "C05_ReportedOnce")
     ELSE IF Bad(ToSet(e.view) # View(newCache), "C05_PurgeExact") THEN Fail(st, "C05_PurgeExact")
     ELSE IF Bad(e.lid \notin st.lst, "C06_EachListenerOnce") THEN Fail(st, "C06_EachListenerOnce")
     ELSE [st EXCEPT !.cache = newCache, !.purged = b,
                     !.ph = [k |-> "upd", inRecv |-> FALSE, isPurge |-> TRUE, left |-> st.lst \ {e.lid},
                             pairs |-> e.pairs, post |-> newCache, bid |-> 0, lax |-> FALSE]]

OnUpdInPurge(st, e) ==
  IF Bad(e.lid \notin st.ph.left, "C06_EachListenerOnce") THEN Fail(st, "C06_EachListenerOnce")
  ELSE IF Bad(e.pairs # st.ph.pairs, "C05_ReportedOnce") THEN Fail(st, "C05_ReportedOnce")
  ELSE IF Bad(ToSet(e.view) # View(st.cache), "C05_PurgeExact") THEN Fail(st, "C05_PurgeExact")
  ELSE [st EXCEPT !.ph.left = @ \ {e.lid}]

(* Apply: the step between the two notification rounds *)
ToDone(st) ==
  IF st.ph.k # "upd" THEN st
  \* a listener of the harness raised in the first round (on a datagram of refreshes only): who else is still called is the
  \* library's business, the cache effects are not
  ELSE IF st.ph.lax THEN [st EXCEPT !.cache = st.ph.post, !.altc = st.cache, !.ph.k = "done", !.ph.left = st.lst]
  ELSE IF Bad(st.ph.left # {}, "C06_EachListenerOnce") THEN Fail(st, "C06_EachListenerOnce")
  ELSE [st EXCEPT !.cache = st.ph.post, !.ph.k = "done", !.ph.left = st.lst]

OnDone(st0, e) ==
  LET st == ToDone(st0) IN
  IF st.err # "" THEN st
  ELSE IF Bad(st.ph.k # "done", "C06_NoCallWithoutUpdate") THEN Fail(st, "C06_NoCallWithoutUpdate")
  ELSE IF Bad(e.lid \notin st.ph.left /\ ~st.ph.lax, "C06_EachListenerOnce") THEN Fail(st, "C06_EachListenerOnce")
  ELSE IF Bad(ToSet(e.view) # View(st.cache), "C06_CompleteAfterApply") THEN Fail(st, "C06_CompleteAfterApply")
  ELSE [st EXCEPT !.ph.left = @ \ {e.lid}]

OnLcall(st0, e) ==
  IF e.ph = "upd"
  THEN IF st0.ph.k = "upd" /\ ~st0.ph.isPurge THEN OnUpdInRecv(st0, e)
       ELSE IF st0.ph.k = "upd" /\ st0.ph.isPurge /\ e.t = st0.purged THEN OnUpdInPurge(st0, e)
       ELSE IF Bad(st0.ph.inRecv \/ st0.ph.k = "bstart", "C06_NoCallWithoutUpdate") THEN Fail(st0, "C06_NoCallWithoutUpdate")
       ELSE LET st == CheckSilent(ClosePurge(st0), e.t) IN
            IF st.err # "" THEN st ELSE OnPurgeStart(st, e)
  ELSE OnDone(st0, e)

(* ------------------------------------------------------------------ browser *)
PtrAliases(ch, ty) == {Vocab[i].alias : i \in {j \in Present(ch) : IsPtrId(j) /\ Vocab[j].nb = ty}}
LiveAliases(st, b, ty) == {p[2] : p \in {q \in st.live[b] : q[1] = ty}}

OnCb(st0, e) ==
  LET st == IF st0.ph.k = "bstart" THEN st0 ELSE ToDone(st0) IN
  IF st.err # "" THEN st
  ELSE IF Bad(st.ph.k \notin {"done", "bstart"}, "C04_CallbackAfterCache") THEN Fail(st, "C04_CallbackAfterCache")
  ELSE IF Bad(e.ty \notin st.bt[e.bid] \/ ~e.tyexact, "C04_OnlyBrowsedTypes") THEN Fail(st, "C04_OnlyBrowsedTypes")
  ELSE IF Bad(ToSet(e.view) # View(st.cache), "C04_CallbackAfterCache") THEN Fail(st, "C04_CallbackAfterCache")
  ELSE IF e.kind = "add"
       THEN IF Bad(<<e.ty, e.alias>> \in st.live[e.bid], "C04_Alternate") THEN Fail(st, "C04_Alternate")
            ELSE [st EXCEPT !.live[e.bid] = @ \cup {<<e.ty, e.alias>>}]
  ELSE IF e.kind = "rem"
       THEN IF Bad(<<e.ty, e.alias>> \notin st.live[e.bid], "C04_Alternate") THEN Fail(st, "C04_Alternate")
            ELSE [st EXCEPT !.live[e.bid] = @ \ {<<e.ty, e.alias>>}]
  ELSE st

OnBstart(st0, e) ==
  LET st == CheckSilent(ClosePurge(st0), e.t) IN
  IF st.err # "" THEN st
  ELSE IF Bad(st.ph.k # "none", "Trace_Malformed") THEN Fail(st, "Trace_Malformed")
  ELSE [st EXCEPT !.bt[e.bid] = ToSet(e.types), !.live[e.bid] = {}, !.ph = [NoPhase EXCEPT !.k = "bstart", !.bid = e.bid]]

OnBstartDone(st, e) ==
  LET b == e.bid
      want == {<<Vocab[i].nb, Vocab[i].alias>> :
                 i \in {j \in Present(st.cache) : IsPtrId(j) /\ Vocab[j].nb \in st.bt[b] /\ ~IsExpired(st.cache[j], e.t)}}
  IN IF Bad(st.live[b] # want, "C04_InitialReplay") THEN Fail(st, "C04_InitialReplay") ELSE [st EXCEPT !.ph = NoPhase]

LiveClause(st) ==
  IF Bad(~(\A b \in Bids : \A ty \in st.bt[b] : LiveAliases(st, b, ty) = PtrAliases(st.cache, ty)), "C04_LiveMatchesCache")
  THEN "C04_LiveMatchesCache" ELSE ""

(* ------------------------------------------------------------------ snapshots *)
SnapClause(st, p) ==
  LET v == View(st.cache)
      pres == Present(st.cache)
  IN IF Bad(p.spell # 0, "C05_CaseInsensitive") THEN "C05_CaseInsensitive"
     ELSE IF Bad(ToSet(p.rec) # v \/ Len(p.rec) # Cardinality(v), "C05_PathByRecord") THEN "C05_PathByRecord"
     ELSE IF Bad(ToSet(p.uniq) # v \/ Len(p.uniq) # Cardinality(v), "C05_PathByRecord") THEN "C05_PathByRecord"
     ELSE IF Bad(ToSet(p.name) # v \/ Len(p.name) # Cardinality(v), "C05_PathByName") THEN "C05_PathByName"
     ELSE IF Bad(ToSet(p.details) # v \/ Len(p.details) # Cardinality(v), "C05_PathByDetails") THEN "C05_PathByDetails"
     ELSE IF Bad(ToSet(p.server) # {<<Vocab[i].host, i, st.cache[i].c, st.cache[i].ttl>> : i \in {j \in pres : Vocab[j].host # 0}},
                 "C05_PathByServer") THEN "C05_PathByServer"
     ELSE IF Bad(\E k \in 1..Len(p.one) :
                   LET o == p.one[k] IN
                   IF o[2] = 0 THEN \E i \in pres : RRof(i) = o[1]
                   ELSE ~(<<o[2], o[3], o[4]>> \in v /\ RRof(o[2]) = o[1]),
                 "C05_PathFirstByDetails") THEN "C05_PathFirstByDetails"
     ELSE IF Bad(ToSet(p.names) # {Vocab[i].nb : i \in pres}, "C05_PathNames") THEN "C05_PathNames"
     ELSE LiveClause(st)

Resolve(st, p) ==
  IF st.loose = {} THEN st
  ELSE LET obs == ToSet(p.rec)
           pick(i) == IF (st.cache[i] = None /\ ~\E x \in obs : x[1] = i) \/ (st.cache[i] # None /\ <<i, st.cache[i].c, st.cache[i].ttl>> \in obs)
                      THEN st.cache[i]
                      ELSE IF (st.altc[i] = None /\ ~\E x \in obs : x[1] = i) \/ (st.altc[i] # None /\ <<i, st.altc[i].c, st.altc[i].ttl>> \in obs)
                      THEN st.altc[i] ELSE st.cache[i]
       IN [st EXCEPT !.cache = [i \in Ids |-> IF i \in st.loose THEN pick(i) ELSE st.cache[i]], !.loose = {}]

OnSnap(st00, e) ==
  LET st0 == Resolve(st00, e.paths)
      st == CheckSilent(ClosePurge(st0), e.t) IN
  IF st.err # "" THEN st
  ELSE IF Bad(st.ph.k # "none", "Trace_Malformed") THEN Fail(st, "Trace_Malformed")
  ELSE IF SnapClause(st, e.paths) # "" THEN Fail(st, SnapClause(st, e.paths)) ELSE st

OnRecvDone(st0, e) ==
  LET st == ToDone(st0) IN
  IF st.err # "" THEN st
  ELSE IF Bad(st.ph.k = "done" /\ st.ph.left # {} /\ ~st.ph.lax, "C06_EachListenerOnce") THEN Fail(st, "C06_EachListenerOnce")
  ELSE [st EXCEPT !.ph = NoPhase]

OnEnd(st0, e) ==
  LET st == CheckSilent(ClosePurge(st0), e.t) IN st

Step(st, e) ==
  CASE e.ev = "start"       -> InitState(e.t0)
    [] e.ev = "recv"        -> LET c == CheckSilent(st, e.t) IN IF c.err # "" THEN c ELSE OnRecv(c, e)
    [] e.ev = "recv_done"   -> OnRecvDone(st, e)
    [] e.ev = "lcall"       -> OnLcall(st, e)
    [] e.ev = "ladd"        -> [st EXCEPT !.lst = @ \cup {e.lid}]
    [] e.ev = "lrem"        -> [st EXCEPT !.lst = @ \ {e.lid}]
    [] e.ev = "lrem_again"  -> st         \* removing a listener that is not registered: nothing changes
    \* adding or removing a listener, at any point and also one that is not registered, does not raise
    [] e.ev = "lexc"        -> IF Bad(TRUE, "C06_ListenerManagement") THEN Fail(st, "C06_ListenerManagement") ELSE st
    [] e.ev = "cb"          -> OnCb(st, e)
    [] e.ev = "bstart"      -> OnBstart(st, e)
    [] e.ev = "bstart_done" -> OnBstartDone(st, e)
    [] e.ev = "bcancel"     -> LET c == ClosePurge(st) IN [c EXCEPT !.bt[e.bid] = {}, !.live[e.bid] = {}]
    [] e.ev = "snap"        -> OnSnap(st, e)
    [] e.ev = "reg"         -> st         \* the host registered a service of its own: what it sends comes back from the link as datagrams
    \* an exception that escaped the library: C15's business.  The family checks go on judging their own clauses on what
    \* follows (the rest of that datagram was not processed, which the snapshots and callbacks will show)
    \* the records of the datagram that was broken off are cached as received, or left as they were when the listener raised:
    \* the snapshot that follows says which (Resolve)
    [] e.ev = "uexc"        -> IF st.ph.k = "upd" /\ ~st.ph.isPurge
                               THEN [st EXCEPT !.ph.lax = TRUE, !.loose = {st.ph.pairs[k].n : k \in 1..Len(st.ph.pairs)}]
                               \* in the purge the records are gone already: who else is told about this batch is not judged, the
                               \* purges that follow are
                               ELSE IF st.ph.k = "upd" /\ st.ph.isPurge THEN [st EXCEPT !.ph.lax = TRUE]
                               ELSE Fail(st, "Trace_Malformed")
    [] e.ev = "exc"         -> IF D.own = "ALL" THEN Fail(st, "C15_NoException") ELSE [st EXCEPT !.exc = TRUE]
    [] e.ev = "end"         -> OnEnd(st, e)
    [] OTHER                -> Fail(st, "Trace_Malformed")

\* once an exception has been seen the event grammar of a datagram may be broken off: that is not a malformed trace
AfterExc(st) == IF st.exc /\ st.err = "Trace_Malformed" THEN Fail(st, "C15_NoException") ELSE st
Events == Traces[tid].events
Init == /\ tid \in 1..N /\ l = 1 /\ s = InitState(0)
Next == /\ s.err = "" /\ l <= Len(Events)
        /\ s' = AfterExc(Step(s, Events[l]))
        /\ l' = IF s'.err = "" THEN l + 1 ELSE l
        /\ UNCHANGED tid
Spec == Init /\ [][Next]_vars

(* verdict registers: 1000 + tid  ->  <<events matched, clause>>  of the deepest state *)
ASSUME \A i \in 1..N : TLCSet(1000 + i, <<0, "">>)
(* with a "dbg" field in the input the monitor state of a rejected trace is printed *)
DebugDump == IF s.err # "" /\ "dbg" \in DOMAIN D THEN PrintT(<<"DEBUG", Traces[tid].id, l, s>>) ELSE TRUE
Progress ==
  LET cur == TLCGet(1000 + tid)
      score == IF s.err = "" THEN 2 * l ELSE 2 * l + 1
  IN /\ IF score > cur[1] THEN TLCSet(1000 + tid, <<score, s.err>>) ELSE TRUE
     /\ DebugDump

Verdicts ==
  \A i \in 1..N :
    LET r == TLCGet(1000 + i)
        n == Len(Traces[i].events)
    IN IF r[1] = 2 * (n + 1) /\ r[2] = "" THEN PrintT(<<"VERDICT", Traces[i].id, TRUE, "", n>>)
       ELSE PrintT(<<"VERDICT", Traces[i].id, FALSE, r[2], r[1] \div 2>>)
=============================================================================
