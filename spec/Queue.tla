-------------------------------- MODULE Queue --------------------------------
(* Implementation-shaped model of the responder's two multicast answer queues (zeroconf/_handlers/
   multicast_outgoing_queue.py, the routing in query_handler.py and the withdrawal added by the fixes D6 / D6b / D6c in
   _core.py), together with the reply-timing contract of C12 and the no-resurrection contract of C08.
   Time in integer milliseconds.

   Code -> model:
     out_queue       (additional delay    0, aggregation 500)      q[1]
     out_delay_queue (additional delay 1000, aggregation 200)      q[2]     used for records multicast in the last second
     AnswerGroup(send_after, send_before, answers)                 [after, before, recs]
     MulticastOutgoingQueue.async_add                              Add      (merge into the last group when the new group
                                                                            would be due no later, else append; the first
                                                                            group of an empty queue arms the timer)
     MulticastOutgoingQueue.async_ready                            Ready    (with more than one group wait for the first
                                                                            group's deadline; pop everything due; re-arm
                                                                            for the next group; drop what was sent from the
                                                                            groups that stay)
     cache entry of the host's own multicast (loopback)            lastMc   (what _has_mcast_record_in_last_second reads)
     AsyncListener.data / last_time (duplicate guard)              lastRx   (the last datagram the listener processed: a
                                                                            byte-identical one within a second is dropped
                                                                            before it reaches the cache -- also the loopback
                                                                            of the host's own answer or goodbye)
     (not in the code)                                             lastTx   the instant a record was really last multicast
     Zeroconf.async_unregister_service                             Unregister: goodbyes at +0 / +125 / +250 ms and, with
                                                                            Purge = TRUE, removal of the records from both queues

   One record per service; queries are QM queries with one or more PTR questions (never answered at once), chosen by the
   environment at the instants EnvTimes together with the 20-120 ms jitter draws.

   Contract (as in Trace_Responder.tla): a question for record r that arrives at qt creates an obligation
        aggregated:  a multicast of r in [qt + 20, qt + 500]
        protected:   (r multicast less than a second before qt)  in [max(lastMc + 1000, qt + 20), qt + 1200]
   discharged earliest deadline first; every multicast of r must discharge or be covered by one (NoUnsolicited); no
   obligation may pass its deadline (NoOverdue); obligations for withdrawn records are waived and a withdrawn record is
   never multicast with a positive TTL after its third goodbye (NoResurrection).                                         *)
EXTENDS Integers, Sequences, FiniteSets, TLC

CONSTANTS Recs, Jitters, EnvTimes, Horizon, Purge, AllowUnreg,
          CheckStrict    \* TRUE: also judge the strict reading of the one-second rule (fails: finding D17)

VARIABLES now, reg, lastMc, lastTx, lastRx, q, timers, obl, gone, gbs, envDone, hist, slog, bad
vars == <<now, reg, lastMc, lastTx, lastRx, q, timers, obl, gone, gbs, envDone, hist, slog, bad>>
view == <<now, reg, lastMc, lastTx, lastRx, q, timers, obl, gone, gbs, envDone, bad>>

Min(S) == CHOOSE x \in S : \A y \in S : x <= y
Max2(a, b) == IF a > b THEN a ELSE b
AddDelay(i) == IF i = 1 THEN 0 ELSE 1000
AggDelay(i) == IF i = 1 THEN 500 ELSE 200

Init ==
  \* registered at 0: announcements at 0 / 225 / 450, of which the listener processed the first (the other two are
  \* byte-identical and dropped by the duplicate guard)
  /\ now = 0 /\ reg = Recs /\ lastMc = [r \in Recs |-> 0] /\ lastTx = [r \in Recs |-> 450]
  /\ lastRx = [k |-> "a", key |-> {}, t |-> 0]
  /\ q = <<<<>>, <<>>>> /\ timers = {} /\ obl = {} /\ gone = [r \in Recs |-> -1] /\ gbs = {}
  /\ envDone = {} /\ hist = <<>> /\ slog = <<>> /\ bad = ""

(* ---------------------------------------------------------------- async_add *)
\* result: <<queue, timers to add>>
Add(i, S, j) ==
  LET after == now + j + AddDelay(i)
      before == now + AggDelay(i) + AddDelay(i)
      Q == q[i]
  IN IF Q # <<>> /\ after <= Q[Len(Q)].after
     THEN <<[Q EXCEPT ![Len(Q)].recs = @ \cup S], {}>>
     ELSE <<Append(Q, [after |-> after, before |-> before, recs |-> S]), IF Q = <<>> THEN {<<i, after>>} ELSE {}>>

JMin == Min(Jitters)
Query(S, j1, j2) ==
  /\ now \in EnvTimes /\ now \notin envDone /\ bad = ""
  /\ S # {} /\ S \subseteq reg
  /\ LET prot == {r \in S : now - lastMc[r] < 1000}
         agg == S \ prot
         a1 == Add(1, agg, j1)
         a2 == Add(2, prot, j2)
     IN /\ (agg = {} => j1 = JMin) /\ (prot = {} => j2 = JMin)           \* unused draws are not branched over
        /\ q' = <<IF agg # {} THEN a1[1] ELSE q[1], IF prot # {} THEN a2[1] ELSE q[2]>>
        /\ timers' = timers \cup (IF agg # {} THEN a1[2] ELSE {}) \cup (IF prot # {} THEN a2[2] ELSE {})
        \* s2: the earliest instant under the strict reading of "saw multicast" (every multicast of the record, also one whose
        \* loopback the duplicate guard dropped)
        /\ obl' = obl \cup {[r |-> r, qt |-> now, lo |-> now + 20, hi |-> now + 500, st |-> "open",
                              s2 |-> IF now - lastTx[r] < 1000 THEN lastTx[r] + 1000 ELSE 0] : r \in agg}
                      \cup {[r |-> r, qt |-> now, lo |-> Max2(lastMc[r] + 1000, now + 20), hi |-> now + 1200, st |-> "open",
                              s2 |-> IF now - lastTx[r] < 1000 THEN lastTx[r] + 1000 ELSE 0] : r \in prot}
        /\ hist' = Append(hist, [k |-> "q", t |-> now, recs |-> S, j1 |-> IF agg # {} THEN j1 ELSE 0, j2 |-> IF prot # {} THEN j2 ELSE 0])
  /\ envDone' = envDone \cup {now}
  /\ lastRx' = [k |-> "q", key |-> {}, t |-> now]              \* every query of the environment has its own message id
  /\ UNCHANGED <<now, reg, lastMc, lastTx, gone, gbs, slog, bad>>

Skip ==
  /\ now \in EnvTimes /\ now \notin envDone /\ bad = ""
  /\ envDone' = envDone \cup {now}
  /\ UNCHANGED <<now, reg, lastMc, lastTx, lastRx, q, timers, obl, gone, gbs, hist, slog, bad>>

(* ---------------------------------------------------------------- unregister *)
Strip(Q, R) == [k \in 1..Len(Q) |-> [Q[k] EXCEPT !.recs = @ \ R]]
Unregister(r) ==
  /\ AllowUnreg /\ now \in EnvTimes /\ now \notin envDone /\ bad = ""
  /\ r \in reg
  /\ reg' = reg \ {r}
  /\ gbs' = gbs \cup {<<r, now + 125>>, <<r, now + 250>>}
  /\ gone' = [gone EXCEPT ![r] = now + 250]
  /\ q' = IF Purge THEN <<Strip(q[1], {r}), Strip(q[2], {r})>> ELSE q
  /\ obl' = {[o EXCEPT !.st = IF o.r = r /\ o.st = "open" THEN "cov" ELSE o.st] : o \in obl}
  /\ envDone' = envDone \cup {now}
  /\ hist' = Append(hist, [k |-> "u", t |-> now, recs |-> {r}, j1 |-> 0, j2 |-> 0])
  /\ lastRx' = [k |-> "g", key |-> {r}, t |-> now]            \* loopback of the first goodbye
  /\ UNCHANGED <<now, lastMc, lastTx, timers, slog, bad>>

Goodbye ==
  /\ \E g \in gbs : g[2] = now
  /\ gbs' = {g \in gbs : g[2] # now}
  /\ LET R == {g[1] : g \in {x \in gbs : x[2] = now}}
         same == lastRx.k = "g" /\ lastRx.key = R /\ now - 1000 < lastRx.t
     IN lastRx' = IF same THEN lastRx ELSE [k |-> "g", key |-> R, t |-> now]
  /\ UNCHANGED <<now, reg, lastMc, lastTx, q, timers, obl, gone, envDone, hist, slog, bad>>

(* ---------------------------------------------------------------- async_ready and the contract at a multicast *)
OCand(r, t) == {o \in obl : o.r = r /\ o.st # "used" /\ o.qt <= t /\ o.lo <= t /\ t <= o.hi}
OwnObl(r, t) == CHOOSE o \in OCand(r, t) : \A p \in OCand(r, t) : o.hi <= p.hi
SendClause(A) ==
  IF \E r \in A : r \notin reg /\ gone[r] >= 0 /\ gone[r] < now THEN "NoResurrection"
  ELSE IF \E r \in A : OCand(r, now) = {} THEN "NoUnsolicited"
  ELSE ""
\* strict reading: some record of the batch may not go out yet under any of its obligations
StrictClause(A) == CheckStrict /\ \E r \in A : OCand(r, now) # {} /\ \A o \in OCand(r, now) : now < o.s2
Discharged(A) == {IF o.r \in A /\ o.st # "used" /\ OCand(o.r, now) # {}
                  THEN (IF o = OwnObl(o.r, now) THEN [o EXCEPT !.st = "used"] ELSE [o EXCEPT !.st = "cov"])
                  ELSE o : o \in obl}

RECURSIVE DueCount(_, _)
DueCount(Q, k) == IF k <= Len(Q) /\ Q[k].after <= now THEN DueCount(Q, k + 1) ELSE k - 1

Ready(i) ==
  /\ <<i, now>> \in timers /\ bad = ""
  /\ LET Q == q[i]
         t0 == timers \ {<<i, now>>}
     IN IF Len(Q) > 1 /\ Q[1].before > now
        THEN /\ timers' = t0 \cup {<<i, Q[1].before>>}
             /\ UNCHANGED <<q, obl, lastMc, lastTx, lastRx, slog, bad>>
        ELSE LET n == DueCount(Q, 1)
                 A == UNION {Q[k].recs : k \in 1..n}
                 rest == SubSeq(Q, n + 1, Len(Q))
             IN /\ timers' = t0 \cup (IF rest # <<>> THEN {<<i, rest[1].after>>} ELSE {})
                /\ q' = [q EXCEPT ![i] = IF A # {} THEN Strip(rest, A) ELSE rest]
                /\ IF A = {} THEN UNCHANGED <<obl, lastMc, lastTx, lastRx, slog, bad>>
                   ELSE LET same == lastRx.k = "s" /\ lastRx.key = A /\ now - 1000 < lastRx.t IN   \* loopback dropped as a duplicate
                        /\ bad' = IF SendClause(A) # "" THEN SendClause(A) ELSE IF StrictClause(A) THEN "Strict" ELSE ""
                        /\ obl' = Discharged(A)
                        /\ lastTx' = [r \in Recs |-> IF r \in A THEN now ELSE lastTx[r]]
                        /\ lastMc' = IF same THEN lastMc ELSE [r \in Recs |-> IF r \in A THEN now ELSE lastMc[r]]
                        /\ lastRx' = IF same THEN lastRx ELSE [k |-> "s", key |-> A, t |-> now]
                        /\ slog' = Append(slog, [t |-> now, recs |-> A])
  /\ UNCHANGED <<now, reg, gone, gbs, envDone, hist>>

(* ---------------------------------------------------------------- time *)
Instants == {t[2] : t \in timers} \cup (EnvTimes \ envDone) \cup {g[2] : g \in gbs}
            \cup {o.hi + 1 : o \in {x \in obl : x.st = "open"}}
Pending == \/ \E t \in timers : t[2] = now
           \/ (now \in EnvTimes /\ now \notin envDone)
           \/ \E g \in gbs : g[2] = now
Tick ==
  /\ ~Pending /\ bad = "" /\ now < Horizon
  /\ \E t \in Instants : t > now /\ (\A u \in Instants : u > now => t <= u) /\ now' = t
  \* obligations that can no longer matter are forgotten
  /\ obl' = {o \in obl : o.st = "open" \/ o.hi >= now'}
  /\ UNCHANGED <<reg, lastMc, lastTx, lastRx, q, timers, gone, gbs, envDone, hist, slog, bad>>

Next == \/ \E i \in 1..2 : Ready(i)
        \/ Goodbye \/ Skip \/ Tick
        \/ \E S \in SUBSET Recs, j1 \in Jitters, j2 \in Jitters : Query(S, j1, j2)
        \/ \E r \in Recs : Unregister(r)
Spec == Init /\ [][Next]_vars

(* simulation / replay support: print each complete behaviour (environment history, predicted multicast answers) *)
Done == now >= Horizon \/ (~Pending /\ \A t \in Instants : t <= now)
EmitBehaviour == IF Done /\ bad = "" THEN PrintT(<<"BEHAVIOUR", hist, slog>>) ELSE TRUE

(* ---------------------------------------------------------------- invariants *)
NoBad == bad = ""
NoOverdue == ~\E o \in obl : o.st = "open" /\ o.hi < now
TimersCoverQueues == \A i \in 1..2 : q[i] # <<>> => \E t \in timers : t[1] = i /\ t[2] >= now     \* a non-empty queue has a timer
=============================================================================
