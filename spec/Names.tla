-------------------------------- MODULE Names --------------------------------
(* Contract of the service-name validator and of the TXT property codec (property C19).
   Transcribed from the docstring of service_type_name and RFC 6763 sections 4.1, 6, 7, 7.2 --
   not from the code.  Strings are sequences of Unicode code points, byte strings are
   sequences of 0..255.

   Validate(s, strict) returns [res, type]:
     res = "ok"      the name is one of the documented forms; type = expected return value
     res = "bad"     must be rejected with BadTypeInNameException
     res = "either"  outside the documented domain (empty labels inside the instance part, the
                     bare ".local." form whose return value the documentation does not define):
                     accepting or rejecting with BadTypeInNameException are both fine -- any
                     other exception is not.                                                  *)
EXTENDS Integers, Sequences, FiniteSets

Dot == 46
Hyphen == 45
Underscore == 95
IsLetter(c) == (c >= 65 /\ c <= 90) \/ (c >= 97 /\ c <= 122)
IsDigit(c) == c >= 48 /\ c <= 57
IsCtrl(c) == c <= 31 \/ c = 127
Utf8Len(c) == IF c < 128 THEN 1 ELSE IF c < 2048 THEN 2 ELSE IF c < 65536 THEN 3 ELSE 4

TcpTrailer == <<46, 95, 116, 99, 112, 46, 108, 111, 99, 97, 108, 46>>     \* "._tcp.local."
UdpTrailer == <<46, 95, 117, 100, 112, 46, 108, 111, 99, 97, 108, 46>>    \* "._udp.local."
LocalTrailer == <<46, 108, 111, 99, 97, 108, 46>>                         \* ".local."
SubLabel == <<95, 115, 117, 98>>                                          \* "_sub"

EndsWith(s, t) == Len(s) >= Len(t) /\ SubSeq(s, Len(s) - Len(t) + 1, Len(s)) = t

RECURSIVE SplitFrom(_, _, _)
SplitFrom(s, i, cur) ==
  IF i > Len(s) THEN <<cur>>
  ELSE IF s[i] = Dot THEN <<cur>> \o SplitFrom(s, i + 1, <<>>)
  ELSE SplitFrom(s, i + 1, Append(cur, s[i]))
Split(s) == SplitFrom(s, 1, <<>>)          \* like str.split('.'): "" -> <<"">>

RECURSIVE SumUtf8(_, _)
SumUtf8(s, i) == IF i > Len(s) THEN 0 ELSE Utf8Len(s[i]) + SumUtf8(s, i + 1)

RECURSIVE JoinDots(_, _)
JoinDots(ls, i) == IF i > Len(ls) THEN <<>>
                   ELSE IF i = Len(ls) THEN ls[i] ELSE ls[i] \o <<Dot>> \o JoinDots(ls, i + 1)

Res(r, t) == [res |-> r, type |-> t]
BadR == Res("bad", <<>>)

(* RFC 6335 / RFC 6763 7: the service label without its leading underscore *)
ServiceBodyOk(body, strict) ==
  /\ body # <<>>
  /\ strict => Len(body) <= 15
  /\ ~(\E i \in 1..(Len(body) - 1) : body[i] = Hyphen /\ body[i + 1] = Hyphen)
  /\ body[1] # Hyphen /\ body[Len(body)] # Hyphen
  /\ \E i \in 1..Len(body) : IsLetter(body[i])
  /\ \A i \in 1..Len(body) : IsLetter(body[i]) \/ IsDigit(body[i]) \/ body[i] = Hyphen \/ (~strict /\ body[i] = Underscore)

(* everything in front of the service label: optional "<sub>._sub", otherwise one instance label
   that may contain dots *)
InstancePart(front, okType) ==
  LET hasSub == Len(front) >= 1 /\ front[Len(front)] = SubLabel
      inst == IF hasSub THEN SubSeq(front, 1, Len(front) - 1) ELSE front
      joined == JoinDots(inst, 1)
  IN IF hasSub /\ inst = <<>> THEN BadR                                 \* "_sub requires a subtype name"
     ELSE IF inst = <<>> THEN okType
     ELSE IF SumUtf8(joined, 1) > 63 THEN BadR                          \* RFC 6763 4.1.1: up to 63 octets
     ELSE IF \E i \in 1..Len(joined) : IsCtrl(joined[i]) THEN BadR
     ELSE IF \E k \in 1..Len(inst) : inst[k] = <<>> THEN Res("either", <<>>)   \* empty label: not a documented form
     ELSE okType

Validate(s, strict) ==
  IF Len(s) > 256 THEN BadR
  ELSE LET hasProto == EndsWith(s, TcpTrailer) \/ EndsWith(s, UdpTrailer) IN
    IF ~hasProto /\ strict THEN BadR
    ELSE IF ~hasProto /\ ~EndsWith(s, LocalTrailer) THEN BadR
    ELSE IF ~hasProto
         THEN \* non-strict bare ".local." form: accepted when the instance rules hold; return value undefined
              LET r == InstancePart(Split(SubSeq(s, 1, Len(s) - Len(LocalTrailer))), Res("either", <<>>)) IN r
    ELSE LET labels == Split(SubSeq(s, 1, Len(s) - Len(TcpTrailer)))
             svc == labels[Len(labels)]
             front == SubSeq(labels, 1, Len(labels) - 1)
             trailer == SubSeq(s, Len(s) - Len(TcpTrailer) + 1, Len(s))
         IN IF svc = <<>> THEN BadR
            ELSE IF svc[1] # Underscore THEN BadR
            ELSE IF ~ServiceBodyOk(Tail(svc), strict) THEN BadR
            ELSE InstancePart(front, Res("ok", svc \o trailer))

(* ------------------------------------------------------------------ TXT (RFC 6763 6) *)
(* item: [k |-> bytes, hasv |-> BOOLEAN, v |-> bytes] *)
EncItem(it) == IF it.hasv THEN it.k \o <<61>> \o it.v ELSE it.k
RECURSIVE EncodeFrom(_, _)
EncodeFrom(items, i) == IF i > Len(items) THEN <<>>
                        ELSE <<Len(EncItem(items[i]))>> \o EncItem(items[i]) \o EncodeFrom(items, i + 1)
EncodeTxt(items) == EncodeFrom(items, 1)

IndexOfEq(b) == IF \E i \in 1..Len(b) : b[i] = 61 THEN CHOOSE i \in 1..Len(b) : b[i] = 61 /\ \A j \in 1..(i - 1) : b[j] # 61 ELSE 0
DecItem(b) == LET e == IndexOfEq(b) IN
              IF e = 0 THEN [k |-> b, hasv |-> FALSE, v |-> <<>>]
              ELSE [k |-> SubSeq(b, 1, e - 1), hasv |-> TRUE, v |-> SubSeq(b, e + 1, Len(b))]
RECURSIVE DecodeFrom(_, _, _)
DecodeFrom(t, i, acc) ==
  IF i > Len(t) THEN acc
  ELSE LET n == t[i]
           raw == SubSeq(t, i + 1, IF i + n > Len(t) THEN Len(t) ELSE i + n)
           it == DecItem(raw)
       IN DecodeFrom(t, i + 1 + n,
                     IF \E j \in 1..Len(acc) : acc[j].k = it.k THEN acc ELSE Append(acc, it))   \* first occurrence wins
DecodeTxt(t) == DecodeFrom(t, 1, <<>>)

(* the library reads an empty value back as no value (stated in the property) *)
NormItem(it) == IF it.hasv /\ it.v = <<>> THEN [k |-> it.k, hasv |-> FALSE, v |-> <<>>] ELSE it
RECURSIVE NormFrom(_, _, _)
NormFrom(items, i, acc) ==
  IF i > Len(items) THEN acc
  ELSE NormFrom(items, i + 1, IF \E j \in 1..Len(acc) : acc[j].k = items[i].k THEN acc ELSE Append(acc, NormItem(items[i])))
Norm(items) == NormFrom(items, 1, <<>>)
NormSeq(s) == [j \in 1..Len(s) |-> NormItem(s[j])]
=============================================================================
