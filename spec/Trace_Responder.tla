--------------------------- MODULE Trace_Responder ---------------------------
(* Code -> spec binding for the responder family:
     C03  what is answered        (registry x question x known answers -> answer set, additionals, TTLs)
     C11  how replies are routed  (legacy unicast, QU, probes, multicast format)
     C12  when replies leave      (at once / 20-500 ms / one-second protection / TC assembly)
     C08  goodbyes                (three complete goodbyes, no resurrection afterwards)

   Input: { own, traces: [{id, recs:[{id, rr, type, nb, ptr}], enum_nb, events}] } recorded by
   props/respfam.py.  Records are interned per trace (rid); `recs` describes them.  The registry is
   reconstructed from the logged API calls; "when did this host last see record r multicast" is the
   cache contract (CacheOps!IngestX) applied to the responses the host *received* (its own multicasts
   come back through the link), because that is what RFC 6762 5.4 / 14 are about.

   Multicast timing is a set of obligations [r, qn, qt, lo, hi, cls, st]:
     a multicast answer r sent at t needs an unused obligation for r with qt <= t, lo <= t <= hi;
     among several it uses the one with the earliest deadline (EDF is optimal for matching points
     to intervals) and *covers* all others issued up to t (they no longer impose a deadline but may
     still justify a later send of their own: the two aggregation queues do not de-duplicate against
     each other);  time may not pass hi of an open obligation.                                     *)
EXTENDS CacheOps, Json, IOUtils, TLC, TLCExt

ASSUME TLCSet(42, JsonDeserialize(IOEnv.TRACE_FILE))
D == TLCGet(42)
Traces == D.traces
N == Len(Traces)

VARIABLES tid, l, s
vars == <<tid, l, s>>

Recs == Traces[tid].recs
Rids == 1..Len(Recs)
RR(i) == Recs[i].rr
IsPtr(i) == Recs[i].ptr
EnumNb == Traces[tid].enum_nb
ToSet(q) == {q[k] : k \in 1..Len(q)}
Max(a, b) == IF a > b THEN a ELSE b

TPTR == 12   TA == 1   TAAAA == 28   TSRV == 33   TTXT == 16   TANY == 255   TNSEC == 47
MDNS == 5353

ClausesOf ==
  [C03 |-> {"C03_MissingAnswer", "C03_UnexpectedAnswer", "C03_ConfiguredTtl", "C03_AdditionalsOwn", "C03_AdditionalRepeatsAnswer"},
   C11 |-> {"C11_ProbeImmediate", "C11_UnicastReply", "C11_UnicastEcho", "C11_NoFlushInUnicast", "C11_SameSocket", "C11_UnexpectedUnicast",
            "C11_MulticastFormat", "C11_WellFormedReply", "C11_QuRouting", "C11_LegacyAlsoMulticast"},
   C12 |-> {"C12_NoEarlyOrUnsolicited", "C12_AnsweredAtOnce", "C12_By500", "C12_ProtectedBy1200", "C12_NoDuplicateInBatch"},
   C12A |-> {"C12_AdditionalWithinSecond"},
   C12S |-> {"C12_OneSecondAfterAnySighting"},
   C08 |-> {"C08_GoodbyeComplete", "C08_NoResurrection", "C08_AnnouncementComplete"},
   C15 |-> {"C15_NoException", "C15_OversizeIgnored", "C15_InvalidIgnored", "C15_CanaryAdded", "C15_CanaryAnswered"},
   C17 |-> {"C17_Quiet", "C17_GoodbyesBeforeClose", "C17_Idempotent", "C17_NoTimerRaises", "C17_AnnouncedNotWithdrawn"},
   C09 |-> {"C09_ProbeSchedule", "C09_ProbeShape", "C09_ConflictDetected", "C09_Rename", "C09_SpuriousFailure", "C09_WrongException",
            "C09_NeverTwice", "C09_NeverAnnounced", "C09_AnnouncedBeforeProbing", "C09_AnnouncementComplete"}]
\* loop latency the scenarios of this batch inject on purpose (a callback that keeps the loop busy): the announcement and goodbye
\* sequences may be that many milliseconds late.  Only the C17 scenarios do so.
Slack == IF "slack" \in DOMAIN D THEN D.slack ELSE 0
Own(clause) == \/ D.own = "ALL" \/ clause \in {"Trace_Malformed", "C15_NoException"} \/ clause \in ClausesOf[D.own]
Bad(cond, clause) == cond /\ Own(clause)
Fail(st, clause) == [st EXCEPT !.err = clause]

NoSvc == [sid |-> -1]
NoExp == [on |-> FALSE, canary |-> FALSE, u |-> {}, uopt |-> {}, dst |-> 0, port |-> 0, sock |-> 0, id |-> 0, qs |-> <<>>, legacy |-> FALSE, done |-> FALSE, t |-> -1]

(* registration in progress (RFC 6762 8.1): candidate k of cands is being probed since instant r, i probes seen *)
NoProbe == [on |-> FALSE, sid |-> -1, cands |-> <<>>, k |-> 1, r |-> 0, i |-> 0, rename |-> FALSE, exact |-> {}, fail |-> FALSE]

InitState ==
  [reg |-> [k \in 0..7 |-> NoSvc], seen |-> <<>>, tx |-> <<>>, lastDid |-> 0, lastProc |-> -100000, lastQU |-> FALSE,
   obl |-> {}, qn |-> 0, slots |-> {}, gone |-> {}, exp |-> NoExp, hold |-> {}, inRecv |-> FALSE,
   lastTcSrc |-> 0, oversize |-> FALSE, invalid |-> FALSE, added |-> {}, closed |-> FALSE, closing |-> FALSE, cut |-> FALSE, annc |-> {}, pr |-> NoProbe, pendReg |-> NoSvc, rejected |-> {}, again |-> <<>>, err |-> ""]

(* ------------------------------------------------------------------ registry *)
Sids(st) == {k \in 0..7 : st.reg[k] # NoSvc}
SvcRecs(v) == {v.ptr, v.srv, v.txt} \cup ToSet(v.a4) \cup ToSet(v.a6) \cup (IF v.nsec # 0 THEN {v.nsec} ELSE {})
AddrNsec(v) == ToSet(v.a4) \cup ToSet(v.a6) \cup (IF v.nsec # 0 THEN {v.nsec, v.nsecAlt} ELSE {})
Owned(st) == UNION {SvcRecs(st.reg[k]) \cup {st.reg[k].nsecAlt, st.reg[k].enum} : k \in Sids(st)}
TtlOf(v, r) == IF r \in {v.ptr, v.txt} THEN v.ottl ELSE v.httl
TtlsOf(st, r) == {TtlOf(st.reg[k], r) : k \in {j \in Sids(st) : r \in SvcRecs(st.reg[j]) \cup {st.reg[j].nsecAlt}}}
                 \cup (IF \E k \in Sids(st) : st.reg[k].enum = r THEN {4500} ELSE {})
(* additional records that may ride along with answer r: only that service's own records *)
AddsOf(v, r) == IF r = v.ptr THEN (SvcRecs(v) \cup {v.nsecAlt}) \ {v.ptr}
                ELSE IF r = v.srv THEN AddrNsec(v)
                ELSE IF r \in ToSet(v.a4) \cup ToSet(v.a6) THEN AddrNsec(v)
                ELSE {}
AllowedAdds(st, rs) == UNION {AddsOf(st.reg[k], r) : k \in Sids(st), r \in rs}

(* the answer set of one question (RFC 6763 9, 12.1, 12.2; RFC 6762 6.1), before known-answer suppression.
   A missing address family is answered by the service's NSEC record; owner name of the NSEC record
   is the host (RFC) or the instance (library): either id is accepted, see NsecEquiv.               *)
AnsFor(st, q) ==
  LET nb == q[1]
      ty == q[2]
      S == Sids(st)
  IN IF ty = TPTR /\ nb = EnumNb THEN {st.reg[k].enum : k \in S}
     ELSE (IF ty \in {TPTR, TANY} THEN {st.reg[k].ptr : k \in {j \in S : st.reg[j].type = nb}} ELSE {})
          \cup (IF ty \in {TSRV, TANY} THEN {st.reg[k].srv : k \in {j \in S : st.reg[j].name = nb}} ELSE {})
          \cup (IF ty \in {TTXT, TANY} THEN {st.reg[k].txt : k \in {j \in S : st.reg[j].name = nb}} ELSE {})
          \cup (IF ty = TA THEN UNION {IF st.reg[k].a4 # <<>> THEN ToSet(st.reg[k].a4) ELSE {st.reg[k].nsec}
                                       : k \in {j \in S : st.reg[j].host = nb}} ELSE {})
          \cup (IF ty = TAAAA THEN UNION {IF st.reg[k].a6 # <<>> THEN ToSet(st.reg[k].a6) ELSE {st.reg[k].nsec}
                                          : k \in {j \in S : st.reg[j].host = nb}} ELSE {})
(* known-answer suppression: the querier already holds r with more than half of its TTL *)
(* a querier may list the same record more than once (continuation packets, a follow-up query merged into a held
   train) with different remaining TTLs: the answer must be suppressed when every listing has more than half of the
   TTL, must be given when none has, and is optional otherwise *)
MustSuppress(st, known, r) == /\ \E p \in known : p[1] = r
                              /\ \A p \in {x \in known : x[1] = r} : \A ttl \in TtlsOf(st, r) : 2 * p[2] > ttl
MaySuppress(st, known, r) == \E p \in known : p[1] = r /\ \A ttl \in TtlsOf(st, r) : 2 * p[2] > ttl
Canon(st, r) == IF \E k \in Sids(st) : st.reg[k].nsecAlt = r /\ r # 0
                THEN (CHOOSE k \in Sids(st) : st.reg[k].nsecAlt = r) ELSE -1
NsecCanon(st, r) == IF Canon(st, r) >= 0 THEN st.reg[Canon(st, r)].nsec ELSE r    \* host-owned NSEC counts as the instance-owned one

\* "seen multicast within a quarter of its TTL": the TTL the record is registered with -- not the TTL of the cached copy, which
\* for a pointer is raised to the 1125 s floor (until fix D24 the code took the cached copy's)
Recent(st, r, t) == st.seen[r] # None /\ \E ttl \in TtlsOf(st, r) : st.seen[r].c + 250 * ttl > t
LastSecond(st, r, t) == st.seen[r] # None /\ t - st.seen[r].c < 1000

(* ------------------------------------------------------------------ routing of one (assembled) query
   Q = [qs : seq of <<nb, type, qu, class>>, known : set of <<rid, ttl>>, probe, port, tq (arrival of the last
        packet, used for the recency tests), ta (assembly instant, obligations are dated from it), single]   *)
RECURSIVE RouteFrom(_, _, _, _)
RouteFrom(st, Q, k, acc) ==
  IF k > Len(Q.qs) THEN acc
  ELSE LET q == Q.qs[k]
           A == {r \in AnsFor(st, q) : r # 0 /\ ~MustSuppress(st, Q.known, r)}
           O == {r \in A : MaySuppress(st, Q.known, r)}          \* optional answers
           legacy == Q.port # MDNS
           qu == q[3] = 1
           \* "a query consisting of a single SRV, A, AAAA or NSEC question": when a truncated train was assembled the
           \* first packet alone and the train as a whole may disagree on that; then both at-once and aggregated are accepted
           totalSingleImm == Q.single /\ q[2] \in {TSRV, TA, TAAAA, TNSEC}
           immType == totalSingleImm /\ Q.firstSingleImm
           eitherNowOrAgg == totalSingleImm # Q.firstSingleImm
       IN IF ~legacy /\ qu
          THEN RouteFrom(st, Q, k + 1,
                 [acc EXCEPT !.u = @ \cup {r \in A : Q.probe \/ Recent(st, r, Q.tq)},
                             !.now = @ \cup {r \in A : ~Recent(st, r, Q.tq)}, !.opt = @ \cup O])
          ELSE RouteFrom(st, Q, k + 1,
                 [acc EXCEPT !.u = @ \cup (IF legacy THEN A ELSE {}),
                             !.now = @ \cup {r \in A : Q.probe \/ (~LastSecond(st, r, Q.tq) /\ immType)},
                             !.prot = @ \cup {r \in A : ~Q.probe /\ LastSecond(st, r, Q.tq)},
                             !.agg = @ \cup {r \in A : ~Q.probe /\ ~LastSecond(st, r, Q.tq) /\ ~immType /\ ~eitherNowOrAgg},
                             !.lax = @ \cup {r \in A : ~Q.probe /\ ~LastSecond(st, r, Q.tq) /\ ~immType /\ eitherNowOrAgg},
                             !.opt = @ \cup O])
Route(st, Q) == RouteFrom(st, Q, 1, [u |-> {}, now |-> {}, prot |-> {}, agg |-> {}, lax |-> {}, opt |-> {}])

(* s2: the earliest instant at which the record may be multicast again under the strict reading of "a record the host saw
   multicast less than one second before the query arrived": every response datagram that was delivered to the host counts as
   a sighting (st.tx), also one that the listener's duplicate guard dropped before it reached the cache.  Only the clause
   C12_OneSecondAfterAnySighting (pass "C12S") looks at it; all other clauses use the sightings the cache knows (st.seen). *)
S2(st, Q, r) == IF Q.probe THEN 0 ELSE IF Q.tq - st.tx[r] < 1000 THEN st.tx[r] + 1000 ELSE 0
NewOblReq(st, Q, rt) ==
  {[r |-> r, qn |-> st.qn + 1, qt |-> Q.ta, lo |-> Q.ta, hi |-> Q.ta, cls |-> IF Q.probe THEN "probe" ELSE "now", st |-> "open",
    s2 |-> S2(st, Q, r), leg |-> Q.port # MDNS] : r \in rt.now}
  \cup {[r |-> r, qn |-> st.qn + 1, qt |-> Q.ta, lo |-> Q.ta + 20, hi |-> Q.ta + 500, cls |-> "agg", st |-> "open", s2 |-> S2(st, Q, r), leg |-> Q.port # MDNS] : r \in rt.agg}
  \cup {[r |-> r, qn |-> st.qn + 1, qt |-> Q.ta, lo |-> Q.ta, hi |-> Q.ta + 500, cls |-> "agg", st |-> "open", s2 |-> S2(st, Q, r), leg |-> Q.port # MDNS] : r \in rt.lax}
  \cup {[r |-> r, qn |-> st.qn + 1, qt |-> Q.ta, lo |-> Max(st.seen[r].c + 1000, Q.ta + 20), hi |-> Q.ta + 1200, cls |-> "prot", st |-> "open",
          s2 |-> S2(st, Q, r), leg |-> Q.port # MDNS] : r \in rt.prot}

NewObl(st, Q, rt) == {[o EXCEPT !.st = IF o.r \in rt.opt THEN "cov" ELSE "open"] : o \in NewOblReq(st, Q, rt)}

Answer(st, Q, dst, sock, id) ==
  LET rt == Route(st, Q) IN
  [st EXCEPT !.qn = @ + 1,
             !.obl = @ \cup NewObl(st, Q, rt),
             !.exp = [on |-> TRUE, canary |-> FALSE, u |-> rt.u \ rt.opt, uopt |-> rt.u \cap rt.opt, dst |-> dst, port |-> Q.port, sock |-> sock, id |-> id,
                      qs |-> Q.echo, legacy |-> Q.port # MDNS, done |-> FALSE, t |-> Q.ta]]

(* ------------------------------------------------------------------ deadlines *)
\* (C11: a query from another port gets its unicast reply "in addition to the normal multicast": that multicast being
\*  overdue is a C11 matter in the C11 check and a timing matter -- the same deadline -- in the C12 check)
DeadlineClause(o) == IF o.cls = "probe" THEN "C11_ProbeImmediate" ELSE IF o.leg /\ D.own = "C11" THEN "C11_LegacyAlsoMulticast" ELSE IF o.cls = "now" THEN "C12_AnsweredAtOnce" ELSE IF o.cls = "agg" THEN "C12_By500" ELSE "C12_ProtectedBy1200"
Overdue(st, t) == {o \in st.obl : o.st = "open" /\ o.hi < t}
CheckExp(st, t) ==
  IF st.exp.on /\ st.exp.t < t
  THEN IF Bad(st.exp.u # {} /\ ~st.exp.done, "C11_UnicastReply") THEN Fail(st, "C11_UnicastReply") ELSE [st EXCEPT !.exp = NoExp]
  ELSE st

(* truncated queries: held per source address until a non-TC packet arrives or the (logged) hold time is over *)
HoldOf(st, src) == CHOOSE h \in st.hold : h.src = src
Assemble(h, extra) ==
  LET pk == h.pkts \o extra IN
  [qs |-> pk[1].qs, echo |-> pk[1].qs,
   known |-> UNION {IF pk[k].nauth > 0 THEN {} ELSE {<<pk[k].an[j][1], pk[k].an[j][2]>> : j \in 1..Len(pk[k].an)} : k \in 1..Len(pk)},
   probe |-> \E k \in 1..Len(pk) : pk[k].nauth > 0,
   allqs |-> pk, single |-> Len(pk[1].qs) = 1]
TotalQs(pk) == LET RECURSIVE Cnt(_) Cnt(k) == IF k > Len(pk) THEN 0 ELSE Len(pk[k].qs) + Cnt(k + 1) IN Cnt(1)
FirstSingleImm(pk) == Len(pk[1].qs) = 1 /\ pk[1].qs[1][2] \in {TSRV, TA, TAAAA, TNSEC}
AllQs(pk) == LET RECURSIVE Cat(_) Cat(k) == IF k > Len(pk) THEN <<>> ELSE pk[k].qs \o Cat(k + 1) IN Cat(1)

RECURSIVE FireHolds(_, _, _)
FireHolds(st, t, inclusive) ==
  LET due == {h \in st.hold : h.deadline >= 0 /\ (h.deadline < t \/ (inclusive /\ h.deadline = t))} IN
  IF due = {} \/ st.err # "" THEN st
  ELSE LET h == CHOOSE x \in due : \A y \in due : x.deadline <= y.deadline
           a == Assemble(h, <<>>)
           Q == [qs |-> AllQs(h.pkts), echo |-> a.echo, known |-> a.known, probe |-> a.probe, port |-> h.port,
                 tq |-> h.last, ta |-> h.deadline, single |-> TotalQs(h.pkts) = 1, firstSingleImm |-> FirstSingleImm(h.pkts)]
           st1 == Answer([st EXCEPT !.hold = @ \ {h}], Q, h.src, h.sock, h.pkts[1].id)
           \* a hold that fired at an earlier instant: its unicast reply (if any was due) must have been sent then
           st2 == IF h.deadline < t THEN CheckExp(st1, t) ELSE st1
       IN FireHolds(st2, t, inclusive)

PurgeSeen(st, t) ==
  LET b == (t \div 10000) * 10000 IN
  [st EXCEPT !.seen = [i \in Rids |-> IF st.seen[i] # None /\ IsExpired(st.seen[i], b) THEN None ELSE st.seen[i]]]

Pre(st00, e, alt) ==
  LET t == e.t
      st0 == PurgeSeen(st00, t)
      stc == CheckExp(st0, t)
      \* a hold whose time is up exactly now has fired iff its effects (a jitter draw for the aggregation queue,
      \* a datagram) show up outside any receive bracket
      st2 == IF stc.err # "" THEN stc
             ELSE FireHolds(stc, t, alt = 1 \/ (~stc.inRecv /\ ~stc.exp.on /\ (e.ev = "send" \/ (e.ev = "rand" /\ e.site = "resp"))))
  IN IF st2.err # "" THEN st2
     ELSE IF Overdue(st2, t) # {}
          THEN LET o == CHOOSE x \in Overdue(st2, t) : TRUE IN
               IF Bad(TRUE, DeadlineClause(o)) THEN Fail(st2, DeadlineClause(o))
               \* the timing clauses belong to C12 / C11; the answer itself is still owed (C03): it is "late" for two more seconds
               ELSE [st2 EXCEPT !.obl = {IF x.st = "open" /\ x.hi < t THEN [x EXCEPT !.st = "late"] ELSE x : x \in @}]
     ELSE IF \E x \in st2.obl : x.st = "late" /\ x.hi + 2000 < t
          THEN IF Bad(TRUE, "C03_MissingAnswer") THEN Fail(st2, "C03_MissingAnswer")
               ELSE [st2 EXCEPT !.obl = {x \in @ : ~(x.st = "late" /\ x.hi + 2000 < t)}]
     ELSE [st2 EXCEPT !.obl = {x \in @ : x.hi + 2000 >= t /\ x.st # "used"},
                      !.slots = {x \in @ : x.t + 2000 >= t}]

(* ------------------------------------------------------------------ API *)
Broadcast(v, zero) ==
  {<<v.ptr, IF zero THEN 0 ELSE v.ottl>>, <<v.srv, IF zero THEN 0 ELSE v.httl>>, <<v.txt, IF zero THEN 0 ELSE v.ottl>>}
  \cup {<<r, IF zero THEN 0 ELSE v.httl>> : r \in ToSet(v.a4) \cup ToSet(v.a6) \cup (IF v.nsec # 0 THEN {v.nsec} ELSE {})}
GoodbyeSet(st, v) ==
  {<<v.ptr, 0>>, <<v.srv, 0>>, <<v.txt, 0>>}
  \cup (IF \E k \in Sids(st) : st.reg[k].host = v.host /\ st.reg[k].sid # v.sid THEN {}
        ELSE {<<r, 0>> : r \in ToSet(v.a4) \cup ToSet(v.a6) \cup (IF v.nsec # 0 THEN {v.nsec} ELSE {})})

(* ------------------------------------------------------------------ registration (C09) *)
Cand(st) == st.pr.cands[st.pr.k]
(* the cache holds a non-expired pointer type -> candidate name in the same spelling *)
Conflict(st, t) == /\ (st.pr.k - 1) \in st.pr.exact
                   /\ st.seen[Cand(st).ptr] # None /\ ~IsExpired(st.seen[Cand(st).ptr], t)
RECURSIVE Settle(_, _)
Settle(st, t) ==
  IF st.pr.on /\ ~st.pr.fail /\ st.pr.i < 3 /\ st.pr.k <= Len(st.pr.cands) /\ Conflict(st, t)
  THEN IF ~st.pr.rename THEN [st EXCEPT !.pr.fail = TRUE, !.rejected = @ \cup {Cand(st).ptr}]
       ELSE IF st.pr.k = Len(st.pr.cands) THEN st
       ELSE Settle([st EXCEPT !.pr.k = @ + 1, !.pr.r = t, !.pr.i = 0, !.rejected = @ \cup {Cand(st).ptr}], t)
  ELSE st

OnProbe(st, e) ==
  IF st.again # <<>> THEN st
  ELSE IF Bad(~st.pr.on \/ st.pr.fail \/ st.pr.i >= 3 \/ e.t # st.pr.r + 175 * st.pr.i, "C09_ProbeSchedule") THEN Fail(st, "C09_ProbeSchedule")
  ELSE IF ~st.pr.on THEN st
  ELSE LET c == Cand(st) IN
       IF Bad(~e.mc \/ Len(e.qs) # 1 \/ Len(e.ns) # 1 \/ e.an # <<>> \/ e.ar # <<>> \/ e.tc, "C09_ProbeShape") THEN Fail(st, "C09_ProbeShape")
       ELSE IF Bad(Len(e.qs) = 1 /\ Len(e.ns) = 1 /\
                   (e.qs[1] # <<c.type, TPTR, 1, 1, 0>> \/ e.ns[1][1] # c.ptr \/ e.ns[1][2] # c.ottl), "C09_ProbeShape") THEN Fail(st, "C09_ProbeShape")
       ELSE [st EXCEPT !.pr.i = @ + 1]

ProbeOverdue(st, t) == st.pr.on /\ ~st.pr.fail /\ (IF st.pr.i < 3 THEN t > st.pr.r + 175 * st.pr.i ELSE t > st.pr.r + 350)

AddService(st, v, t, kind) ==
  [st EXCEPT !.reg[v.sid] = v,
             !.slots = @ \cup {[t |-> t + d, kind |-> kind, set |-> Broadcast(v, FALSE), used |-> FALSE] : d \in {0, 225, 450}},
             !.gone = {g \in @ : g[1] \notin SvcRecs(v)},
             !.rejected = @ \ SvcRecs(v)]

OnApiRet(st, e) ==
  IF e.op = "close" /\ "cut" \in DOMAIN e
  \* the application cancelled the close half way (asyncio.wait_for with a deadline): the goodbyes that were still to come are
  \* not owed any more -- every record has been withdrawn once --, the instance stays in its closing state until it is closed
  \* again, and that close has to finish the job
  \* (what an announcement sequence that was still running multicasts from here on is the consequence of the cancellation, not
  \* of the close that follows: it is not collected for C17_AnnouncedNotWithdrawn)
  THEN [st EXCEPT !.slots = {x \in @ : x.kind # "bye" \/ x.used \/ x.t < e.t}, !.closing = FALSE, !.cut = TRUE, !.annc = {}]
  ELSE IF e.op = "close"
  THEN IF Bad(~e.ok, "C17_Idempotent") THEN Fail(st, "C17_Idempotent")
       ELSE IF Bad(\E x \in st.slots : x.kind = "bye" /\ ~x.used, "C17_GoodbyesBeforeClose") THEN Fail(st, "C17_GoodbyesBeforeClose")
       \* whatever was multicast as live while the instance was closing (the announcements of a registration that completed
       \* after the close request) has been withdrawn again by the time close returns
       ELSE IF Bad(st.annc # {}, "C17_AnnouncedNotWithdrawn") THEN Fail(st, "C17_AnnouncedNotWithdrawn")
       ELSE [st EXCEPT !.closed = TRUE, !.closing = FALSE, !.annc = {}, !.obl = {}, !.slots = {}, !.exp = NoExp]
  ELSE IF st.closed \/ st.closing \/ st.cut THEN st           \* a registration that was in flight when the instance closed: not judged
  ELSE IF e.op # "reg" THEN st
  ELSE IF st.again # <<>>
  THEN LET st1 == [st EXCEPT !.again = <<>>]
           held == \E k \in Sids(st) : st.reg[k].name = e.final
       IN IF ~e.ok THEN st1
          ELSE IF Bad(held, "C09_NeverTwice") THEN Fail(st, "C09_NeverTwice")
          ELSE IF \E k \in 1..Len(st.again) : st.again[k].name = e.final
               THEN AddService(st1, [(st.again[CHOOSE k \in 1..Len(st.again) : st.again[k].name = e.final]) EXCEPT !.sid = e.sid], e.t, "ann")
               ELSE IF Bad(TRUE, "C09_Rename") THEN Fail(st, "C09_Rename") ELSE st1
  ELSE IF st.pr.on /\ e.sid = st.pr.sid
  THEN LET st1 == [st EXCEPT !.pr = NoProbe] IN
       IF e.ok
       THEN IF Bad(st.pr.fail \/ st.pr.i # 3, "C09_ConflictDetected") THEN Fail(st, "C09_ConflictDetected")
            ELSE IF Bad(e.final # Cand(st).name, "C09_Rename") THEN Fail(st, "C09_Rename")
            ELSE IF Bad(e.t # st.pr.r + 350, "C09_ProbeSchedule") THEN Fail(st, "C09_ProbeSchedule")
            ELSE AddService(st1, [Cand(st) EXCEPT !.sid = e.sid], e.t, "ann9")
       ELSE IF Bad(~st.pr.fail, "C09_SpuriousFailure") THEN Fail(st, "C09_SpuriousFailure")
            ELSE IF Bad(e.exc \notin {"NonUniqueNameException", "ServiceNameAlreadyRegistered"}, "C09_WrongException") THEN Fail(st, "C09_WrongException")
            ELSE st1
  ELSE LET v == st.pendReg
           st1 == [st EXCEPT !.pendReg = NoSvc]
           held == \E k \in Sids(st) : st.reg[k].name = v.name
       IN IF e.ok
          THEN IF Bad(held, "C09_NeverTwice") THEN Fail(st, "C09_NeverTwice") ELSE AddService(st1, v, e.t, "ann")
          ELSE IF Bad(~held, "C09_SpuriousFailure") THEN Fail(st, "C09_SpuriousFailure")
               ELSE IF Bad(e.exc # "ServiceNameAlreadyRegistered", "C09_WrongException") THEN Fail(st, "C09_WrongException")
               \* nothing of the refused description is ever announced (C09_NeverAnnounced); what the registered services own is
               ELSE [st1 EXCEPT !.rejected = @ \cup (SvcRecs(v) \ Owned(st))]

OnApi(st, e) ==
  CASE e.op = "reg" ->
         IF e.again THEN [st EXCEPT !.again = e.cands]      \* a name this instance may already hold: only the outcome is judged
         ELSE IF e.coop THEN [st EXCEPT !.pendReg = e.svc]
         ELSE Settle([st EXCEPT !.pr = [on |-> TRUE, sid |-> e.svc.sid, cands |-> e.cands, k |-> 1, r |-> e.t, i |-> 0, rename |-> e.rename,
                                        exact |-> ToSet(e.exact), fail |-> FALSE]], e.t)
    [] e.op = "upd" ->
         LET v == e.svc
             st1 == [st EXCEPT !.reg[v.sid] = v]
         IN
         [st1 EXCEPT !.slots = @ \cup {[t |-> e.t + d, kind |-> "ann", set |-> Broadcast(v, FALSE), used |-> FALSE] : d \in {0, 225, 450}},
                     !.gone = {g \in @ : g[1] \notin SvcRecs(v)},
                     \* answers owed for records of the replaced version are no longer owed: records that are gone, and records
                     \* whose configured TTL changed (the queued copy is stale; the announcement at this instant carries the new one)
                     !.obl = {[o EXCEPT !.st = IF o.st \in {"open", "late"} /\ (o.r \notin Owned(st1) \/ TtlsOf(st1, o.r) # TtlsOf(st, o.r))
                                              THEN "cov" ELSE o.st] : o \in @}]
    [] e.op = "mut" ->
         \* the application changed the addresses of the registered description in place: from now on the service's address
         \* records are the new ones (nothing is announced, nothing is withdrawn)
         LET v == e.svc
             st1 == [st EXCEPT !.reg[v.sid] = v]
         IN [st1 EXCEPT !.obl = {[o EXCEPT !.st = IF o.st \in {"open", "late"} /\ o.r \notin Owned(st1) THEN "cov" ELSE o.st] : o \in @}]
    [] e.op = "unreg" ->
         LET v == st.reg[e.sid]
             st1 == [st EXCEPT !.reg[e.sid] = NoSvc]
             gs == GoodbyeSet(st1, v)
         IN [st1 EXCEPT !.slots = @ \cup {[t |-> e.t + d, kind |-> "bye", set |-> gs, used |-> FALSE] : d \in {0, 125, 250}},
                        !.gone = @ \cup {<<p[1], e.t + 250>> : p \in gs},
                        !.obl = {[o EXCEPT !.st = IF o.st \in {"open", "late"} /\ o.r \notin Owned(st1) THEN "cov" ELSE o.st] : o \in @}]
    [] e.op = "unreg_all" ->
         \* async_unregister_all_services: one goodbye datagram for all services, three times; the instance stays open
         LET all == UNION {Broadcast(st.reg[k], TRUE) : k \in Sids(st)}
             st1 == [st EXCEPT !.reg = [k \in 0..7 |-> NoSvc]]
         IN IF all = {} THEN st1
            ELSE [st1 EXCEPT !.slots = @ \cup {[t |-> e.t + d, kind |-> "bye", set |-> all, used |-> FALSE] : d \in {0, 125, 250}},
                             !.gone = @ \cup {<<p[1], e.t + 250>> : p \in all},
                             !.obl = {[o EXCEPT !.st = IF o.st \in {"open", "late"} THEN "cov" ELSE o.st] : o \in @}]
    [] e.op = "close" ->
         LET all == UNION {Broadcast(st.reg[k], TRUE) : k \in Sids(st)}
             \* whatever was in progress is abandoned: registration, announcements, held truncated queries
             st1 == [st EXCEPT !.reg = [k \in 0..7 |-> NoSvc], !.pr = NoProbe, !.again = <<>>, !.pendReg = NoSvc, !.hold = {},
                               !.slots = {x \in @ : x.used}, !.closing = TRUE]
         IN IF all = {} THEN [st1 EXCEPT !.obl = {}]
            ELSE [st1 EXCEPT !.slots = @ \cup {[t |-> e.t + d, kind |-> "bye", set |-> all, used |-> FALSE] : d \in {0, 125, 250}},
                             !.gone = @ \cup {<<p[1], e.t + 250>> : p \in all},
                             !.obl = {[o EXCEPT !.st = IF o.st \in {"open", "late"} THEN "cov" ELSE o.st] : o \in @}]
    [] OTHER -> st

(* ------------------------------------------------------------------ receiving *)
Items(e) == [k \in 1..(Len(e.an) + Len(e.ns) + Len(e.ar)) |->
               LET x == IF k <= Len(e.an) THEN e.an[k] ELSE IF k <= Len(e.an) + Len(e.ns) THEN e.ns[k - Len(e.an)]
                        ELSE e.ar[k - Len(e.an) - Len(e.ns)]
               IN [id |-> x[1], ttl |-> x[2], fl |-> x[3] = 1]]
Pkt(e) == [qs |-> e.qs, an |-> e.an, nauth |-> Len(e.ns), id |-> e.id, did |-> e.did]

OnRecv(st0, e) ==
  LET st == [st0 EXCEPT !.inRecv = TRUE] IN
  IF e.len > 8966 THEN [st EXCEPT !.oversize = TRUE]          \* over the absolute limit: ignored altogether
  ELSE IF e.bad /\ ~e.libvalid
       THEN [st EXCEPT !.lastDid = e.did, !.lastProc = e.t, !.lastQU = FALSE, !.invalid = TRUE]    \* malformed: nothing may follow from it
  ELSE IF e.bad THEN [st EXCEPT !.lastDid = e.did, !.lastProc = e.t, !.lastQU = FALSE]
  ELSE LET dup == e.did = st.lastDid /\ e.t - 1000 < st.lastProc /\ ~st.lastQU
           hasQU == \E k \in 1..Len(e.qs) : e.qs[k][3] = 1
           carried == IF e.resp THEN {Items(e)[k].id : k \in {j \in 1..Len(Items(e)) : Items(e)[j].ttl > 0}} ELSE {}
           withdrawn == IF e.resp THEN {Items(e)[k].id : k \in {j \in 1..Len(Items(e)) : Items(e)[j].ttl = 0}} ELSE {}
           \* delivered = seen (strict reading); a goodbye voids the earlier sightings of the record
           stx == [st EXCEPT !.tx = [i \in Rids |-> IF i \in carried THEN e.t ELSE IF i \in withdrawn THEN -100000 ELSE st.tx[i]]]
       IN IF dup THEN stx
          ELSE LET st1 == [stx EXCEPT !.lastDid = e.did, !.lastProc = e.t, !.lastQU = hasQU] IN
            IF e.resp THEN Settle([st1 EXCEPT !.seen = IngestX(Rids, RR, IsPtr, st.seen, Items(e), e.t)], e.t)
            ELSE IF Sids(st) = {} THEN st1
            ELSE IF e.tc
                 THEN \* deferred: same bytes already waiting from this source => ignored
                      IF \E h \in st1.hold : h.src = e.src /\ \E k \in 1..Len(h.pkts) : h.pkts[k].did = e.did THEN st1
                      ELSE LET old == IF \E h \in st1.hold : h.src = e.src THEN HoldOf(st1, e.src).pkts ELSE <<>>
                               nh == [src |-> e.src, pkts |-> Append(old, Pkt(e)), deadline |-> -1, last |-> e.t,
                                      port |-> e.port, sock |-> e.sock]
                           IN [st1 EXCEPT !.hold = {h \in @ : h.src # e.src} \cup {nh}, !.lastTcSrc = e.src]
            ELSE LET old == IF \E h \in st1.hold : h.src = e.src THEN HoldOf(st1, e.src).pkts ELSE <<>>
                     pk == Append(old, Pkt(e))
                     a == Assemble([pkts |-> old], <<Pkt(e)>>)
                     \* a query from another port of the address a truncated train is held for (a legacy resolver next to an mDNS
                     \* responder, or the reverse) is a query of its own: its unicast reply echoes *its* id and questions (C11)
                     otherPort == old # <<>> /\ HoldOf(st1, e.src).port # e.port
                     Q == [qs |-> AllQs(pk), echo |-> IF otherPort THEN Pkt(e).qs ELSE pk[1].qs, known |-> a.known, probe |-> a.probe, port |-> e.port,
                           tq |-> e.t, ta |-> e.t, single |-> TotalQs(pk) = 1, firstSingleImm |-> FirstSingleImm(pk)]
                     ans == Answer([st1 EXCEPT !.hold = {h \in @ : h.src # e.src}], Q, e.src, e.sock, IF otherPort THEN Pkt(e).id ELSE pk[1].id)
                 IN [ans EXCEPT !.exp.canary = ("tag" \in DOMAIN e /\ e.tag = "canary")]

OnRand(st, e) ==
  IF e.site = "tc" /\ \E h \in st.hold : h.src = st.lastTcSrc
  THEN LET h == HoldOf(st, st.lastTcSrc) IN
       [st EXCEPT !.hold = {x \in @ : x.src # h.src} \cup {[h EXCEPT !.deadline = e.t + e.v]}]
  ELSE st

OnRecvDone(st, e) ==
  LET st1 == [st EXCEPT !.inRecv = FALSE, !.oversize = FALSE, !.invalid = FALSE] IN
  IF Bad(st1.exp.on /\ st1.exp.canary /\ ~st1.exp.done, "C15_CanaryAnswered") THEN Fail(st1, "C15_CanaryAnswered")
  ELSE IF Bad(st1.exp.on /\ st1.exp.u # {} /\ ~st1.exp.done, "C11_UnicastReply") THEN Fail(st1, "C11_UnicastReply")
  ELSE IF Bad(\E o \in st1.obl : o.cls = "now" /\ o.st = "open" /\ o.qt = e.t, "C12_AnsweredAtOnce") THEN Fail(st1, "C12_AnsweredAtOnce")
  ELSE IF Bad(\E o \in st1.obl : o.cls = "probe" /\ o.st = "open" /\ o.qt = e.t, "C11_ProbeImmediate") THEN Fail(st1, "C11_ProbeImmediate")
  ELSE [st1 EXCEPT !.exp = NoExp]

(* ------------------------------------------------------------------ sending *)
RidsOf(x) == {x[k][1] : k \in 1..Len(x)}
Pairs(x) == {<<x[k][1], x[k][2]>> : k \in 1..Len(x)}

Resurrects(st, e) ==
  \E p \in Pairs(e.an) \cup Pairs(e.ar) : p[2] > 0 /\ p[1] \notin Owned(st) /\ \E g \in st.gone : g[1] = p[1] /\ g[2] < e.t

ContentClause(st, e, ans, opt) ==
  \* ans: the answer rids this send must carry, opt: those it may carry in addition
  LET an == {NsecCanon(st, r) : r \in RidsOf(e.an)}
      ar == RidsOf(e.ar)
  IN IF Bad(Len(e.an) + Len(e.ar) # Cardinality(RidsOf(e.an) \cup ar), "C12_NoDuplicateInBatch") THEN "C12_NoDuplicateInBatch"
     ELSE IF Bad(~(ans \subseteq an), "C03_MissingAnswer") THEN "C03_MissingAnswer"
     ELSE IF Bad(~(an \subseteq ans \cup opt), "C03_UnexpectedAnswer") THEN "C03_UnexpectedAnswer"
     ELSE IF Bad(\E p \in Pairs(e.an) \cup Pairs(e.ar) : p[2] \notin TtlsOf(st, p[1]), "C03_ConfiguredTtl") THEN "C03_ConfiguredTtl"
     ELSE IF Bad(ar \cap RidsOf(e.an) # {}, "C03_AdditionalRepeatsAnswer") THEN "C03_AdditionalRepeatsAnswer"
     ELSE IF Bad(~(ar \subseteq AllowedAdds(st, RidsOf(e.an))), "C03_AdditionalsOwn") THEN "C03_AdditionalsOwn"
     ELSE ""

QKey(qs) == [k \in 1..Len(qs) |-> <<qs[k][1], qs[k][2], qs[k][4]>>]     \* the QU bit is not echoed (unicast reply)
\* a question whose name cannot be written back (a label that is not UTF-8 and outgrows 63 octets when decoded with replacement
\* characters; the recorder marks it in the fifth field): the reply then echoes all questions or, failing that, none
NoEcho(qs) == \E k \in 1..Len(qs) : qs[k][5] = 1
OnUnicast(st, e) ==
  LET x == st.exp IN
  \* the well-formed query sent after a fuzz stream must get its complete unicast answer
  IF Bad(x.on /\ x.canary /\ ~(e.dst = x.dst /\ e.port = x.port /\ e.id = x.id /\ x.u \subseteq RidsOf(e.an)
                               /\ RidsOf(e.an) \subseteq x.u \cup x.uopt /\ x.u # {}), "C15_CanaryAnswered") THEN Fail(st, "C15_CanaryAnswered")
  ELSE IF Bad(~x.on \/ x.done \/ x.u \cup x.uopt = {}, "C11_UnexpectedUnicast") THEN Fail(st, "C11_UnexpectedUnicast")
  ELSE IF ~x.on THEN st
  ELSE IF Bad(e.dst # x.dst \/ e.port # x.port \/ e.t # x.t, "C11_UnicastReply") THEN Fail(st, "C11_UnicastReply")
  ELSE IF Bad(e.sock # x.sock, "C11_SameSocket") THEN Fail(st, "C11_SameSocket")
  ELSE IF Bad(e.id # x.id \/ e.flags # 33792 \/ (x.legacy /\ QKey(e.qs) # QKey(x.qs) /\ ~(NoEcho(x.qs) /\ e.qs = <<>>)) \/ (~x.legacy /\ e.qs # <<>>), "C11_UnicastEcho")
       THEN Fail(st, "C11_UnicastEcho")
  ELSE IF Bad(\E k \in 1..Len(e.an) : e.an[k][3] = 1, "C11_NoFlushInUnicast") THEN Fail(st, "C11_NoFlushInUnicast")
  ELSE IF Bad(\E k \in 1..Len(e.ar) : e.ar[k][3] = 1, "C11_NoFlushInUnicast") THEN Fail(st, "C11_NoFlushInUnicast")
  ELSE IF ContentClause(st, e, x.u, x.uopt) # "" THEN Fail(st, ContentClause(st, e, x.u, x.uopt))
  ELSE [st EXCEPT !.exp.done = TRUE]

FormatBad(e) ==
  \/ e.id # 0 \/ e.flags # 33792 \/ e.qs # <<>> \/ e.ns # <<>>
  \/ \E k \in 1..Len(e.an) : (e.an[k][3] = 1) = IsPtr(e.an[k][1])
  \/ \E k \in 1..Len(e.ar) : (e.ar[k][3] = 1) = IsPtr(e.ar[k][1])

OCand(st, r, t) == {o \in st.obl : o.r = r /\ o.st # "used" /\ o.qt <= t /\ o.lo <= t /\ t <= o.hi}
OwnObl(st, r, t) == CHOOSE o \in OCand(st, r, t) : \A p \in OCand(st, r, t) : o.hi <= p.hi

OnMulticastReply(st, e) ==
  LET an == {NsecCanon(st, r) : r \in RidsOf(e.an)}
      t == e.t
  IN \* C03 (what is answered): a record nobody is owed -- no question of the last seconds asks for it, or the querier listed it
     \* as a known answer -- is not multicast.  (Whether an owed answer comes at the right time is C12's matter.)
     IF Bad(\E r \in an : ~\E o \in st.obl : o.r = r /\ o.qt <= t, "C03_UnexpectedAnswer") THEN Fail(st, "C03_UnexpectedAnswer")
     ELSE IF Bad(\E r \in an : OCand(st, r, t) = {}, "C12_NoEarlyOrUnsolicited") THEN Fail(st, "C12_NoEarlyOrUnsolicited")
     ELSE IF Bad(\E r \in an : OCand(st, r, t) # {} /\ \A o \in OCand(st, r, t) : t < o.s2, "C12_OneSecondAfterAnySighting")
          THEN Fail(st, "C12_OneSecondAfterAnySighting")
     ELSE IF ContentClause(st, e, an, {}) # "" THEN Fail(st, ContentClause(st, e, an, {}))
     \* the one-second rule is about every record of the datagram: an additional record the host saw multicast less than a
     \* second ago does not ride along either (replies to probes excepted)
     ELSE IF Bad(/\ ~\E r \in an : \E o \in OCand(st, r, t) : o.cls = "probe"
                 /\ \E r \in RidsOf(e.ar) : st.seen[r] # None /\ t - st.seen[r].c < 1000, "C12_AdditionalWithinSecond")
          THEN Fail(st, "C12_AdditionalWithinSecond")
     ELSE [st EXCEPT !.obl = {IF o.r \in an /\ o.st # "used" /\ o.qt <= t /\ OCand(st, o.r, t) # {}
                              THEN (IF o = OwnObl(st, o.r, t) THEN [o EXCEPT !.st = "used"]
                                    ELSE [o EXCEPT !.st = "cov"])
                              ELSE IF o.r \in an /\ o.st = "late" THEN [o EXCEPT !.st = "cov"]       \* answered after all
                              ELSE o : o \in st.obl}]

OnSend(st, e) ==
  IF Bad(st.oversize, "C15_OversizeIgnored") THEN Fail(st, "C15_OversizeIgnored")
  ELSE IF Bad(st.invalid, "C15_InvalidIgnored") THEN Fail(st, "C15_InvalidIgnored")
  ELSE IF e.bad THEN (IF Bad(TRUE, "C11_WellFormedReply") THEN Fail(st, "C11_WellFormedReply") ELSE st)   \* not even decodable
  ELSE IF Bad(Resurrects(st, e), "C08_NoResurrection") THEN Fail(st, "C08_NoResurrection")
  ELSE IF ~e.resp THEN (IF e.ns # <<>> THEN OnProbe(st, e) ELSE st)      \* probe queries; other queries belong to C10/C13
  ELSE IF Bad(\E p \in Pairs(e.an) \cup Pairs(e.ar) : p[2] > 0 /\ p[1] \in st.rejected /\ p[1] \notin Owned(st), "C09_NeverAnnounced")
       THEN Fail(st, "C09_NeverAnnounced")
  ELSE IF Bad(st.pr.on /\ st.pr.k <= Len(st.pr.cands) /\ Cand(st).ptr \in RidsOf(e.an) /\ Cand(st).ptr \notin Owned(st), "C09_AnnouncedBeforeProbing")
       THEN Fail(st, "C09_AnnouncedBeforeProbing")
  ELSE IF ~e.mc THEN OnUnicast(st, e)
  ELSE IF Bad(FormatBad(e), "C11_MulticastFormat") THEN Fail(st, "C11_MulticastFormat")
  ELSE LET slot == {x \in st.slots : x.t <= e.t /\ e.t <= x.t + Slack /\ ~x.used /\ x.set = Pairs(e.an) /\ e.ar = <<>>} IN
       IF slot # {}
       THEN LET x == CHOOSE y \in slot : TRUE IN
            [st EXCEPT !.slots = (@ \ {x}) \cup {[x EXCEPT !.used = TRUE]},
                       !.obl = {IF o.st = "late" /\ o.r \in RidsOf(e.an) THEN [o EXCEPT !.st = "cov"] ELSE o : o \in @}]
       \* while the instance closes, what a registration still in flight multicasts is not judged as a reply: C17 looks at it
       \* when close returns (TrackClosing)
       ELSE IF st.closing THEN st
       ELSE OnMulticastReply(st, e)

TrackClosing(st, e) ==
  IF st.err # "" \/ ~st.closing \/ e.bad \/ ~e.mc THEN st
  ELSE [st EXCEPT !.annc = (@ \cup {e.an[k][1] : k \in {j \in 1..Len(e.an) : e.an[j][2] > 0}})
                            \ {e.an[k][1] : k \in {j \in 1..Len(e.an) : e.an[j][2] = 0}}]

(* an announcement / goodbye slot whose instant has passed without its datagram *)
MissedSlot(st, t) == \E x \in st.slots : ~x.used /\ x.t + Slack < t
MissedKind(st, t) == (CHOOSE x \in st.slots : ~x.used /\ x.t + Slack < t).kind

AfterClose(st, e) ==
  CASE e.ev \in {"send", "cb", "lcall"} -> IF Bad(TRUE, "C17_Quiet") THEN Fail(st, "C17_Quiet") ELSE st
    [] e.ev = "exc" -> IF Bad(TRUE, "C17_NoTimerRaises") THEN Fail(st, "C17_NoTimerRaises") ELSE Fail(st, "C15_NoException")
    [] e.ev = "recv" -> IF Bad(TRUE, "C17_Quiet") THEN Fail(st, "C17_Quiet") ELSE st     \* a closed transport was handed a datagram
    [] e.ev = "api_ret" -> IF e.op = "close" /\ "cut" \notin DOMAIN e /\ Bad(~e.ok, "C17_Idempotent") THEN Fail(st, "C17_Idempotent") ELSE st
    [] OTHER -> st

Step(st0, e, alt) ==
  IF e.ev = "start" THEN [InitState EXCEPT !.seen = [i \in Rids |-> None], !.tx = [i \in Rids |-> -100000]]
  ELSE IF st0.closed THEN AfterClose(st0, e)
  ELSE LET st1 == Pre(st0, e, alt) IN
   IF st1.err # "" THEN st1
   ELSE IF MissedSlot(st1, e.t) /\ Bad(MissedKind(st1, e.t) = "bye", "C08_GoodbyeComplete") THEN Fail(st1, "C08_GoodbyeComplete")
   ELSE IF MissedSlot(st1, e.t) /\ Bad(MissedKind(st1, e.t) = "ann", "C08_AnnouncementComplete") THEN Fail(st1, "C08_AnnouncementComplete")
   ELSE IF MissedSlot(st1, e.t) /\ Bad(MissedKind(st1, e.t) = "ann9", "C09_AnnouncementComplete") THEN Fail(st1, "C09_AnnouncementComplete")
   ELSE IF Bad(ProbeOverdue(st1, e.t), "C09_ProbeSchedule") THEN Fail(st1, "C09_ProbeSchedule")
   ELSE CASE e.ev = "recv"      -> OnRecv(st1, e)
          [] e.ev = "recv_done" -> OnRecvDone(st1, e)
          [] e.ev = "send"      -> TrackClosing(OnSend(st1, e), e)
          [] e.ev = "api"       -> OnApi(st1, e)
          [] e.ev = "api_ret"   -> OnApiRet(st1, e)
          [] e.ev = "rand"      -> OnRand(st1, e)
          [] e.ev = "end"       -> st1
          [] e.ev \in {"cb", "lcall"} /\ Bad(st1.invalid \/ st1.oversize, "C15_InvalidIgnored") -> Fail(st1, "C15_InvalidIgnored")
          [] e.ev = "cb" -> IF e.kind = "add" THEN [st1 EXCEPT !.added = @ \cup {e.name}]
                            ELSE IF e.kind = "rem" THEN [st1 EXCEPT !.added = @ \ {e.name}] ELSE st1
          \* the canary question from the mDNS port: its answer has been multicast (seen on the loopback) since it was asked
          [] e.ev = "expect_mc" -> IF Bad(e.rid \in Rids /\ st1.tx[e.rid] < e.since, "C15_CanaryAnswered") THEN Fail(st1, "C15_CanaryAnswered") ELSE st1
          [] e.ev = "expect_added" -> IF Bad(e.name \notin st1.added, "C15_CanaryAdded") THEN Fail(st1, "C15_CanaryAdded") ELSE st1
          [] e.ev \in {"lcall", "bstart", "lookup", "lookup_ret"} -> st1
          [] e.ev = "tclose"    -> IF Bad(\E x \in st1.slots : x.kind = "bye" /\ ~x.used, "C17_GoodbyesBeforeClose")
                                   THEN Fail(st1, "C17_GoodbyesBeforeClose") ELSE st1
          [] e.ev = "uexc"      -> st1       \* a listener of the harness raised on purpose (on a datagram of refreshes only)
          [] e.ev = "exc"       -> Fail(st1, "C15_NoException")
          [] OTHER              -> Fail(st1, "Trace_Malformed")

Events == Traces[tid].events
Init == /\ tid \in 1..N /\ l = 1 /\ s = InitState
Next == /\ s.err = "" /\ l <= Len(Events)
        \* a hold whose time is up at the very instant a datagram arrives may or may not have fired before it (timer order
        \* inside one millisecond is not observable unless the hold produced output): both orders are explored
        /\ \E alt \in (IF Events[l].ev = "recv" /\ \E h \in s.hold : h.deadline = Events[l].t THEN {0, 1} ELSE {0}) :
             s' = Step(s, Events[l], alt)
        /\ l' = IF s'.err = "" THEN l + 1 ELSE l
        /\ UNCHANGED tid
Spec == Init /\ [][Next]_vars

ASSUME \A i \in 1..N : TLCSet(1000 + i, <<0, "">>)
(* with a "dbg" field in the input the monitor state of a rejected trace is printed *)
DebugDump == IF s.err # "" /\ "dbg" \in DOMAIN D THEN PrintT(<<"DEBUG", Traces[tid].id, l, s>>) ELSE TRUE
Progress ==
  LET cur == TLCGet(1000 + tid)
      score == IF s.err = "" THEN 2 * l ELSE 2 * l + 1
  IN /\ IF score > cur[1] THEN TLCSet(1000 + tid, <<score, s.err>>) ELSE TRUE
     /\ DebugDump
Verdicts ==
  \A i \in 1..N :
    LET r == TLCGet(1000 + i)
        n == Len(Traces[i].events)
    IN IF r[1] = 2 * (n + 1) /\ r[2] = "" THEN PrintT(<<"VERDICT", Traces[i].id, TRUE, "", n>>)
       ELSE PrintT(<<"VERDICT", Traces[i].id, FALSE, r[2], r[1] \div 2>>)
=============================================================================
