--------------------------- MODULE RegistryContract ---------------------------
(* What the three indexes of the service registry must say, given the descriptions the application has registered (reg: name ->
   description [name, type, host] or NoneD).  Shared by the model Registry.tla and the trace specification Trace_Registry.tla. *)
NoneD == [name |-> "", type |-> "", host |-> ""]
RegisteredIn(reg, names) == {reg[n] : n \in {m \in names : reg[m] # NoneD}}
WantByType(reg, names, t) == {d \in RegisteredIn(reg, names) : d.type = t}
WantByServer(reg, names, h) == {d \in RegisteredIn(reg, names) : d.host = h}
WantTypes(reg, names) == {d.type : d \in RegisteredIn(reg, names)}
WantHosts(reg, names) == {d.host : d \in RegisteredIn(reg, names)}
\* the registry after a call, as the application must see it
AfterAdd(reg, d) == IF reg[d.name] # NoneD THEN reg ELSE [reg EXCEPT ![d.name] = d]      \* a held name: refused, nothing changes
AddRefused(reg, d) == reg[d.name] # NoneD
AfterRemove(reg, d) == [reg EXCEPT ![d.name] = NoneD]
AfterUpdate(reg, d) == [reg EXCEPT ![d.name] = d]
=============================================================================
