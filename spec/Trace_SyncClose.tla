--------------------------- MODULE Trace_SyncClose ---------------------------
(* C17 for the synchronous API (Zeroconf.close() called from a thread that is not the instance's loop thread): traces recorded
   from real threads in real time (props/c17sync.py).  Real time is not exact, so this contract is about order only:
        C17_Quiet                  once close() has returned nothing is multicast and no listener callback fires
        C17_GoodbyesBeforeClose    every record the instance multicast as live has been withdrawn (TTL 0) by the time close()
                                   returns
        C17_Idempotent             close() returns normally, also when called again
   Events:  send [recs : <<id, ttl>>...]   cb   api / api_ret (op = "close")   exc   end                                    *)
EXTENDS Integers, Sequences, FiniteSets, Json, IOUtils, TLC, TLCExt

ASSUME TLCSet(42, JsonDeserialize(IOEnv.TRACE_FILE))
D == TLCGet(42)
Traces == D.traces
N == Len(Traces)
VARIABLES tid, l, s
vars == <<tid, l, s>>
Fail(st, c) == [st EXCEPT !.err = c]
InitState == [live |-> {}, closed |-> FALSE, err |-> ""]

Step(st, e) ==
  CASE e.ev = "start" -> InitState
    [] e.ev = "send"  -> IF st.closed THEN Fail(st, "C17_Quiet")
                         ELSE [st EXCEPT !.live = (@ \cup {e.recs[k][1] : k \in {j \in 1..Len(e.recs) : e.recs[j][2] > 0}})
                                                   \ {e.recs[k][1] : k \in {j \in 1..Len(e.recs) : e.recs[j][2] = 0}}]
    [] e.ev = "cb"    -> IF st.closed THEN Fail(st, "C17_Quiet") ELSE st
    [] e.ev = "api"   -> st
    [] e.ev = "api_ret" -> IF ~e.ok THEN Fail(st, "C17_Idempotent")
                           ELSE IF ~st.closed /\ st.live # {} THEN Fail(st, "C17_GoodbyesBeforeClose")
                           ELSE [st EXCEPT !.closed = TRUE, !.live = {}]
    [] e.ev = "exc"   -> Fail(st, "C17_NoTimerRaises")
    [] e.ev = "end"   -> st
    [] OTHER          -> Fail(st, "Trace_Malformed")

Events == Traces[tid].events
Init == /\ tid \in 1..N /\ l = 1 /\ s = InitState
Next == /\ s.err = "" /\ l <= Len(Events)
        /\ s' = Step(s, Events[l])
        /\ l' = IF s'.err = "" THEN l + 1 ELSE l
        /\ UNCHANGED tid
Spec == Init /\ [][Next]_vars

ASSUME \A i \in 1..N : TLCSet(1000 + i, <<0, "">>)
Progress ==
  LET cur == TLCGet(1000 + tid)
      score == IF s.err = "" THEN 2 * l ELSE 2 * l + 1
  IN IF score > cur[1] THEN TLCSet(1000 + tid, <<score, s.err>>) ELSE TRUE
Verdicts ==
  \A i \in 1..N :
    LET r == TLCGet(1000 + i)
        n == Len(Traces[i].events)
    IN IF r[1] = 2 * (n + 1) /\ r[2] = "" THEN PrintT(<<"VERDICT", Traces[i].id, TRUE, "", n>>)
       ELSE PrintT(<<"VERDICT", Traces[i].id, FALSE, r[2], r[1] \div 2>>)
=============================================================================
