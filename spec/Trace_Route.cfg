SPECIFICATION TSpec
CONSTANTS
  MaxQ = 2
  TwoPackets = TRUE
  KnownUniverse = {"ptr", "srv", "txt", "a", "enum"}
  Deviations = {"ptr", "srv", "txt", "a", "nsec", "enum"}
  QuarterRule = TRUE
  LastSecondRule = TRUE
CONSTRAINT Judge
POSTCONDITION Post
CHECK_DEADLOCK FALSE
