SPECIFICATION Spec
CONSTANTS
  MaxQ = 1
  TwoPackets = FALSE
  KnownUniverse = {"ptr", "srv", "a"}
  Deviations = {"a"}
  QuarterRule = TRUE
  LastSecondRule = FALSE
INVARIANT Asked
INVARIANT Routes
INVARIANT AddsOwn
CHECK_DEADLOCK FALSE
