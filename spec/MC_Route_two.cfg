SPECIFICATION Spec
CONSTANTS
  MaxQ = 2
  TwoPackets = TRUE
  KnownUniverse = {"ptr", "a"}
  Deviations = {"a"}
  QuarterRule = TRUE
  LastSecondRule = TRUE
INVARIANT Asked
INVARIANT Routes
INVARIANT AddsOwn
CHECK_DEADLOCK FALSE
