SPECIFICATION Spec
CONSTANTS
  MaxQ = 2
  KnownUniverse = {"ptr"}
  Deviations = {}
  QuarterRule = TRUE
  LastSecondRule = TRUE
INVARIANT Asked
INVARIANT Routes
INVARIANT AddsOwn
CONSTRAINT EmitSampled
CHECK_DEADLOCK FALSE
