SPECIFICATION Spec
CONSTANTS
  MaxQ = 2
  TwoPackets = TRUE
  KnownUniverse = {"ptr"}
  Deviations = {}
  QuarterRule = TRUE
  LastSecondRule = TRUE
INVARIANT Asked
INVARIANT Routes
INVARIANT AddsOwn
CONSTRAINT EmitSampled2
CHECK_DEADLOCK FALSE
