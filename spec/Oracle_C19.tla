----------------------------- MODULE Oracle_C19 -----------------------------
(* Code -> spec binding for C19: every logged call of service_type_name and every TXT
   encode/decode is judged by the contract of Names.tla. *)
EXTENDS Names, Json, IOUtils, TLC, TLCExt

ASSUME TLCSet(42, JsonDeserialize(IOEnv.TRACE_FILE))
Cases == TLCGet(42)
N == Len(Cases)

NameClause(c) ==
  LET v == Validate(c.cp, c.strict) IN
  IF c.out \notin {"ok", "bad"} THEN "C19_OnlyBadTypeInNameException"
  ELSE IF v.res = "bad" /\ c.out = "ok" THEN "C19_RejectsUndocumented"
  ELSE IF v.res = "ok" /\ c.out = "bad" THEN "C19_AcceptsDocumented"
  ELSE IF v.res = "ok" /\ c.ret # v.type THEN "C19_ReturnsServiceType"
  ELSE ""

SameItems(a, b) == Len(a) = Len(b) /\ \A j \in 1..Len(a) : a[j].k = b[j].k /\ a[j].hasv = b[j].hasv /\ (a[j].hasv => a[j].v = b[j].v)
TxtClause(c) ==
  IF c.out # "ok" THEN "C19_TxtNoError"
  ELSE IF c.text # EncodeTxt(c.items) THEN "C19_TxtEncoding"
  ELSE IF ~SameItems(NormSeq(DecodeTxt(c.text)), Norm(c.items)) THEN "C19_TxtIndependentDecode"
  ELSE IF ~SameItems(NormSeq(c.props), Norm(c.items)) THEN "C19_TxtLibraryDecode"
  \* the description that was given the dictionary reads it back the same way: bytes keys and values, same items
  ELSE IF ~c.obytes \/ ~SameItems(NormSeq(c.oprops), Norm(c.items)) THEN "C19_TxtLibraryDecode"
  \* descriptions built from the same TXT octets do not share their dictionaries: what the application does to one of them
  \* leaves the others (built before or afterwards) reading what their octets say
  ELSE IF ~SameItems(NormSeq(c.aprops3), Norm(c.items)) \/ ~SameItems(NormSeq(c.aprops4), Norm(c.items)) THEN "C19_TxtNotShared"
  ELSE ""

Clause(c) == IF c.kind = "name" THEN NameClause(c) ELSE TxtClause(c)

ASSUME TLCSet(50, 0) /\ TLCSet(51, 0)
Count(c) == /\ TLCSet(51, TLCGet(51) + 1)
            /\ IF c.kind = "name" /\ Validate(c.cp, c.strict).res = "ok" THEN TLCSet(50, TLCGet(50) + 1) ELSE TRUE
Post == /\ \A i \in 1..N : /\ Count(Cases[i])
                            /\ LET cl == Clause(Cases[i]) IN IF cl = "" THEN TRUE ELSE PrintT(<<"VERDICT", Cases[i].id, FALSE, cl, 0>>)
        /\ PrintT(<<"INFO", "cases", TLCGet(51), "accepted", TLCGet(50)>>)
VARIABLE x
Init == x = 0
Next == x = 0 /\ Post /\ x' = 1     \* evaluated by a worker thread (deep recursion needs its -Xss stack)
Spec == Init /\ [][Next]_x
=============================================================================
