--------------------------- MODULE Trace_Registry ---------------------------
(* Trace validation of the real ServiceRegistry (zeroconf/_services/registry.py) against RegistryContract.tla: the harness
   (props/registrymodel.py) performs the calls of a history of the model Registry.tla on a real registry with real ServiceInfo
   objects and records, after every call, whether it raised and what every lookup returns:
        call [op, d, ok, obs: [byname, bytype, byserver, types, has, all]]
   Clauses: C03_RegistryRefusal (a second registration of a held name raises ServiceNameAlreadyRegistered, nothing else does),
   C03_RegistryByName / ByType / ByServer / Types / HasEntries (the lookups say exactly what is registered).                 *)
EXTENDS Integers, Sequences, FiniteSets, Json, IOUtils, TLC, TLCExt, RegistryContract

ASSUME TLCSet(42, JsonDeserialize(IOEnv.TRACE_FILE))
D == TLCGet(42)
Traces == D.traces
N == Len(Traces)
ToSet(q) == {q[k] : k \in 1..Len(q)}
NameSet == ToSet(D.names)
TypeSet == ToSet(D.types)
HostSet == ToSet(D.hosts)

VARIABLES tid, l, s
vars == <<tid, l, s>>
Fail(st, c) == [st EXCEPT !.err = c]
InitState == [reg |-> [n \in NameSet |-> NoneD], err |-> ""]

ObsClause(reg, o) ==
  IF \E n \in NameSet : (IF reg[n] = NoneD THEN o.byname[n] # <<>> ELSE o.byname[n] # <<reg[n]>>) THEN "C03_RegistryByName"
  ELSE IF \E t \in TypeSet : ToSet(o.bytype[t]) # WantByType(reg, NameSet, t) \/ Len(o.bytype[t]) # Cardinality(WantByType(reg, NameSet, t))
       THEN "C03_RegistryByType"
  ELSE IF \E h \in HostSet : ToSet(o.byserver[h]) # WantByServer(reg, NameSet, h) \/ Len(o.byserver[h]) # Cardinality(WantByServer(reg, NameSet, h))
       THEN "C03_RegistryByServer"
  ELSE IF ToSet(o.types) # WantTypes(reg, NameSet) \/ Len(o.types) # Cardinality(WantTypes(reg, NameSet)) THEN "C03_RegistryTypes"
  ELSE IF o.has # (RegisteredIn(reg, NameSet) # {}) THEN "C03_RegistryHasEntries"
  ELSE IF ToSet(o.all) # RegisteredIn(reg, NameSet) \/ Len(o.all) # Cardinality(RegisteredIn(reg, NameSet)) THEN "C03_RegistryByName"
  ELSE ""

Step(st, e) ==
  IF e.ev = "start" THEN InitState
  ELSE IF e.ev = "end" THEN st
  ELSE IF e.ev # "call" THEN Fail(st, "Trace_Malformed")
  ELSE LET refused == e.op = "add" /\ AddRefused(st.reg, e.d)
           reg2 == CASE e.op = "add" -> AfterAdd(st.reg, e.d) [] e.op = "remove" -> AfterRemove(st.reg, e.d) [] OTHER -> AfterUpdate(st.reg, e.d)
       IN IF e.ok = refused THEN Fail(st, "C03_RegistryRefusal")            \* raised without cause, or accepted a held name
          ELSE IF ObsClause(reg2, e.obs) # "" THEN Fail([st EXCEPT !.reg = reg2], ObsClause(reg2, e.obs))
          ELSE [st EXCEPT !.reg = reg2]

Events == Traces[tid].events
Init == /\ tid \in 1..N /\ l = 1 /\ s = InitState
Next == /\ s.err = "" /\ l <= Len(Events)
        /\ s' = Step(s, Events[l])
        /\ l' = IF s'.err = "" THEN l + 1 ELSE l
        /\ UNCHANGED tid
Spec == Init /\ [][Next]_vars

ASSUME \A i \in 1..N : TLCSet(1000 + i, <<0, "">>)
Progress ==
  LET cur == TLCGet(1000 + tid)
      score == IF s.err = "" THEN 2 * l ELSE 2 * l + 1
  IN IF score > cur[1] THEN TLCSet(1000 + tid, <<score, s.err>>) ELSE TRUE
Verdicts ==
  \A i \in 1..N :
    LET r == TLCGet(1000 + i)
        n == Len(Traces[i].events)
    IN IF r[1] = 2 * (n + 1) /\ r[2] = "" THEN PrintT(<<"VERDICT", Traces[i].id, TRUE, "", n>>)
       ELSE PrintT(<<"VERDICT", Traces[i].id, FALSE, r[2], r[1] \div 2>>)
=============================================================================
