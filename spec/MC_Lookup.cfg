SPECIFICATION Spec
CONSTANTS
  Timeout = 3000
  Jitter = 20
  EnvTimes = {500, 1000, 1001, 1100, 1219, 1220, 1221, 1300, 1439, 1440, 1441, 1900, 2459, 2460, 3478, 3479, 3999, 4000, 4001}
  InitialCache = {{}, {"srv"}, {"txt"}, {"a"}, {"srv", "txt"}, {"srv", "a"}, {"txt", "a"}, {"srv", "txt", "a"}}
  CheckSpacing = FALSE
  Horizon = 6000
VIEW view
INVARIANT NoBad
INVARIANT ReturnBy
INVARIANT SuccessIff
INVARIANT CacheFirst
INVARIANT QuThenQm
CHECK_DEADLOCK FALSE
