------------------------------ MODULE Lifecycle ------------------------------
(* Design-level model of what is in flight inside one instance when the application calls into it (zeroconf/_core.py:
   async_register_service, async_unregister_service, async_unregister_all_services / _async_close, _async_broadcast_service,
   async_check_service; zeroconf/asyncio.py: async_close), and the contracts of C08 and C17 on it.  Time in integer milliseconds.

   Code -> model:
     registry                                                   regd     (set of services)
     task _async_broadcast_service(info, 225, None)             tasks    (pending sends <<t, "ann", s>> at +0 / +225 / +450)
     task _async_broadcast_service(info, 125, 0)                tasks    (pending sends <<t, "bye", s>> at +0 / +125 / +250)
     async_check_service without cooperating responders         probing  (s -> [r, i]: probes at r, r + 175, r + 350; with the
                                                                         third probe the service enters the registry -- whatever
                                                                         the instance is doing -- and its announcements start)
     AsyncZeroconf.async_close:
        generate_unregister_all_services (snapshot + removal)   Close:   cg = regd, regd' = {}
        three goodbyes for the snapshot, 125 ms apart            CloseStep (none when the registry was empty)
        Zeroconf._close: done = True; engine closes              done, cs = "closed" (async_send returns at once when done)
   The environment calls at the instants EnvTimes: register (cooperating, i.e. at once, or with probing), unregister, close.
   With Guarded = TRUE it keeps to the domain the trace contracts are judged in: no call on a service whose own announcement /
   goodbye sequence is still running, no close while an unregistration or a probing registration is in flight.

   Contract:
     Quiet              nothing is sent once close has returned                      (by construction: sends test `done`)
     WithdrawnAtClose   when close returns, the last multicast about every service was a goodbye      (C17)
     GoodbyeComplete    an unregistration is followed by three goodbyes                               (C08)
     NoResurrection     after the third goodbye of an unregistered service nothing positive about it is multicast until it is
                        registered again                                                              (C08)
   The unguarded configurations reproduce, in the design, the recorded findings: D20 (a registration whose probing ends during the
   250 ms of a close is announced and never withdrawn: WithdrawnAtClose fails), D27 (close right after an unregistration cuts its
   goodbyes: GoodbyeComplete fails) and the out-of-domain case of an announcement sequence still running when the service is
   unregistered (NoResurrection fails).                                                                                      *)
EXTENDS Integers, Sequences, FiniteSets, TLC

CONSTANTS Svcs, EnvTimes, Horizon,
          Guarded,       \* TRUE: the environment stays inside the domain (see above)
          AllowProbe,    \* registrations with probing occur
          AllowBusy      \* calls on a service whose sequence is still running occur (only with Guarded = FALSE)

VARIABLES now, regd, tasks, probing, cs, cg, ck, cat, done,          \* implementation
          live, ureg, slog, gone,                                     \* contract / observation
          envDone, hist, bad
vars == <<now, regd, tasks, probing, cs, cg, ck, cat, done, live, ureg, slog, gone, envDone, hist, bad>>
view == <<now, regd, tasks, probing, cs, cg, ck, cat, done, live, ureg, gone, envDone, bad>>

NoProbe == [r |-> -1, i |-> 0]
Init == /\ now = 0 /\ regd = {} /\ tasks = {} /\ probing = [s \in Svcs |-> NoProbe] /\ cs = "open" /\ cg = {} /\ ck = 0 /\ cat = -1 /\ done = FALSE
        /\ live = [s \in Svcs |-> FALSE] /\ ureg = {} /\ slog = <<>> /\ gone = [s \in Svcs |-> -1]
        /\ envDone = {} /\ hist = <<>> /\ bad = ""

Busy(s) == (\E t \in tasks : t[3] = s) \/ probing[s].r >= 0
Ann(s, t0) == {<<t0, "ann", s>>, <<t0 + 225, "ann", s>>, <<t0 + 450, "ann", s>>}
Bye(s, t0) == {<<t0, "bye", s>>, <<t0 + 125, "bye", s>>, <<t0 + 250, "bye", s>>}
EnvNow == now \in EnvTimes /\ now \notin envDone /\ bad = ""
Log(op, s) == hist' = Append(hist, [t |-> now, op |-> op, s |-> s])

RegCoop(s) ==
  /\ EnvNow /\ cs = "open" /\ s \notin regd /\ probing[s].r < 0
  /\ (Busy(s) => AllowBusy /\ ~Guarded)
  /\ regd' = regd \cup {s} /\ tasks' = tasks \cup Ann(s, now) /\ gone' = [gone EXCEPT ![s] = -1]
  /\ envDone' = envDone \cup {now} /\ Log("reg", s)
  /\ UNCHANGED <<now, probing, cs, cg, ck, cat, done, live, ureg, slog, bad>>

RegProbe(s) ==
  /\ AllowProbe /\ EnvNow /\ cs = "open" /\ s \notin regd /\ probing[s].r < 0
  /\ (Busy(s) => AllowBusy /\ ~Guarded)
  /\ (Guarded => \A x \in Svcs : probing[x].r < 0)         \* (the trace contract follows one probing registration at a time)
  /\ probing' = [probing EXCEPT ![s] = [r |-> now, i |-> 0]]
  /\ envDone' = envDone \cup {now} /\ Log("regp", s)
  /\ UNCHANGED <<now, regd, tasks, cs, cg, ck, cat, done, live, ureg, slog, gone, bad>>

Unreg(s) ==
  /\ EnvNow /\ cs = "open" /\ s \in regd
  /\ (Busy(s) => AllowBusy /\ ~Guarded)
  /\ regd' = regd \ {s} /\ tasks' = tasks \cup Bye(s, now) /\ ureg' = ureg \cup {<<s, now>>}
  /\ gone' = [gone EXCEPT ![s] = now + 250]
  /\ envDone' = envDone \cup {now} /\ Log("unreg", s)
  /\ UNCHANGED <<now, probing, cs, cg, ck, cat, done, live, slog, bad>>

Close ==
  /\ EnvNow /\ cs = "open"
  /\ (Guarded => (\A t \in tasks : t[2] # "bye") /\ (\A s \in Svcs : probing[s].r < 0))
  /\ cg' = regd /\ regd' = {} /\ cat' = now /\ ck' = 0
  /\ IF regd = {} THEN /\ cs' = "closed" /\ done' = TRUE ELSE /\ cs' = "closing" /\ UNCHANGED done
  /\ envDone' = envDone \cup {now} /\ Log("close", "")
  /\ UNCHANGED <<now, tasks, probing, live, ureg, slog, gone, bad>>

Skip == /\ EnvNow /\ envDone' = envDone \cup {now}
        /\ UNCHANGED <<now, regd, tasks, probing, cs, cg, ck, cat, done, live, ureg, slog, gone, hist, bad>>

(* ---------------------------------------------------------------- what the instance does on its own *)
Sent(kind, S) == /\ slog' = Append(slog, [t |-> now, k |-> kind, s |-> S])
                 /\ live' = [s \in Svcs |-> IF s \in S THEN kind = "ann" ELSE live[s]]
                 /\ bad' = IF kind = "ann" /\ \E s \in S : gone[s] >= 0 /\ gone[s] < now THEN "NoResurrection" ELSE bad

SendStep ==
  /\ bad = ""
  /\ \E t \in tasks :
       /\ t[1] = now
       /\ tasks' = tasks \ {t}
       /\ IF done THEN UNCHANGED <<slog, live, bad>> ELSE Sent(t[2], {t[3]})
  /\ UNCHANGED <<now, regd, probing, cs, cg, ck, cat, done, ureg, gone, envDone, hist>>

ProbeStep(s) ==
  /\ bad = "" /\ probing[s].r >= 0 /\ now = probing[s].r + 175 * probing[s].i
  /\ IF probing[s].i < 2
     THEN /\ probing' = [probing EXCEPT ![s].i = @ + 1] /\ UNCHANGED <<regd, tasks, gone>>
     ELSE \* third probe: the service enters the registry and its announcements start, whatever else is going on
          /\ probing' = [probing EXCEPT ![s] = NoProbe] /\ regd' = regd \cup {s} /\ tasks' = tasks \cup Ann(s, now)
          /\ gone' = [gone EXCEPT ![s] = -1]
  /\ IF done THEN UNCHANGED slog ELSE slog' = Append(slog, [t |-> now, k |-> "probe", s |-> {s}])
  /\ UNCHANGED <<now, cs, cg, ck, cat, done, live, ureg, envDone, hist, bad>>

CloseStep ==
  /\ bad = "" /\ cs = "closing" /\ now = cat + 125 * ck
  /\ Sent("bye", cg)
  /\ ck' = ck + 1
  /\ IF ck = 2 THEN /\ cs' = "closed" /\ done' = TRUE ELSE UNCHANGED <<cs, done>>
  /\ UNCHANGED <<now, regd, tasks, probing, cg, cat, ureg, gone, envDone, hist>>

Instants == {t[1] : t \in tasks} \cup (EnvTimes \ envDone) \cup {probing[s].r + 175 * probing[s].i : s \in {x \in Svcs : probing[x].r >= 0}}
            \cup (IF cs = "closing" THEN {cat + 125 * ck} ELSE {})
Pending == \E t \in Instants : t = now
Tick == /\ ~Pending /\ bad = "" /\ now < Horizon
        /\ \E t \in Instants : t > now /\ (\A u \in Instants : u > now => t <= u) /\ now' = t
        /\ UNCHANGED <<regd, tasks, probing, cs, cg, ck, cat, done, live, ureg, slog, gone, envDone, hist, bad>>

Next == \/ \E s \in Svcs : RegCoop(s) \/ RegProbe(s) \/ Unreg(s) \/ ProbeStep(s)
        \/ Close \/ Skip \/ SendStep \/ CloseStep \/ Tick
Spec == Init /\ [][Next]_vars

(* ---------------------------------------------------------------- invariants *)
NoBad == bad = ""
WithdrawnAtClose == cs = "closed" => \A s \in Svcs : ~live[s]
ByesOf(s, t0) == Cardinality({i \in 1..Len(slog) : slog[i].k = "bye" /\ s \in slog[i].s /\ slog[i].t >= t0 /\ slog[i].t <= t0 + 250})
GoodbyeComplete == \A u \in ureg : now > u[2] + 250 => ByesOf(u[1], u[2]) >= 3
QuietAfterClose == cs = "closed" => \A i \in 1..Len(slog) : slog[i].t <= now

Done == now >= Horizon \/ (~Pending /\ \A t \in Instants : t <= now)
EmitBehaviour == IF Done /\ bad = "" THEN PrintT(<<"BEHAVIOUR", hist, slog>>) ELSE TRUE
=============================================================================
