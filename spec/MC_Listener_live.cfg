SPECIFICATION FairSpec
CONSTANTS
  Addrs = {a1, a2}
  Dgrams = {"qm", "t1", "t2"}
  TcJitters = {400, 500}
  EnvTimes = {2000, 2300, 2450}
  Horizon = 5000
  CancelOnDefer = TRUE
  DedupTrain = TRUE
  AllowRepeat = FALSE
PROPERTY Answered
CHECK_DEADLOCK FALSE
