----------------------------- MODULE Oracle_C02 -----------------------------
(* Code -> spec binding for C02: each case is a byte string and what the library's decoder did with
   it (exception, validity, decoded questions/records, profile-event count, longest name);
   TLC evaluates Wire!StrictParse on the bytes and judges the clauses. *)
EXTENDS Wire, Json, IOUtils, TLC, TLCExt

ASSUME TLCSet(42, JsonDeserialize(IOEnv.TRACE_FILE))
Cases == TLCGet(42)
N == Len(Cases)

ToSet(q) == {q[k] : k \in 1..Len(q)}
Budget(len) == 5000 + 1000 * len         \* profile events; calibrated with a tenfold margin on the repaired tree, then frozen
NormRd(rd) == IF rd[1] = "x" THEN <<"x", rd[2], ToSet(rd[3])>> ELSE rd
NormRR(r) == <<r[1], r[2], r[3], r[4], NormRd(r[5])>>
LibRRs(c) == [k \in 1..Len(c.lib.rrs) |-> NormRR(c.lib.rrs[k])]

Clause(c) ==
  IF c.lib.exc # "" THEN "C02_Total"
  ELSE IF c.events > Budget(Len(c.b)) THEN "C02_Budget"
  ELSE IF c.lib.valid /\ c.maxName > 253 THEN "C02_NamesShort"
  \* the same octets handed over by an IPv6 socket (with the scope id of the interface): total as well, and the same verdict
  ELSE IF c.scoped.exc # "" THEN "C02_Total"
  ELSE IF c.scoped.valid # c.lib.valid \/ (c.lib.valid /\ (c.scoped.n # Len(c.lib.rrs) \/ c.scoped.nq # Len(c.lib.qs))) THEN "C02_ScopeChangesNothing"
  \* a large well-formed datagram (beyond StrictParse's bound) on which the library and the harness's own strict parser disagree
  ELSE IF c.bigDiffers = 1 THEN "C02_FaithfulLarge"
  ELSE IF ~c.faith THEN ""
  ELSE LET p == StrictParse(c.b) IN
       IF ~p.ok \/ ~p.supported THEN ""
       ELSE IF ~c.lib.valid THEN "C02_FaithfulAccepts"
       ELSE IF c.lib.qs # p.qs THEN "C02_FaithfulQuestions"
       ELSE IF LibRRs(c) # p.rrs THEN "C02_FaithfulRecords"
       ELSE ""

VARIABLE x
ASSUME TLCSet(50, 0) /\ TLCSet(51, 0)
Judge == \A i \in 1..N :
           LET c == Cases[i]
               cl == Clause(c)
           IN /\ TLCSet(50, TLCGet(50) + 1)
              /\ IF c.faith /\ StrictParse(c.b).ok THEN TLCSet(51, TLCGet(51) + 1) ELSE TRUE
              /\ IF cl = "" THEN TRUE ELSE PrintT(<<"VERDICT", c.id, FALSE, cl, 0>>)
Init == x = 0
Next == x = 0 /\ Judge /\ PrintT(<<"INFO", "cases", TLCGet(50), "strict_accepted", TLCGet(51)>>) /\ x' = 1
Spec == Init /\ [][Next]_x
=============================================================================
