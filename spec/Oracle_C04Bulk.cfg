SPECIFICATION Spec
POSTCONDITION Post
CHECK_DEADLOCK FALSE
