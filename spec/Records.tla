------------------------------- MODULE Records -------------------------------
(* Record identity and TTL arithmetic shared by every family (property C20 and the
   arithmetic of C05/C06/C10/C11/C12/C13).  Pure operators, no state.

   An abstract entry is a record with fields
     kind   : "Q" | "A" | "PTR" | "TXT" | "SRV" | "HINFO" | "NSEC"      (the seven kinds)
     nb     : id of the owner name after ASCII case folding  ("base")
     ns     : id of the exact owner spelling                 (never part of identity)
     type   : RR type code as written on the wire
     class  : 16 bit class field including the cache-flush / QU bit 0x8000
     ttl, created : never part of identity
     rd     : kind specific tuple, see RdKey
   Interning is done by the harness (vf/c20.py) and cross-checked against str.lower(). *)
EXTENDS Integers, Sequences, FiniteSets

ClassOf(c) == c % 32768
FlushBit(c) == c >= 32768

(* rdata identity per kind.  Case-insensitive parts are given as base ids, exact parts as
   spelling ids / raw byte-string ids. *)
RdKey(r) ==
  CASE r.kind = "A"     -> <<r.rd.addr, r.rd.scope>>                 \* address bytes id + IPv6 scope (-1 = none)
    [] r.kind = "PTR"   -> <<r.rd.aliasBase>>                        \* PTR / CNAME target, case-insensitive
    [] r.kind = "TXT"   -> <<r.rd.text>>                             \* text bytes id
    [] r.kind = "SRV"   -> <<r.rd.prio, r.rd.weight, r.rd.port, r.rd.serverBase>>
    [] r.kind = "HINFO" -> <<r.rd.cpu, r.rd.os>>
    [] r.kind = "NSEC"  -> <<r.rd.nextExact, r.rd.types>>            \* next name exact, sorted type list
    [] OTHER            -> <<>>

Key(r) == IF r.kind = "Q" THEN <<"Q", r.nb, r.type, ClassOf(r.class)>>
          ELSE <<r.kind, r.nb, r.type, ClassOf(r.class), RdKey(r)>>

Same(a, b) == Key(a) = Key(b)

(* ---- TTL arithmetic (milliseconds; ttl in seconds) -------------------------------- *)
ExpireAt(created, ttl, pct) == created + pct * ttl * 10
IsExpired(created, ttl, now) == created + 1000 * ttl <= now
IsStale(created, ttl, now)   == created + 500 * ttl <= now
IsRecent(created, ttl, now)  == created + 250 * ttl > now
PtrMinTtl == 1125
PtrFloor(kindIsPtr, ttl) == IF kindIsPtr /\ ttl > 0 /\ ttl < PtrMinTtl THEN PtrMinTtl ELSE ttl
RemainingTtl(created, ttl, now) ==
  LET r == created + 1000 * ttl - now IN IF r < 0 THEN 0 ELSE r \div 1000
=============================================================================
