SPECIFICATION Spec
CONSTANTS
  MaxQ = 1
  TwoPackets = FALSE
  KnownUniverse = {"ptr", "srv", "a"}
  Deviations = {"a"}
  QuarterRule = TRUE
  LastSecondRule = TRUE
INVARIANT Asked
INVARIANT Routes
INVARIANT AddsOwn
CONSTRAINT EmitBehaviour
CHECK_DEADLOCK FALSE
