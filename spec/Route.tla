-------------------------------- MODULE Route --------------------------------
(* Implementation-shaped model of the responder's routing decision (zeroconf/_handlers/query_handler.py:
   QueryHandler.async_response, _get_answer_strategies, _answer_question, _QueryResponse) for one registered service, and the
   C03 / C11 / C12 contract for it -- a self-contained function with a rich case analysis, explored over every query of a small
   universe; every explored case becomes one call of the real QueryHandler.async_response (props/routemodel.py).

   The registered service: type T, instance I on host H with an IPv4 address only.  Its records:
        "ptr" (T -> I)   "srv" "txt" (at I)   "a" (at H)   "nsec" (no AAAA at H)   "enum" (_services._dns-sd._udp -> T)
   A case:
        q         1..MaxQ questions [n, t, qu]: name T / I / H / E (enumeration) / X (not registered), type, QU bit
        first     how many of them travel in the first packet: Len(q) for an ordinary query; less for a truncated query whose
                  questions are spread over two packets (0: the packet that arrived first carries known answers only).  The
                  code keeps the questions of the *first* packet (msgs[0].questions) for its "single question" rule and takes
                  the answer strategies from the questions of *all* packets
        ucastSrc  the query came from a port other than 5353
        probe     it has an authority section
        known     the records the querier lists as known answers with more than half of their TTL
        rec       per record, when the host last saw it multicast: "none" | "lastsec" (< 1 s ago) | "quarter" (within a quarter
                  of its TTL) | "old"
   Code -> model:  the strategies of every question in order; per strategy the answer set with its additionals
   (_answer_question); then add_qu_question_response / add_ucast_question_response / add_mcast_question_response, which
   accumulate into _ucast, _mcast_now, _mcast_aggregate, _mcast_aggregate_last_second and _additionals (last writer wins).

   Contract (declarative, per question and record):
        Asked        a record is offered iff some question asks for it and the querier does not already hold it (C03)
        Routes       legacy source: unicast, and the normal multicast as well; QU from 5353: unicast alone when the record was
                     multicast within a quarter of its TTL, else multicast at once (probes: unicast, plus multicast at once when
                     not recent); QM: probes at once, a record seen within the last second into the protected queue, a query
                     that is a single SRV / A / AAAA question at once, everything else aggregated (C11, C12)
        AddsOwn      additionals are the service's own other records and never the answer itself (C03)                     *)
EXTENDS Integers, Sequences, FiniteSets, TLC

CONSTANTS MaxQ, KnownUniverse, Deviations,
          TwoPackets,        \* the questions may be spread over the two packets of a truncated query
          QuarterRule,       \* TRUE: the code.  FALSE: a QU answer is never multicast (slip)
          LastSecondRule     \* TRUE: the code.  FALSE: the one-second protection is skipped (slip)

VARIABLES q, first, ucastSrc, probe, known, rec, out, phase
vars == <<q, first, ucastSrc, probe, known, rec, out, phase>>

Recs == {"ptr", "srv", "txt", "a", "nsec", "enum"}
Ages == {"none", "lastsec", "quarter", "old"}
\* (ANY questions on host names are outside C03's completeness claim)
Questions == {qq \in [n : {"T", "I", "H", "E", "X"}, t : {"PTR", "SRV", "TXT", "A", "AAAA", "ANY"}, qu : BOOLEAN] :
                ~(qq.n = "H" /\ qq.t = "ANY")}
Immediate == {"SRV", "A", "AAAA"}
WithinQuarter(r) == rec[r] \in {"lastsec", "quarter"}
LastSecond(r) == rec[r] = "lastsec"

(* ---------------------------------------------------------------- the code *)
Strategies(qq) ==
  IF qq.t = "PTR" /\ qq.n = "E" THEN <<"enum">>
  ELSE (IF qq.t \in {"PTR", "ANY"} /\ qq.n = "T" THEN <<"pointer">> ELSE <<>>)
       \o (IF qq.t \in {"A", "AAAA", "ANY"} /\ qq.n = "H" THEN <<"address">> ELSE <<>>)
       \o (IF qq.t \in {"SRV", "ANY"} /\ qq.n = "I" THEN <<"service">> ELSE <<>>)
       \o (IF qq.t \in {"TXT", "ANY"} /\ qq.n = "I" THEN <<"text">> ELSE <<>>)

\* the answer section of a packet that has an authority section is not read as known answers (a probe lists what it proposes)
Kn == IF probe THEN {} ELSE known
\* _answer_question: a set of <<record, additionals>>
AnswerSet(s, qq) ==
  CASE s = "enum"    -> IF "enum" \in Kn THEN {} ELSE {<<"enum", {}>>}
    [] s = "pointer" -> IF "ptr" \in Kn THEN {} ELSE {<<"ptr", {"srv", "txt", "a", "nsec"}>>}
    [] s = "address" -> IF qq.t = "A" THEN (IF "a" \in Kn THEN {} ELSE {<<"a", {"nsec"}>>})
                        ELSE IF qq.t = "AAAA" THEN {<<"nsec", {}>>}         \* the asked family is missing
                        ELSE {}
    [] s = "service" -> IF "srv" \in Kn THEN {} ELSE {<<"srv", {"a", "nsec"}>>}
    [] s = "text"    -> IF "txt" \in Kn THEN {} ELSE {<<"txt", {}>>}

Empty == [u |-> {}, now |-> {}, agg |-> {}, last |-> {}, adds |-> [r \in Recs |-> {}]]

\* one strategy's answers routed (the three add_* methods)
Apply(o, s, qq) ==
  LET ans == AnswerSet(s, qq)
      rs == {p[1] : p \in ans}
      adds == [r \in Recs |-> IF r \in rs THEN (CHOOSE p \in ans : p[1] = r)[2] ELSE o.adds[r]]
  IN IF ~ucastSrc /\ qq.qu
     THEN \* add_qu_question_response
          [o EXCEPT !.adds = adds,
                    !.u = @ \cup {r \in rs : probe \/ (QuarterRule => WithinQuarter(r))},
                    !.now = @ \cup {r \in rs : QuarterRule /\ ~WithinQuarter(r)}]
     ELSE \* add_ucast_question_response (legacy source only), then add_mcast_question_response
          LET single == first = 1 /\ q[1].t \in Immediate IN      \* len(self._questions) == 1: the first packet's
          [o EXCEPT !.adds = adds,
                    !.u = IF ucastSrc THEN @ \cup rs ELSE @,
                    !.now = @ \cup {r \in rs : probe \/ (~(LastSecondRule /\ LastSecond(r)) /\ single)},
                    !.last = @ \cup {r \in rs : ~probe /\ LastSecondRule /\ LastSecond(r)},
                    !.agg = @ \cup {r \in rs : ~probe /\ ~(LastSecondRule /\ LastSecond(r)) /\ ~single}]

RECURSIVE RunStrats(_, _, _, _)
RunStrats(o, ss, k, qq) == IF k > Len(ss) THEN o ELSE RunStrats(Apply(o, ss[k], qq), ss, k + 1, qq)
RECURSIVE RunQuestions(_, _)
RunQuestions(o, k) == IF k > Len(q) THEN o ELSE RunQuestions(RunStrats(o, Strategies(q[k]), 1, q[k]), k + 1)

NoStrategy == \A k \in 1..Len(q) : Strategies(q[k]) = <<>>
\* the dictionaries handed to the queues: record -> additionals, for the records of each route
Result(o) == [u |-> o.u, now |-> o.now, agg |-> o.agg, last |-> o.last,
              adds |-> [r \in Recs |-> IF r \in o.u \cup o.now \cup o.agg \cup o.last THEN o.adds[r] ELSE {}]]

Init ==
  /\ q \in UNION {[1..k -> Questions] : k \in 1..MaxQ}
  /\ first \in (IF TwoPackets THEN 0..Len(q) ELSE {Len(q)})
  /\ ucastSrc \in BOOLEAN /\ probe \in BOOLEAN
  /\ known \in SUBSET KnownUniverse
  /\ \E g \in Ages : \E d \in Deviations \cup {"-"} : \E g2 \in Ages :
        /\ (d = "-" => g2 = g)
        /\ rec = [r \in Recs |-> IF r = d THEN g2 ELSE g]
  /\ out = Empty /\ phase = "in"

Respond ==
  /\ phase = "in"
  /\ out' = IF NoStrategy THEN Empty ELSE Result(RunQuestions(Empty, 1))
  /\ phase' = "done"
  /\ UNCHANGED <<q, first, ucastSrc, probe, known, rec>>

Next == Respond
Spec == Init /\ [][Next]_vars

(* ---------------------------------------------------------------- contract *)
Match(qq) ==
  IF qq.t = "PTR" /\ qq.n = "E" THEN {"enum"}
  ELSE (IF qq.t \in {"PTR", "ANY"} /\ qq.n = "T" THEN {"ptr"} ELSE {})
       \cup (IF qq.t \in {"SRV", "ANY"} /\ qq.n = "I" THEN {"srv"} ELSE {})
       \cup (IF qq.t \in {"TXT", "ANY"} /\ qq.n = "I" THEN {"txt"} ELSE {})
       \cup (IF qq.t = "A" /\ qq.n = "H" THEN {"a"} ELSE {})
       \cup (IF qq.t = "AAAA" /\ qq.n = "H" THEN {"nsec"} ELSE {})
Owed(qq) == Match(qq) \ Kn
Qs == {q[k] : k \in 1..Len(q)}
SingleImmediate == Len(q) = 1 /\ q[1].t \in Immediate

\* "a query consisting of a single SRV, A or AAAA question": for a query that came in two packets the statement can be read on the
\* query as a whole or on the packet that carried the question section first; both readings are accepted, consistently
FirstSingle == first = 1 /\ q[1].t \in Immediate
Readings == {SingleImmediate, FirstSingle}
\* where the answer r to question qq goes (S: the query counts as a single immediate question)
RouteOf(qq, r, S) ==
  IF ~ucastSrc /\ qq.qu
  THEN [u |-> probe \/ WithinQuarter(r), now |-> ~WithinQuarter(r), agg |-> FALSE, last |-> FALSE]
  ELSE [u |-> ucastSrc,
        now |-> probe \/ (~LastSecond(r) /\ S),
        agg |-> ~probe /\ ~LastSecond(r) /\ ~S,
        last |-> ~probe /\ LastSecond(r)]
WantS(f(_), S) == {r \in Recs : \E qq \in Qs : r \in Owed(qq) /\ f(RouteOf(qq, r, S))}
Want(f(_)) == WantS(f, SingleImmediate)

Asked == phase = "done" => (out.u \cup out.now \cup out.agg \cup out.last) = UNION {Owed(qq) : qq \in Qs}
RoutesUnder(S) ==
  /\ out.u = WantS(LAMBDA x : x.u, S)
  /\ out.now = WantS(LAMBDA x : x.now, S)
  /\ out.agg = WantS(LAMBDA x : x.agg, S)
  /\ out.last = WantS(LAMBDA x : x.last, S)
Routes == phase = "done" => \E S \in Readings : RoutesUnder(S)
Own == [r \in Recs |-> CASE r = "ptr" -> {"srv", "txt", "a", "nsec"} [] r = "srv" -> {"a", "nsec"} [] r = "a" -> {"nsec"} [] OTHER -> {}]
AddsOwn == phase = "done" => \A r \in Recs : out.adds[r] \subseteq Own[r] /\ r \notin out.adds[r]
EmitBehaviour == IF phase = "done" THEN PrintT(<<"BEHAVIOUR", q, ucastSrc, probe, known, rec, out, first>>) ELSE TRUE
\* every K-th case only (one worker: the count is deterministic)
EmitEvery(K) == IF phase = "done" THEN /\ TLCSet(60, TLCGet(60) + 1)
                                      /\ (IF TLCGet(60) % K = 0 THEN EmitBehaviour ELSE TRUE)
                ELSE TRUE
=============================================================================
