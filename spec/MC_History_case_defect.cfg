SPECIFICATION Spec
CONSTANTS
  Spellings = {"q1", "Q1", "q2"}
  KAs = {"a"}
  EnvTimes = {1000, 1400, 2000, 2600}
  ExpireByOrder = FALSE
  CaseSensitive = TRUE
VIEW view
INVARIANT NoBad
INVARIANT KeysOnce
CHECK_DEADLOCK FALSE
