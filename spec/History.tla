------------------------------- MODULE History -------------------------------
(* Implementation-shaped model of the question history (zeroconf/_history.py: QuestionHistory) against HistoryContract.tla.
   Time in integer milliseconds.

   Code -> model:
     _history : dict DNSQuestion -> (time, known answers)        keys (the dict's insertion order: re-assigning an existing key
                                                                       keeps its position) and val
     DNSQuestion hash / eq: lower-cased name, type, class          a question in any spelling is its key (Spell collapses them)
     add_question_at_time / suppresses / async_expire             Add / Ask / Expire (the periodic 10 s clean-up, at any time)
   The environment adds sightings, asks and lets the clean-up run at the instants EnvTimes, over two questions (the first in two
   spellings) and the subsets of two known answers.

   Contract: every answer of suppresses() is HSuppresses of the sightings so far -- the clean-up is invisible.
   Defect configurations: ExpireByOrder (the clean-up drops everything in front of the first expired entry it meets, walking back
   from the newest: seeded change C13-h) and CaseSensitive (the table is keyed by the spelled name: C13-i) must fail.          *)
EXTENDS Integers, Sequences, FiniteSets, TLC, HistoryContract

CONSTANTS Spellings,      \* e.g. {"q1", "Q1", "q2"}
          KAs,            \* known-answer records
          EnvTimes,
          ExpireByOrder, CaseSensitive

Key(sp) == IF sp = "Q1" THEN "q1" ELSE sp
ImplKey(sp) == IF CaseSensitive THEN sp ELSE Key(sp)
Questions == {Key(sp) : sp \in Spellings}

VARIABLES now, keys, val,        \* implementation: insertion-ordered dict
          last,                  \* contract
          envDone, hist, bad
vars == <<now, keys, val, last, envDone, hist, bad>>
view == <<now, keys, val, last, envDone, bad>>

Init == /\ now = 0 /\ keys = <<>> /\ val = [k \in Spellings |-> NoSight] /\ last = [q \in Questions |-> NoSight]
        /\ envDone = {} /\ hist = <<>> /\ bad = ""
EnvNow == now \in EnvTimes /\ now \notin envDone /\ bad = ""
Range(s) == {s[i] : i \in 1..Len(s)}

Add(sp, ka) ==
  /\ EnvNow
  /\ LET k == ImplKey(sp) IN
     /\ keys' = IF k \in Range(keys) THEN keys ELSE Append(keys, k)
     /\ val' = [val EXCEPT ![k] = [t |-> now, ka |-> ka]]
  /\ last' = HAfterAdd(last, Key(sp), now, ka)
  /\ envDone' = envDone \cup {now} /\ hist' = Append(hist, [op |-> "add", t |-> now, sp |-> sp, ka |-> ka, res |-> FALSE])
  /\ UNCHANGED <<now, bad>>

ImplSuppresses(sp, ka) ==
  LET k == ImplKey(sp) IN k \in Range(keys) /\ now - val[k].t <= 999 /\ val[k].ka \subseteq ka

Ask(sp, ka) ==
  /\ EnvNow
  /\ LET r == ImplSuppresses(sp, ka) IN
     /\ bad' = IF r # HSuppresses(last, Key(sp), now, ka) THEN "C13_HistorySuppresses" ELSE ""
     /\ hist' = Append(hist, [op |-> "ask", t |-> now, sp |-> sp, ka |-> ka, res |-> r])
  /\ envDone' = envDone \cup {now}
  /\ UNCHANGED <<now, keys, val, last>>

Expired(k) == now - val[k].t > 999
\* index of the last (newest) expired entry, 0 if none
LastExpired == IF \E i \in 1..Len(keys) : Expired(keys[i]) THEN CHOOSE i \in 1..Len(keys) : Expired(keys[i]) /\ \A j \in (i + 1)..Len(keys) : ~Expired(keys[j]) ELSE 0
Expire ==
  /\ EnvNow
  /\ keys' = IF ExpireByOrder THEN SubSeq(keys, LastExpired + 1, Len(keys)) ELSE SelectSeq(keys, LAMBDA k : ~Expired(k))
  /\ envDone' = envDone \cup {now} /\ hist' = Append(hist, [op |-> "expire", t |-> now, sp |-> "", ka |-> {}, res |-> FALSE])
  /\ UNCHANGED <<now, val, last, bad>>

Tick == /\ bad = "" /\ (now \notin EnvTimes \/ now \in envDone)
        /\ \E t \in EnvTimes : t > now /\ (\A u \in EnvTimes : u > now => t <= u) /\ now' = t
        /\ UNCHANGED <<keys, val, last, envDone, hist, bad>>

Next == \/ \E sp \in Spellings, ka \in SUBSET KAs : Add(sp, ka) \/ Ask(sp, ka)
        \/ Expire \/ Tick
Spec == Init /\ [][Next]_vars

NoBad == bad = ""
\* the table never holds a key twice
KeysOnce == Len(keys) = Cardinality(Range(keys))
Done == \A t \in EnvTimes : t \in envDone
EmitBehaviour == IF Done /\ bad = "" THEN PrintT(<<"BEHAVIOUR", hist>>) ELSE TRUE
=============================================================================
