SPECIFICATION Spec
CONSTANTS
  Spellings = {"q1", "Q1", "q2"}
  KAs = {"a"}
  EnvTimes = {1000, 1400, 1999, 2600, 2700}
  ExpireByOrder = TRUE
  CaseSensitive = FALSE
VIEW view
INVARIANT NoBad
INVARIANT KeysOnce
CHECK_DEADLOCK FALSE
