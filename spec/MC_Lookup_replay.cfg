SPECIFICATION Spec
CONSTANTS
  Timeout = 3000
  Jitter = 20
  EnvTimes = {1100, 1300, 1500, 2600}
  InitialCache = {{}, {"srv"}, {"txt"}, {"a"}, {"srv", "txt"}, {"srv", "a"}, {"txt", "a"}, {"srv", "txt", "a"}}
  CheckSpacing = FALSE
  Horizon = 6000
CONSTRAINT EmitBehaviour
INVARIANT NoBad
INVARIANT ReturnBy
INVARIANT SuccessIff
CHECK_DEADLOCK FALSE
