---------------------------- MODULE Trace_Querier ----------------------------
(* Code -> spec binding for the querier family: C10 (refresh queries, rate limit, scheduler
   liveness) and the browser part of C13 (known answers, QU-then-QM, TC trains).

   Input: { vocab: [{id, ty}], own: "C10"|"C13"|"ALL", traces: [{id, events}] } recorded by
   props/querierfam.py: one real instance with one browser; the harness plays the rest of the link.

   Contract state: the pointer records the host has learned (Cache!Ingest over PTR identities),
   the browser's start instant / delay / forced question type, the instants of its queries, and
   for each learned record the set of refresh windows already served.

   Refresh windows of a record with creation time c (ms) and effective TTL T (s), k = 0,1,2:
        [ c + (750 + 100k) T - delay ,  c + (750 + 100k) T + (k+1) delay ]
   (obligations are counted for records whose 75 % point falls after the browser's four start-up queries;
   a record that was already past it when the browser started is covered by the start-up queries)
   -- "queried for at about 75 percent of its TTL and again at further 10 percent steps until it
   expires, each at most the configured inter-query delay late".  The early slack of one delay is
   the no-churn rule (a refresh is not re-scheduled when it moves the due time by less than one
   delay); lateness may add up over the steps because each step is counted from the previous
   attempt.  Liveness is expressed as these deadlines (bounded-time safety).                     *)
EXTENDS Integers, Sequences, FiniteSets, Json, IOUtils, TLC, TLCExt

ASSUME TLCSet(42, JsonDeserialize(IOEnv.TRACE_FILE))
D == TLCGet(42)
Traces == D.traces
N == Len(Traces)
Vocab == D.vocab
Ids == 1..Len(Vocab)
TyOf(i) == Vocab[i].ty
RRof(i) == TyOf(i)
IsPtrId(i) == TRUE
INSTANCE Cache

VARIABLES tid, l, s
vars == <<tid, l, s>>
ToSet(q) == {q[k] : k \in 1..Len(q)}

ClausesOf ==
  [C10 |-> {"C10_StartupSchedule", "C10_RefreshDue", "C10_NoStaleSchedule", "C10_MinSpacing", "C10_QueryShape", "C10_RescueChain"},
   C13 |-> {"C13_KnownAnswersExact", "C13_RemainingTtl", "C13_QuThenQm", "C13_TcOnAllButLast", "C13_Suppressed",
            "C13_NotSuppressed", "C13_QuestionOnce"}]
Own(clause) == \/ D.own = "ALL" \/ clause \in {"Trace_Malformed", "C15_NoException"} \/ clause \in ClausesOf[D.own]
Bad(cond, clause) == cond /\ Own(clause)
Fail(st, clause) == [st EXCEPT !.err = clause]

\* type ids: 1 and 2 are service types, 3 is a subtype of 1 -- a browser of type 1 learns (and must keep alive) its pointers too
Tys == 1..3
Tracks(st, ty) == ty \in st.types \/ (ty = 3 /\ 1 \in st.types)
InitState ==
  [rec |-> [i \in Ids |-> None], lastDid |-> 0, lastProc |-> -100000, lastQU |-> FALSE,
   active |-> FALSE, types |-> {}, delay |-> 0, forced |-> "none", bs |-> 0, r |-> -1, nstart |-> 0, lastQ |-> -1,
   hist |-> [ty \in Tys |-> [t |-> -100000, ka |-> {}]], canAns |-> {},
   sat |-> {}, chain |-> {}, once |-> {}, soloed |-> {}, qT |-> -1, qKa |-> {}, qTypes |-> {}, qTc |-> FALSE, qNeed |-> {},
   hold |-> {}, lastTcSrc |-> 0,          \* truncated queries heard from the link, held per source until their continuation
   busy |-> {}, lag |-> 0,                \* intervals in which the application keeps the loop busy; lateness of the start-up sequence so far
   err |-> ""]

WLo(r, k, delay) == r.c + (750 + 100 * k) * r.ttl - delay
WHi(r, k, delay) == r.c + (750 + 100 * k) * r.ttl + (k + 1) * delay
Mine(st, i) == st.active /\ st.rec[i] # None /\ Tracks(st, TyOf(i))
SteadyFrom(st) == st.bs + 120 + 14000

(* a deadline has passed when the clock is strictly beyond the end of an unserved window *)
MissedDeadline(st, t) ==
  \E i \in Ids : Mine(st, i) /\ \E k \in 0..2 :
      /\ WHi(st.rec[i], k, st.delay) < t
      /\ WLo(st.rec[i], 0, st.delay) >= SteadyFrom(st)     \* its 75 % point came after the browser was in steady state
      /\ <<i, k>> \notin st.sat

(* "... and again at further 10 percent steps until it expires (each at most the configured inter-query delay late)": for a record
   that is the only one the browser knows, that was learned once and never refreshed, and whose 75 % point came in steady state,
   nothing interferes with its schedule (no other question, no rate limit, no re-scheduling), so the steps are exact: attempt k + 1
   follows attempt k by a tenth of the TTL, unless that instant is not before the expiry.  st.chain remembers when an attempt was
   made. *)
Solo(st, i) == Cardinality(st.types) = 1 /\ i \in st.once /\ i \in st.soloed /\ \A j \in Ids \ {i} : st.rec[j] = None
MissedChain(st, t) ==
  \E x \in st.chain :
      /\ x.k < 2 /\ Mine(st, x.i) /\ Solo(st, x.i) /\ <<x.i, x.k + 1>> \notin st.sat
      /\ WLo(st.rec[x.i], 0, st.delay) >= SteadyFrom(st)
      /\ 100 * st.rec[x.i].ttl >= st.delay
      /\ x.a + 100 * st.rec[x.i].ttl + 1 < st.rec[x.i].c + 1000 * st.rec[x.i].ttl      \* the next step falls before the expiry
      /\ x.a + 100 * st.rec[x.i].ttl + 2 < t                                              \* ... and is overdue

(* ---- end of a query instant: the known answers of all its packets are judged together ---- *)
RemainingOf(e, t) == (e.c + 1000 * e.ttl - t) \div 1000
ExpectedKa(st, t) ==
  {<<i, RemainingOf(st.rec[i], t)>> : i \in {j \in Ids : st.rec[j] # None /\ TyOf(j) \in st.qTypes /\ ~(st.rec[j].c + 500 * st.rec[j].ttl <= t)}}

CloseQuery(st) ==
  IF st.qT < 0 THEN st
  ELSE IF Bad(st.qTc, "C13_TcOnAllButLast") THEN Fail(st, "C13_TcOnAllButLast")
  ELSE IF Bad(~(st.qNeed \subseteq st.qTypes), "C13_NotSuppressed") THEN Fail(st, "C13_NotSuppressed")
  ELSE IF Bad(~(st.qNeed \subseteq st.qTypes), "C10_StartupSchedule") THEN Fail(st, "C10_StartupSchedule")
  ELSE IF Bad({p[1] : p \in st.qKa} # {p[1] : p \in ExpectedKa(st, st.qT)}, "C13_KnownAnswersExact") THEN Fail(st, "C13_KnownAnswersExact")
  ELSE IF Bad(st.qKa # ExpectedKa(st, st.qT), "C13_RemainingTtl") THEN Fail(st, "C13_RemainingTtl")
  ELSE [st EXCEPT !.qT = -1, !.qKa = {}, !.qTypes = {}, !.qTc = FALSE, !.qNeed = {}]

Pre(st0, t) ==
  LET st == IF st0.qT >= 0 /\ st0.qT # t THEN CloseQuery(st0) ELSE st0 IN
  IF st.err # "" THEN st
  ELSE IF Bad(MissedDeadline(st, t), "C10_RefreshDue") THEN Fail(st, "C10_RefreshDue")
  ELSE IF Bad(MissedChain(st, t), "C10_RescueChain") THEN Fail(st, "C10_RescueChain")
  ELSE st

(* ------------------------------------------------------------------ queries heard from the link
   "heard it as an authoritative responder": only while this instance has services registered.  A query with the TC bit is held
   per source address until a packet without TC arrives from that source or the (logged) hold time is over; the questions and
   known answers of all its packets then count as one query, heard at the arrival of its last packet. *)
Assembled(st, pkts, t) ==
  LET asked == {ty \in Tys : \E k \in 1..Len(pkts) : \E j \in 1..Len(pkts[k].hq) : pkts[k].hq[j].ty = ty /\ ~pkts[k].hq[j].qu}
      ka == UNION {ToSet(pkts[k].hka) : k \in 1..Len(pkts)}
      \* a refresh attempt that falls into the 999 ms after a question was heard is made by not asking (C13: the question is on the
      \* link, the answer will be multicast).  The attempts (record, step) of that type whose nominal instant lies in those 999 ms --
      \* or whose window is open -- count as made when the list heard holds nothing this host does not know.
      serves == {p \in Ids \X (0..2) :
                   /\ st.rec[p[1]] # None /\ TyOf(p[1]) \in asked \cap st.canAns
                   /\ ka \subseteq {i \in Ids : st.rec[i] # None /\ TyOf(i) = TyOf(p[1]) /\ ~(st.rec[i].c + 500 * st.rec[i].ttl <= t)}
                   /\ t + 999 >= st.rec[p[1]].c + (750 + 100 * p[2]) * st.rec[p[1]].ttl
                   /\ t <= WHi(st.rec[p[1]], p[2], st.delay)}
  IN [st EXCEPT !.hist = [ty \in Tys |-> IF ty \in st.canAns /\ ty \in asked THEN [t |-> t, ka |-> ka] ELSE st.hist[ty]],
                !.sat = @ \cup serves]
HoldOf(st, src) == CHOOSE h \in st.hold : h.src = src
HeardQuery(st, e) ==
  IF st.canAns = {} THEN st                                   \* nothing registered: queries are not looked at
  ELSE LET held == \E h \in st.hold : h.src = e.src
           old == IF held THEN HoldOf(st, e.src).pkts ELSE <<>>
           pk == [hq |-> e.hq, hka |-> e.hka, did |-> e.did]
       IN IF e.tcq
          THEN IF \E k \in 1..Len(old) : old[k].did = e.did THEN st             \* the same bytes are waiting already
               ELSE [st EXCEPT !.hold = {h \in @ : h.src # e.src} \cup {[src |-> e.src, pkts |-> Append(old, pk), deadline |-> -1, last |-> e.t]},
                               !.lastTcSrc = e.src]
          ELSE Assembled([st EXCEPT !.hold = {h \in @ : h.src # e.src}], Append(old, pk), e.t)
OnTcDraw(st, e) ==
  IF \E h \in st.hold : h.src = st.lastTcSrc
  THEN LET h == HoldOf(st, st.lastTcSrc) IN [st EXCEPT !.hold = (@ \ {h}) \cup {[h EXCEPT !.deadline = e.t + e.v]}]
  ELSE st
RECURSIVE FireHolds(_, _)
FireHolds(st, t) ==
  LET due == {h \in st.hold : h.deadline >= 0 /\ h.deadline <= t} IN
  IF due = {} THEN st
  ELSE LET h == CHOOSE x \in due : \A y \in due : x.deadline <= y.deadline
       IN FireHolds(Assembled([st EXCEPT !.hold = @ \ {h}], h.pkts, h.last), t)

(* ------------------------------------------------------------------ events *)
OnRecv(st0, e) ==
  LET st == CloseQuery(st0) IN
  IF st.err # "" THEN st
  ELSE LET dup == e.did = st.lastDid /\ e.t - 1000 < st.lastProc /\ ~st.lastQU IN
    IF dup THEN st
    ELSE IF e.q THEN HeardQuery([st EXCEPT !.lastDid = e.did, !.lastProc = e.t, !.lastQU = e.qu], e)
    ELSE LET nr == Ingest(st.rec, e.items, e.t) IN
         [st EXCEPT !.lastDid = e.did, !.lastProc = e.t, !.lastQU = FALSE, !.rec = nr,
                    !.sat = {p \in st.sat : nr[p[1]] = st.rec[p[1]]},
                    !.chain = {x \in st.chain : nr[x.i] = st.rec[x.i]},
                    \* learned once: in the cache now, was not there before this datagram; any later sighting takes it out
                    !.once = {i \in Ids : nr[i] # None /\ ((st.rec[i] = None) \/ (i \in st.once /\ nr[i] = st.rec[i]))},
                    \* alone since it was learned: no other record known at any moment of its life so far
                    !.soloed = {i \in Ids : nr[i] # None /\ (\A j \in Ids \ {i} : nr[j] = None /\ st.rec[j] = None)
                                                          /\ ((st.rec[i] = None) \/ i \in st.soloed)}]

PtrQs(e) == {e.qs[k] : k \in {j \in 1..Len(e.qs) : e.qs[j].rt = 12}}
AskedTypes(e) == {q.ty : q \in PtrQs(e)}

(* a refresh query needs a record of its type that is past the start of its first window and that was neither refreshed nor
   withdrawn (both replace / remove the entry) nor reported Removed after it expired (OnRemoved): a record that ran out a
   moment ago and has not been purged yet may still be asked for -- the statement only excludes "refreshed or withdrawn" *)
Justified(st, ty, t) ==
  \E i \in Ids : /\ st.rec[i] # None /\ TyOf(i) = ty
                 /\ t >= WLo(st.rec[i], 0, st.delay)

OnRemoved(st, e) ==
  IF e.kind = "rem" /\ e.alias \in Ids /\ st.rec[e.alias] # None /\ st.rec[e.alias].c + 1000 * st.rec[e.alias].ttl <= e.t
  THEN [st EXCEPT !.rec[e.alias] = None] ELSE st

Served(st, tys, t) ==
  {<<i, k>> : i \in {j \in Ids : st.rec[j] # None /\ TyOf(j) \in tys}, k \in 0..2} \cap
  {p \in Ids \X (0..2) : st.rec[p[1]] # None /\ t >= WLo(st.rec[p[1]], p[2], st.delay) /\ t <= WHi(st.rec[p[1]], p[2], st.delay)}

QuExpected(st) == IF st.forced = "QU" THEN TRUE ELSE IF st.forced = "QM" THEN FALSE ELSE st.nstart = 0

(* start-up instants: s + r, then 1 s, 4 s and 9 s apart; r is the logged environment draw *)
\* (each start-up query arms the next one relative to the instant at which it actually ran: lateness carries over)
DueAt(st, k) == st.bs + st.r + st.lag + (CASE k = 0 -> 0 [] k = 1 -> 1000 [] k = 2 -> 5000 [] OTHER -> 14000)
\* a timer that falls due while the application keeps the loop busy fires when the loop is free again
BusyEnd(st, d) == IF \E b \in st.busy : b[1] <= d /\ d < b[2] THEN (CHOOSE b \in st.busy : b[1] <= d /\ d < b[2])[2] ELSE d

(* duplicate-question suppression (RFC 6762 7.3): asked or heard within the previous 999 ms with known
   answers that contained nothing this host does not know itself; QU questions are never suppressed *)
KaIds(st, ty, t) == {i \in Ids : st.rec[i] # None /\ TyOf(i) = ty /\ ~(st.rec[i].c + 500 * st.rec[i].ttl <= t)}
Suppressed(st, ty, t) == /\ ~QuExpected(st)
                         /\ t - st.hist[ty].t <= 999
                         /\ st.hist[ty].ka \subseteq KaIds(st, ty, t)

(* a start-up instant that went by without any query datagram: every question must have been suppressed *)
RECURSIVE SkipDue(_, _)
SkipDue(st, t) ==
  IF ~st.active \/ st.nstart >= 4 \/ st.r < 0 \/ BusyEnd(st, DueAt(st, st.nstart)) >= t THEN st
  ELSE LET d == BusyEnd(st, DueAt(st, st.nstart))
           sh == FireHolds(st, d)            \* truncated queries whose hold ran out before that instant count, later ones do not
       IN IF Bad(\E ty \in sh.types : ~Suppressed(sh, ty, d), "C10_StartupSchedule") THEN Fail(sh, "C10_StartupSchedule")
          ELSE IF Bad(\E ty \in sh.types : ~Suppressed(sh, ty, d), "C13_NotSuppressed") THEN Fail(sh, "C13_NotSuppressed")
          ELSE SkipDue([sh EXCEPT !.nstart = @ + 1, !.lastQ = d, !.lag = @ + d - DueAt(st, st.nstart)], t)

Accumulate(st, e, t) ==
  [st EXCEPT !.qT = t, !.qKa = @ \cup {<<e.ka[k][1], e.ka[k][2]>> : k \in 1..Len(e.ka)},
             !.qTypes = @ \cup AskedTypes(e), !.qTc = e.tc,
             !.sat = @ \cup Served(st, AskedTypes(e), t),
             !.chain = @ \cup {[i |-> p[1], k |-> p[2], a |-> t] : p \in Served(st, AskedTypes(e), t) \ st.sat},
             !.hist = [ty \in Tys |-> IF \E q \in PtrQs(e) : q.ty = ty /\ ~q.qu
                                        THEN [t |-> t, ka |-> KaIds(st, ty, t)] ELSE st.hist[ty]]]

OnQuery(st, e) ==
  LET t == e.t
      tys == AskedTypes(e)
  IN IF ~st.active THEN Fail(st, "C10_QueryShape")
     ELSE IF Bad(e.flags \div 32768 # 0 \/ e.nauth # 0 \/ e.nadd # 0 \/ ~(\A ty \in tys : ty \in Tys /\ Tracks(st, ty)), "C10_QueryShape")
          THEN Fail(st, "C10_QueryShape")
     ELSE IF st.qT = t
          THEN \* continuation packet of the same instant
               IF Bad(~st.qTc /\ Len(e.qs) = 0, "C13_TcOnAllButLast") THEN Fail(st, "C13_TcOnAllButLast")
               \* one question is asked once per query: not again in a later datagram of the same instant
               ELSE IF Bad(AskedTypes(e) \cap st.qTypes # {}, "C13_QuestionOnce") THEN Fail(st, "C13_QuestionOnce")
               ELSE Accumulate(st, e, t)
     ELSE IF Bad(\E q \in PtrQs(e) : q.qu # QuExpected(st), "C13_QuThenQm") THEN Fail(st, "C13_QuThenQm")
     ELSE IF st.nstart < 4
          THEN IF Bad(st.r < 20 \/ st.r > 120 \/ t # BusyEnd(st, DueAt(st, st.nstart)), "C10_StartupSchedule") THEN Fail(st, "C10_StartupSchedule")
               ELSE IF Bad(\E ty \in tys : Suppressed(st, ty, t), "C13_Suppressed") THEN Fail(st, "C13_Suppressed")
               ELSE \* the other browsed types must follow in further datagrams of this instant unless suppressed
                    [Accumulate(st, e, t) EXCEPT !.nstart = st.nstart + 1, !.lastQ = t, !.lag = @ + t - DueAt(st, st.nstart),
                                                 !.qNeed = {ty \in st.types : ~Suppressed(st, ty, t)}]
     ELSE IF Bad(t < st.lastQ + st.delay, "C10_MinSpacing") THEN Fail(st, "C10_MinSpacing")
     ELSE IF Bad(\E ty \in tys : ~Justified(st, ty, t), "C10_NoStaleSchedule") THEN Fail(st, "C10_NoStaleSchedule")
     ELSE IF Bad(\E ty \in tys : Suppressed(st, ty, t), "C13_Suppressed") THEN Fail(st, "C13_Suppressed")
     ELSE [Accumulate(st, e, t) EXCEPT !.lastQ = t]


Step(st0, e) ==
  IF e.ev = "start" THEN InitState
  ELSE LET st1 == Pre(FireHolds(SkipDue(st0, e.t), e.t), e.t) IN
   IF st1.err # "" THEN st1
   ELSE CASE e.ev = "recv"    -> OnRecv(st1, e)
          [] e.ev = "query"   -> OnQuery(st1, e)
          [] e.ev = "bstart"  -> [CloseQuery(st1) EXCEPT !.active = TRUE, !.types = ToSet(e.types), !.delay = e.delay,
                                                        !.forced = e.forced, !.bs = e.t, !.r = -1, !.nstart = 0, !.lastQ = -1, !.sat = {}, !.chain = {}]
          [] e.ev = "rand"    -> IF e.site = "tc" THEN OnTcDraw(st1, e)
                                 ELSE IF e.site = "first" /\ st1.active /\ st1.r < 0 THEN [st1 EXCEPT !.r = e.v] ELSE st1
          [] e.ev = "reg"     -> [st1 EXCEPT !.canAns = @ \cup {e.ty}]
          [] e.ev = "busy"    -> [st1 EXCEPT !.busy = @ \cup {<<e.from, e.until>>}]
          [] e.ev = "bcancel" -> [CloseQuery(st1) EXCEPT !.active = FALSE]
          [] e.ev = "cb"      -> OnRemoved(st1, e)
          [] e.ev = "end"     -> CloseQuery(st1)
          [] e.ev = "exc"     -> Fail(st1, "C15_NoException")
          [] OTHER            -> Fail(st1, "Trace_Malformed")

Events == Traces[tid].events
Init == /\ tid \in 1..N /\ l = 1 /\ s = InitState
Next == /\ s.err = "" /\ l <= Len(Events)
        /\ s' = Step(s, Events[l])
        /\ l' = IF s'.err = "" THEN l + 1 ELSE l
        /\ UNCHANGED tid
Spec == Init /\ [][Next]_vars

ASSUME \A i \in 1..N : TLCSet(1000 + i, <<0, "">>)
(* with a "dbg" field in the input the monitor state of a rejected trace is printed *)
DebugDump == IF s.err # "" /\ "dbg" \in DOMAIN D THEN PrintT(<<"DEBUG", Traces[tid].id, l, s>>) ELSE TRUE
Progress ==
  LET cur == TLCGet(1000 + tid)
      score == IF s.err = "" THEN 2 * l ELSE 2 * l + 1
  IN /\ IF score > cur[1] THEN TLCSet(1000 + tid, <<score, s.err>>) ELSE TRUE
     /\ DebugDump
Verdicts ==
  \A i \in 1..N :
    LET r == TLCGet(1000 + i)
        n == Len(Traces[i].events)
    IN IF r[1] = 2 * (n + 1) /\ r[2] = "" THEN PrintT(<<"VERDICT", Traces[i].id, TRUE, "", n>>)
       ELSE PrintT(<<"VERDICT", Traces[i].id, FALSE, r[2], r[1] \div 2>>)
=============================================================================
