---------------------------- MODULE MC_CacheImpl ----------------------------
EXTENDS CacheImpl
MC_RR == <<1, 1, 2>>      \* identities 1 and 2 share (name, type, class); 3 is a PTR of another name
=============================================================================
