SPECIFICATION Spec
CONSTANTS
  RegAt = 0
  BrowseTimes = {0, 200, 360, 500, 700, 830, 1000, 1400, 3000, 8000, 40000}
  UnregTimes = {900, 1500, 2000, 2500, 5000, 9000, 20000, 60000}
  LossBudget = 2
  Converge = 16000
  Settle = 3000
  Horizon = 80000
  Goodbyes = 3
VIEW view
INVARIANT AddedInTime
INVARIANT RemovedInTime
INVARIANT Alternate
CHECK_DEADLOCK FALSE
