SPECIFICATION Spec
CONSTANTS
  Names = {"n1", "n2"}
  Types = {"t1", "t2"}
  Hosts = {"h1", "h2"}
  MaxOps = 4
  BucketsBeforeCheck = TRUE
  RemoveByGivenInfo = FALSE
VIEW view
INVARIANT Contract
CHECK_DEADLOCK FALSE
