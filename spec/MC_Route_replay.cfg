SPECIFICATION Spec
CONSTANTS
  MaxQ = 1
  TwoPackets = TRUE
  KnownUniverse = {"ptr", "srv", "txt", "a", "enum"}
  Deviations = {"ptr", "srv", "txt", "a", "nsec", "enum"}
  QuarterRule = TRUE
  LastSecondRule = TRUE
INVARIANT Asked
INVARIANT Routes
INVARIANT AddsOwn
CONSTRAINT EmitSampled
CHECK_DEADLOCK FALSE
