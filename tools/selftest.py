#!/usr/bin/env python3
"""Apply each self-test mutant to a scratch copy of the repository source (outside /repo and
/verif), run the named check with VERIF_REPO pointing at it, expect exit 1; and expect exit 0 on
the pristine copy.  usage: selftest.py [mutant-id-prefix ...]"""
import os
import shutil
import subprocess
import sys
import tempfile

VERIF = os.path.dirname(os.path.dirname(os.path.abspath(__file__)))
sys.path.insert(0, VERIF)
from mutants.catalog import M  # noqa: E402


def run_one(mu, tier='quick'):
    scr = tempfile.mkdtemp(prefix='zc-verif.', dir='/var/tmp')
    try:
        shutil.copytree('/repo/src/zeroconf', os.path.join(scr, 'src', 'zeroconf'))
        p = os.path.join(scr, 'src', 'zeroconf', mu['file'])
        s = open(p).read()
        if s.count(mu['old']) != 1:
            return 'BROKEN-MUTANT(old text occurs %d times)' % s.count(mu['old'])
        open(p, 'w').write(s.replace(mu['old'], mu['new']))
        r = subprocess.run([sys.executable, '-c', 'import sys; sys.path.insert(0, %r); import zeroconf' % os.path.join(scr, 'src')],
                           capture_output=True, text=True)
        if r.returncode != 0:
            return 'BROKEN-MUTANT(does not import)'
        env = dict(os.environ, VERIF_REPO=scr, VERIF_OUT=os.path.join(scr, 'out'))
        r = subprocess.run([os.path.join(VERIF, 'check'), mu['prop'], '--tier', tier], env=env, capture_output=True,
                           text=True, cwd=VERIF)
        first = [l for l in r.stdout.splitlines() if l.startswith('  clause=')][:1]
        return 'exit=%d %s' % (r.returncode, first[0][:150] if first else '')
    finally:
        shutil.rmtree(scr, ignore_errors=True)


def main():
    args = sys.argv[1:]
    jobs = 1
    if args and args[0].startswith('-j'):
        jobs = int(args[0][2:] or 4)
        args = args[1:]
    sel = args
    todo = [mu for mu in M if not sel or any(mu['id'].startswith(s) or mu['prop'] == s for s in sel)]
    from concurrent.futures import ThreadPoolExecutor
    with ThreadPoolExecutor(jobs) as ex:
        for mu, res in zip(todo, ex.map(run_one, todo)):
            flag = 'CAUGHT' if res.startswith('exit=1') else ('MISSED' if res.startswith('exit=0') else 'ERROR ')
            print('%-6s %-8s %-40s %s   [%s]' % (flag, mu['prop'], mu['id'], res, mu['note']), flush=True)


if __name__ == '__main__':
    main()
