#!/usr/bin/env python3
"""Regenerates MANIFEST.json from the table below (single source of truth for the interface)."""
import json
import os

VERIF = os.path.dirname(os.path.dirname(os.path.abspath(__file__)))

# id: (level, technique, design_ref, level text, level note)
CHECKS = {
    'C20': ('model_checking',
            'TLA+ identity contract (Records!Same) evaluated by TLC on every ordered pair of a bounded universe '
            'and compared with the real objects (oracle enumeration, code->spec)',
            'DESIGN.md 5 (C20)',
            'Exhaustive over a bounded vocabulary: every ordered pair of ~600 (quick) / ~1000 (thorough) entries '
            'covering all seven kinds, three spellings per name, class with/without the top bit, TTL/created '
            'variants and one-field-at-a-time rdata variants is judged by TLC against the contract; ==, hash, '
            'dict membership, DNSRRSet.suppresses and DNSCache lookups of the real objects must agree.',
            'Trusts the harness interning of strings to ids (cross-checked against str.lower on ASCII) and TLC.'),
}

NOT_YET = {}

TITLES = {}
for line in open(os.path.join(VERIF, 'properties.jsonl')):
    p = json.loads(line)
    TITLES[p['id']] = p['title']


def main() -> None:
    checks = []
    for pid in sorted(CHECKS):
        level, technique, ref, text, note = CHECKS[pid]
        checks.append({
            'property_id': pid,
            'quick_cmd': f'./check {pid} --tier quick',
            'thorough_cmd': f'./check {pid} --tier thorough',
            'evidence_file': f'/verif/evidence/{pid}.json',
            'replay_cmd_template': f'./check {pid} --replay {{path}}',
            'engine': 'tlc+simnet',
            'level_claimed': {'category': level, 'text': text, 'design_ref': ref},
            'level_note': note,
            'technique': technique,
        })
    na = []
    for pid in sorted(TITLES):
        if pid not in CHECKS:
            na.append({'property_id': pid, 'reason': NOT_YET.get(
                pid, 'check not built yet in this round (planned, see DESIGN.md section 9); not claimed until it runs')})
    man = {
        'version': 1,
        'setup_cmd': 'true',
        'hooks': {
            'guard': 'ZEROCONF_VERIF',
            'enable': 'no source hooks are needed: clock, sockets and random source are replaced inside the harness '
                      'process (vf/simnet.py); the guard name is reserved and unused',
            'baseline_off_cmd': 'cd /repo && /venv/bin/python -m pytest -ra -q -p no:cacheprovider --timeout=900 '
                                '--continue-on-collection-errors',
            'source_commits': [],
            'add_only': True,
        },
        'engines': [{
            'name': 'tlc+simnet',
            'path': '/verif/check',
            'serves_properties': sorted(CHECKS),
            'kind_free_text': 'TLA+ specifications (spec/*.tla) checked by TLC 1.8.0: exhaustive model checking of '
                              'implementation-shaped models against contracts, and batch trace validation / oracle '
                              'evaluation of executions of the real library recorded in a deterministic '
                              'virtual-time simulator (vf/simnet.py)',
        }],
        'checks': checks,
        'not_applicable': na,
        'notes': 'Alarm rule: VIOLATION only when an execution of the real code is rejected by the TLA+ contract as '
                 'judged by TLC and is not listed in KNOWN_FINDINGS. Exit 2 = machinery failure (no verdict).',
    }
    with open(os.path.join(VERIF, 'MANIFEST.json'), 'w') as f:
        json.dump(man, f, indent=1)
    print('MANIFEST.json: %d checks, %d not claimed' % (len(checks), len(na)))


if __name__ == '__main__':
    main()
