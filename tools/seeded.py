#!/usr/bin/env python3
"""Seeded changes (/verif/seeded/<id>/): patches written by independent sub-agents that break one property each while
the repository's tests keep passing.

  seeded.py confirm [-jN] [id ...]   apply each patch to a scratch copy of /repo (outside /repo and /verif), run its
                                     demonstration on the clean and on the patched copy (expect HOLDS / VIOLATED) and
                                     the repository's test suite on the patched copy in a private network namespace
  seeded.py run [-jN] [--tier T] [id ...]
                                     run the property's check against the patched scratch copy (VERIF_REPO), expect exit 1
  seeded.py repo <id>                the procedure of the brief: git -C /repo apply, ./check, git -C /repo checkout -- .
Results are printed one line per change; `run` also rewrites seeded/RESULTS.txt when no id filter is given.
"""
import json
import os
import shutil
import subprocess
import sys
import tempfile
from concurrent.futures import ThreadPoolExecutor

VERIF = os.path.dirname(os.path.dirname(os.path.abspath(__file__)))
SEEDED = os.path.join(VERIF, 'seeded')
PY = '/venv/bin/python'
NETNS = ('ip link set lo up; ip link add eth0 type veth peer name eth1; ip addr add 10.1.1.2/24 dev eth0; ip link set eth0 up; '
         'ip link set eth1 up; ip link set eth0 multicast on; ip route add default dev eth0; ')


def ids(sel):
    all_ = sorted(d for d in os.listdir(SEEDED) if os.path.isfile(os.path.join(SEEDED, d, 'patch.diff')))
    return [d for d in all_ if not sel or any(d.startswith(s) for s in sel)]


def scratch(sid, patched=True):
    scr = tempfile.mkdtemp(prefix='zc-seeded.', dir='/var/tmp')
    for sub in ('src', 'tests', 'pyproject.toml'):
        src = os.path.join('/repo', sub)
        (shutil.copytree if os.path.isdir(src) else shutil.copy)(src, os.path.join(scr, sub))
    if patched:
        r = subprocess.run(['patch', '-p1', '-s', '-i', os.path.join(SEEDED, sid, 'patch.diff')], cwd=scr, capture_output=True, text=True)
        if r.returncode != 0:
            shutil.rmtree(scr, ignore_errors=True)
            raise RuntimeError('patch does not apply: ' + r.stdout + r.stderr)
    return scr


def demo(sid, scr):
    env = dict(os.environ, PYTHONPATH=os.path.join(scr, 'src'))
    try:
        r = subprocess.run([PY, os.path.join(SEEDED, sid, 'demo.py')], env=env, capture_output=True, text=True, timeout=600, cwd=scr)
    except subprocess.TimeoutExpired:
        return 99, 'timeout'
    lines = [l for l in r.stdout.splitlines() if l.startswith(('VIOLATED', 'HOLDS'))]
    return r.returncode, (lines[0] if lines else (r.stdout + r.stderr)[-200:])[:160]


def confirm_one(sid):
    clean = scratch(sid, patched=False)
    try:
        pat = scratch(sid)
    except RuntimeError as ex:
        return 'STALE   %s  %s' % (sid, str(ex)[:120].replace('\n', ' '))
    try:
        c0, t0 = demo(sid, clean)
        c1, t1 = demo(sid, pat)
        r = subprocess.run(['unshare', '-n', 'sh', '-c', NETNS + 'exec env PYTHONPATH=%s/src %s -m pytest -q -p no:cacheprovider '
                            '--timeout=900 --continue-on-collection-errors -x 2>&1 | tail -1' % (pat, PY)], cwd=pat, capture_output=True, text=True)
        tests = r.stdout.strip().splitlines()[-1] if r.stdout.strip() else r.stderr[-100:]
        ok = c0 == 0 and c1 == 1 and '295 passed' in tests and 'failed' not in tests
        return '%s %-6s clean: exit=%d %s | patched: exit=%d %s | tests: %s' % ('CONFIRMED' if ok else 'NOT-CONFIRMED', sid, c0, t0[:40], c1, t1[:100], tests.strip('= '))
    finally:
        shutil.rmtree(clean, ignore_errors=True)
        shutil.rmtree(pat, ignore_errors=True)


def run_one(arg):
    sid, tier, props = arg
    try:
        pat = scratch(sid)
    except RuntimeError as ex:
        return 'STALE   %s  %s' % (sid, str(ex)[:120].replace('\n', ' '))
    out = []
    try:
        for prop in props:
            env = dict(os.environ, VERIF_REPO=pat, VERIF_OUT=os.path.join(pat, 'out'))
            r = subprocess.run([os.path.join(VERIF, 'check'), prop, '--tier', tier], env=env, capture_output=True, text=True, cwd=VERIF)
            first = [l for l in r.stdout.splitlines() if l.startswith('  clause=')][:1]
            flag = {1: 'CAUGHT', 0: 'MISSED'}.get(r.returncode, 'ERROR(exit %d)' % r.returncode)
            out.append('%-7s %-6s by %s/%s %s' % (flag, sid, prop, tier, (first[0].strip()[:110] if first else '')))
    finally:
        shutil.rmtree(pat, ignore_errors=True)
    return '\n'.join(out)


def main():
    args = sys.argv[1:]
    cmd = args.pop(0)
    jobs, tier, also = 4, 'quick', []
    while args and args[0].startswith('-'):
        a = args.pop(0)
        if a.startswith('-j'):
            jobs = int(a[2:])
        elif a == '--tier':
            tier = args.pop(0)
        elif a == '--also':          # additional properties whose checks are run on every change
            also = args.pop(0).split(',')
    if cmd == 'confirm':
        with ThreadPoolExecutor(jobs) as ex:
            for line in ex.map(confirm_one, ids(args)):
                print(line, flush=True)
    elif cmd == 'run':
        todo = []
        for sid in ids(args):
            meta = json.load(open(os.path.join(SEEDED, sid, 'meta.json')))
            props = [meta['property']] + [p for p in meta.get('also_checked_by', []) + also if p != meta['property']]
            todo.append((sid, tier, props))
        lines = []
        with ThreadPoolExecutor(jobs) as ex:
            for line in ex.map(run_one, todo):
                print(line, flush=True)
                lines.append(line)
        if not args:
            with open(os.path.join(SEEDED, 'RESULTS.txt'), 'w') as f:
                f.write('# tools/seeded.py run --tier %s   (check exit 1 = CAUGHT)\n' % tier + '\n'.join(lines) + '\n')
    elif cmd == 'repo':
        sid = args[0]
        meta = json.load(open(os.path.join(SEEDED, sid, 'meta.json')))
        subprocess.run(['git', '-C', '/repo', 'apply', os.path.join(SEEDED, sid, 'patch.diff')], check=True)
        try:
            r = subprocess.run([os.path.join(VERIF, 'check'), meta['property'], '--tier', tier], cwd=VERIF,
                               env=dict(os.environ, VERIF_OUT=tempfile.mkdtemp(prefix='zc-seeded.', dir='/var/tmp')))
            print('exit', r.returncode)
        finally:
            subprocess.run(['git', '-C', '/repo', 'checkout', '--', '.'], check=True)
    else:
        raise SystemExit(__doc__)


if __name__ == '__main__':
    main()
