#!/venv/bin/python
"""explain.py <replay.json> [module recorder-module] -- re-record the scenario of a replay file, validate it with the
debug dump on, print the trace up to the rejected event and the monitor state."""
import json
import re
import sys
sys.path.insert(0, '/verif')
import importlib
from vf import tlc

d = json.load(open(sys.argv[1]))
prop = d['property']
fam = {'C09': ('props.respfam', 'Trace_Responder'), 'C16': ('props.respfam', 'Trace_Responder'), 'C17': ('props.respfam', 'Trace_Responder'), 'C03': ('props.respfam', 'Trace_Responder'), 'C08': ('props.respfam', 'Trace_Responder'), 'C11': ('props.respfam', 'Trace_Responder'),
       'C12': ('props.respfam', 'Trace_Responder'), 'C10': ('props.querierfam', 'Trace_Querier'), 'C13': ('props.querierfam', 'Trace_Querier'),
       'C04': ('props.cachefam', 'Trace_Cache'), 'C18': ('props.lookupfam', 'Trace_Lookup'), 'C13L': ('props.lookupfam', 'Trace_Lookup'), 'C05': ('props.cachefam', 'Trace_Cache'), 'C06': ('props.cachefam', 'Trace_Cache')}[prop]
mod = importlib.import_module(fam[0])
sc = d['replay']['scenario']
tr = mod.Recorder(sc).run()
payload = {'own': __import__('os').environ.get('EXPLAIN_OWN', 'ALL'), 'dbg': 1, 'traces': [tr]}
if 'voc' in tr:
    payload['vocab'] = tr.pop('voc')
if prop == 'C18':
    from props import c18
    payload.update(c18.common('ALL'))
if prop in ('C04', 'C05', 'C06'):
    payload['vocab'] = mod.vocab_json()
res = tlc.run_oracle(fam[1], fam[1], payload, 'explain')
v = res['verdicts'][0]
print('VERDICT', v)
n = v[4]
lo = int(sys.argv[2]) if len(sys.argv) > 2 else 30
for i, e in enumerate(tr['events'][max(0, n - lo):n + 1]):
    print('%4d' % (max(0, n - lo) + i + 1), json.dumps(e)[:int(sys.argv[3]) if len(sys.argv) > 3 else 360])
i = res['out'].find('"DEBUG"')
if i >= 0:
    txt = ' '.join(res['out'][i:].split())
    j = txt.find('"VERDICT"')
    txt = txt[:j]
    for key in ('obl |->', 'hold |->', 'exp |->', 'slots |->', 'gone |->', 'reg |->', 'seen |->'):
        k = txt.find(key)
        if k >= 0:
            print(txt[k:k + 1500])
            print()
else:
    print('no DEBUG output')
