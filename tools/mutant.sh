#!/bin/sh
# usage: tools_mutant.sh <patch-file|-e 'sed-expr' file> -- <check args...>
# Runs a check against a scratch copy of /repo with a change applied; the copy is removed afterwards.
set -e
SCR=$(mktemp -d /var/tmp/zc-verif.XXXXXX)
trap 'rm -rf "$SCR"' EXIT
mkdir -p "$SCR/src"
cp -r /repo/src/zeroconf "$SCR/src/"
if [ "$1" = "-e" ]; then
  sed -i "$2" "$SCR/src/zeroconf/$3"
  if cmp -s "$SCR/src/zeroconf/$3" "/repo/src/zeroconf/$3"; then echo "MUTANT DID NOT CHANGE THE FILE"; exit 3; fi
  shift 3
else
  (cd "$SCR" && patch -p1 -s < "$1")
  shift 1
fi
[ "$1" = "--" ] && shift
cd /verif
set +e
VERIF_REPO="$SCR" ./check "$@"
echo "exit=$?"
