from __future__ import annotations

import argparse
import importlib
import os
import sys

sys.path.insert(0, os.path.join(os.environ.get('VERIF_REPO', '/repo'), 'src'))

LEVELS = {
    'C01': 'exploration', 'C02': 'exploration', 'C14': 'exploration', 'C15': 'exploration', 'C07': 'fault_enumeration',
}


def main() -> None:
    ap = argparse.ArgumentParser()
    ap.add_argument('pid')
    ap.add_argument('--tier', default=os.environ.get('VERIF_TIER', 'quick'), choices=['quick', 'thorough'])
    ap.add_argument('--replay', default=None)
    args = ap.parse_args()
    from vf.core import Ctx, main_wrapper
    pid = args.pid.upper()
    seed = int(os.environ.get('VERIF_SEED', '1') or 1)

    def go() -> None:
        ctx = Ctx(pid, args.tier, seed, LEVELS.get(pid, 'model_checking'))
        mod = importlib.import_module('props.' + pid.lower())
        if args.replay:
            mod.replay(ctx, args.replay)
        else:
            mod.run(ctx)
        ctx.finish()
    main_wrapper(go)


if __name__ == '__main__':
    main()
