"""Check context: evidence, known findings, violation reporting, exit codes.

Exit codes: 0 property held on everything explored (known findings are printed as
KNOWN-FINDING lines), 1 violation (VIOLATION line printed), 2 machinery failure.
"""
from __future__ import annotations

import hashlib
import json
import os
import re
import sys
import time
import traceback
from typing import Any, Dict, List, Optional

VERIF = os.path.dirname(os.path.dirname(os.path.abspath(__file__)))
# VERIF_OUT redirects evidence and replay files (used by the self-test, which runs the checks against mutated scratch
# copies of the repository and must not overwrite the evidence of the real tree)
OUT = os.environ.get('VERIF_OUT', VERIF)
EVIDENCE_DIR = os.path.join(OUT, 'evidence')
REPLAY_DIR = os.path.join(OUT, 'replays')
KNOWN_FINDINGS = os.path.join(VERIF, 'KNOWN_FINDINGS')


class Machinery(RuntimeError):
    pass


def load_findings() -> List[dict]:
    res = []
    if not os.path.exists(KNOWN_FINDINGS):
        return res
    for line in open(KNOWN_FINDINGS):
        line = line.strip()
        if not line or line.startswith('#'):
            continue
        m = re.match(r'finding: property=(\S+) sig=(\S+) (.*)$', line)
        if m:
            res.append({'kind': 'finding', 'property': m.group(1), 'sig': m.group(2), 'text': m.group(3)})
            continue
        m = re.match(r'fixed: property=(\S+) (\S+) (.*)$', line)
        if m:
            res.append({'kind': 'fixed', 'property': m.group(1), 'commit': m.group(2), 'text': m.group(3)})
    return res


class Ctx:
    def __init__(self, pid: str, tier: str, seed: int, level: str) -> None:
        self.pid = pid
        self.tier = tier
        self.seed = seed
        self.level = level
        self.t0 = time.time()
        self.violations: List[dict] = []
        self.known_hits: Dict[str, int] = {}
        self.findings = [f for f in load_findings() if f['kind'] == 'finding' and f['property'] == pid]
        self.coverage: Dict[str, Any] = {}
        self.assumptions: List[str] = []
        self.notes: List[str] = []

    @property
    def thorough(self) -> bool:
        return self.tier == 'thorough'

    def pick(self, quick: Any, thorough: Any) -> Any:
        return thorough if self.thorough else quick

    def log(self, *a: Any) -> None:
        print('[%s %6.1fs]' % (self.pid, time.time() - self.t0), *a, flush=True)

    # --------------------------------------------------------------- violations
    def report(self, sig: str, what: str, replay: Any) -> bool:
        """Report a contract rejection of a real-code execution.

        sig  : '<clause>/<discriminator>' matched (exactly) against KNOWN_FINDINGS
        Returns True when it is an unlisted violation.
        """
        for f in self.findings:
            if f['sig'] == sig:
                n = self.known_hits.get(sig, 0)
                self.known_hits[sig] = n + 1
                return False
        if len(self.violations) < 20:
            os.makedirs(REPLAY_DIR, exist_ok=True)
            h = hashlib.sha1(json.dumps(replay, sort_keys=True, default=str).encode()).hexdigest()[:12]
            path = os.path.join(REPLAY_DIR, f'{self.pid}-{h}.json')
            with open(path, 'w') as fh:
                json.dump({'property': self.pid, 'sig': sig, 'what': what, 'replay': replay}, fh, indent=1,
                          default=str)
            print(f'VIOLATION property={self.pid} replay={path}', flush=True)
            print(f'  clause={sig} :: {what}', flush=True)
        self.violations.append({'sig': sig, 'what': what})
        return True

    # --------------------------------------------------------------- finish
    def finish(self) -> None:
        for f in self.findings:
            n = self.known_hits.get(f['sig'], 0)
            print(f"KNOWN-FINDING: property={self.pid} {f['text']} (sig={f['sig']}, {n} occurrence(s) this run)", flush=True)
        cov = dict(self.coverage)
        cov.setdefault('known_finding_hits', dict(self.known_hits))
        ev = {
            'property_id': self.pid,
            'tier': self.tier,
            'seed': self.seed,
            'level': self.level,
            'coverage': cov,
            'assumptions': self.assumptions,
            'wall_s': round(time.time() - self.t0, 2),
            'violations': len(self.violations),
        }
        if self.notes:
            ev['coverage']['notes'] = self.notes
        os.makedirs(EVIDENCE_DIR, exist_ok=True)
        with open(os.path.join(EVIDENCE_DIR, self.pid + '.json'), 'w') as fh:
            json.dump(ev, fh, indent=1, default=str)
        by_sig: Dict[str, int] = {}
        for v in self.violations:
            by_sig[v['sig']] = by_sig.get(v['sig'], 0) + 1
        if by_sig:
            self.log('violations by signature: %s' % by_sig)
        self.log('done: violations=%d known=%s wall=%.1fs' % (len(self.violations), self.known_hits, ev['wall_s']))
        sys.exit(1 if self.violations else 0)


def main_wrapper(fn: Any) -> None:
    try:
        fn()
    except SystemExit:
        raise
    except BaseException:  # noqa: BLE001
        traceback.print_exc()
        print('MACHINERY-FAILURE (exit 2): the check itself broke; no verdict', flush=True)
        sys.exit(2)
