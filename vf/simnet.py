"""simnet -- deterministic virtual-time link for python-zeroconf.

Replaces exactly the operating system: clock, sockets, random source.  Everything else is
the unmodified library from $VERIF_REPO (default /repo).

    net = Net(seed=1)
    async def main():
        h = await net.add_host('a', '10.0.0.1')
        ...
    net.run(main())
    net.log   -> list of event dicts (seq, t [ms], host, ev, ...)

Design notes (see DESIGN.md 3.1):
  * integer micro-second clock, all library instants fall on whole milliseconds;
  * ready callbacks FIFO, timers in deadline order (BaseEventLoop untouched);
  * own multicasts are looped back to the sender as a *later* callback;
  * an exception escaping datagram_received becomes an 'exc' event;
  * nothing is delivered to a closed transport;
  * random draws are keyed by (call site, virtual instant, ordinal within that instant).
"""
from __future__ import annotations

import asyncio
import hashlib
import heapq
import os
import random
import socket
import sys
from typing import Any, Callable, Dict, List, Optional, Tuple

REPO = os.environ.get('VERIF_REPO', '/repo')
_SRC = os.path.join(REPO, 'src')
if _SRC not in sys.path:
    sys.path.insert(0, _SRC)

MDNS_ADDR = '224.0.0.251'
MDNS_ADDR6 = 'ff02::fb'
MDNS_PORT = 5353

_CURRENT_NET: Optional['Net'] = None
_real_randint = random.randint

_SITE_BY_FUNC = {
    'async_add': 'resp',                # multicast_outgoing_queue.py  (20,120)
    'handle_query_or_defer': 'tc',      # _listener.py                 (400,500)
    'start': 'first',                   # browser.py QueryScheduler    (20,120)
    '_get_random_delay': 'lookup',      # info.py                      (20,120)
}


def _scripted_randint(lo: int, hi: int) -> int:
    net = _CURRENT_NET
    if net is None:
        return _real_randint(lo, hi)
    fn = sys._getframe(1).f_code.co_name
    site = _SITE_BY_FUNC.get(fn, fn)
    return net._draw(site, lo, hi)


random.randint = _scripted_randint   # must happen before zeroconf is imported

import zeroconf  # noqa: E402
import zeroconf._core as _zc_core  # noqa: E402
from zeroconf.asyncio import AsyncZeroconf  # noqa: E402

assert zeroconf.__file__.startswith(_SRC), (zeroconf.__file__, _SRC)
import zeroconf._cache as _zc_cache_mod  # noqa: E402

assert _zc_cache_mod.__file__.endswith('.py'), 'compiled extension in use: ' + _zc_cache_mod.__file__


_FIXED_NOW: Optional[float] = None


def _vnow_ms() -> float:
    net = _CURRENT_NET
    if net is None:
        if _FIXED_NOW is not None:
            return _FIXED_NOW
        raise RuntimeError('simnet clock used outside Net.run')
    base = net.loop.now_ms()
    if net.skew_in:
        # loop latency inside one callback: in the functions named in net.skew_in (and whatever they call) the second and later
        # reads of the clock within one activation return one millisecond more each -- time passes while the callback runs.
        # Code that reads the clock once per activation (and hands the value on) is not affected at all.
        f = sys._getframe(1)
        depth = 0
        while f is not None and depth < 16:
            if f.f_code.co_name in net.skew_in:
                key = (id(f), base)
                k = net._skew_reads.get(key, 0)
                net._skew_reads = {key: k + 1}
                return base + k
            f = f.f_back
            depth += 1
    return base


class fixed_clock:
    """For direct calls into the library outside any simulated network: the clock stands at `ms`."""

    def __init__(self, ms: float) -> None:
        self.ms = ms

    def __enter__(self) -> None:
        global _FIXED_NOW
        self.prev = _FIXED_NOW
        _FIXED_NOW = self.ms

    def __exit__(self, *a: Any) -> None:
        global _FIXED_NOW
        _FIXED_NOW = self.prev


def _patch_clock() -> None:
    for name, mod in list(sys.modules.items()):
        if name.startswith('zeroconf') and mod is not None and hasattr(mod, 'current_time_millis'):
            setattr(mod, 'current_time_millis', _vnow_ms)


_patch_clock()


class HarnessFault(RuntimeError):
    """Raised on purpose by a callback of the harness that plays a faulty application (a listener that raises)."""


class Deadlock(RuntimeError):
    pass


class SimAbort(KeyboardInterrupt):
    """Raised from inside loop callbacks; asyncio lets KeyboardInterrupt through where it would swallow an Exception."""


class ScenarioTimeout(SimAbort):
    pass


class Runaway(SimAbort):
    """The simulated system does not come to rest (zero-time loop, unbounded traffic)."""


class _Selector:
    def __init__(self, loop: 'VLoop') -> None:
        self.loop = loop

    def select(self, timeout: Optional[float]) -> list:
        loop = self.loop
        if timeout is None:
            raise Deadlock('simnet: nothing ready and nothing scheduled at t=%d ms' % loop.now_ms())
        if timeout > 0 and loop._scheduled:
            when_us = int(round(loop._scheduled[0]._when * 1e6))
            if when_us > loop.vtime_us:
                if loop.limit_us is not None and when_us > loop.limit_us:
                    raise Deadlock('simnet: virtual time limit exceeded')
                loop.vtime_us = when_us
        return []

    def close(self) -> None:
        pass


LINK_SCOPE = 2          # interface index the kernel reports as scope id for link-local IPv6 peers


class _StableTimer(asyncio.TimerHandle):
    """Timers with equal deadlines fire in the order they were armed.  (The standard heap breaks ties by its own shape, so
    an unrelated timer of the harness could swap two library timers due at the same instant.)"""
    __slots__ = ('_seq',)

    def __lt__(self, other: Any) -> bool:
        return (self._when, self._seq) < (other._when, other._seq)

    def __le__(self, other: Any) -> bool:
        return (self._when, self._seq) <= (other._when, other._seq)

    def __gt__(self, other: Any) -> bool:
        return (self._when, self._seq) > (other._when, other._seq)

    def __ge__(self, other: Any) -> bool:
        return (self._when, self._seq) >= (other._when, other._seq)


class VLoop(asyncio.BaseEventLoop):
    """Event loop whose clock only moves when nothing is ready."""
    _timer_seq = 0

    def call_at(self, when, callback, *args, context=None):  # type: ignore[override]
        self._check_closed()
        timer = _StableTimer(when, callback, args, self, context)
        VLoop._timer_seq += 1
        timer._seq = VLoop._timer_seq
        heapq.heappush(self._scheduled, timer)
        timer._scheduled = True
        return timer

    def __init__(self) -> None:
        super().__init__()
        self.vtime_us = 0
        self.limit_us: Optional[int] = None
        self._selector = _Selector(self)
        self._clock_resolution = 1e-7
        self.nonintegral = 0

    def time(self) -> float:
        return self.vtime_us / 1e6

    def now_ms(self) -> float:
        q, r = divmod(self.vtime_us, 1000)
        if r:
            self.nonintegral += 1
            return self.vtime_us / 1000.0
        return float(q)

    def _process_events(self, event_list: list) -> None:
        pass

    def _write_to_self(self) -> None:
        pass

    async def create_datagram_endpoint(self, protocol_factory, local_addr=None, remote_addr=None, *,  # type: ignore[override]
                                       family=0, proto=0, flags=0, reuse_port=None,
                                       allow_broadcast=None, sock=None):
        assert isinstance(sock, FakeSocket), 'simnet only supports pre-made fake sockets'
        protocol = protocol_factory()
        transport = FakeTransport(self, sock, protocol)
        sock.transport = transport
        sock.protocol = protocol
        protocol.connection_made(transport)
        await asyncio.sleep(0)
        return transport, protocol


class FakeSocket:
    _next_fileno = 100

    def __init__(self, host: 'Host', family: int, addr: str, port: int, role: str, scope: int = 0) -> None:
        self.host = host
        self.family = family
        self.addr = addr
        self.port = port
        self.role = role          # 'listen' | 'respond' | 'both'
        self.scope = scope
        FakeSocket._next_fileno += 1
        self._fileno = FakeSocket._next_fileno
        self.transport: Optional['FakeTransport'] = None
        self.protocol: Any = None
        self.index = -1

    def fileno(self) -> int:
        return self._fileno

    def getsockname(self) -> tuple:
        if self.family == socket.AF_INET6:
            return (self.addr, self.port, 0, self.scope)
        return (self.addr, self.port)

    def close(self) -> None:
        pass

    def __repr__(self) -> str:
        return f'<FakeSocket {self.host.name}#{self.index} {self.role} {self.addr}:{self.port}>'


class FakeTransport(asyncio.DatagramTransport):
    def __init__(self, loop: VLoop, sock: FakeSocket, protocol: Any) -> None:
        super().__init__(extra={'socket': sock, 'sockname': sock.getsockname()})
        self._loop = loop
        self.sock = sock
        self.protocol = protocol
        self.closed = False

    def sendto(self, data: bytes, addr: Any = None) -> None:
        net = self.sock.host.net
        if self.closed:
            net.emit(self.sock.host.name, 'send_closed', sock=self.sock.index, dst=list(addr[:2]), len=len(data))
            return
        if addr is not None and addr[0] in net.unreachable:
            net.emit(self.sock.host.name, 'send_failed', sock=self.sock.index, dst=list(addr[:2]), len=len(data))
            if net.on_send_failed_hook:
                net.on_send_failed_hook(self.sock, bytes(data), addr)
            # what asyncio's datagram transport does with an OSError of sendto(): no exception, the protocol is told
            self.protocol.error_received(OSError(101, 'Network is unreachable'))
            return
        net._on_send(self.sock, bytes(data), addr)

    def close(self) -> None:
        if self.closed:
            return
        self.closed = True
        self.sock.host.net.emit(self.sock.host.name, 'tclose', sock=self.sock.index)
        self._loop.call_soon(self.protocol.connection_lost, None)

    def is_closing(self) -> bool:
        return self.closed

    def abort(self) -> None:
        self.close()

    def get_write_buffer_size(self) -> int:
        return 0


class Host:
    """One simulated machine running one AsyncZeroconf instance."""

    def __init__(self, net: 'Net', name: str, addr: str, addr6: Optional[str], layout: str) -> None:
        self.net = net
        self.name = name
        self.addr = addr
        self.addr6 = addr6
        self.layout = layout
        self.sockets: List[FakeSocket] = []
        self.aiozc: Optional[AsyncZeroconf] = None

    @property
    def zc(self):
        assert self.aiozc is not None
        return self.aiozc.zeroconf

    def _make_sockets(self) -> Tuple[Optional[FakeSocket], List[FakeSocket]]:
        # layout 'single'  : InterfaceChoice.Default -- one socket listens and responds
        # layout 'split'   : one wildcard listen socket + one respond socket per address
        socks: List[FakeSocket] = []
        if self.layout == 'single':
            s = FakeSocket(self, socket.AF_INET, '0.0.0.0', MDNS_PORT, 'both')
            socks.append(s)
            listen, respond = s, [s]
        elif self.layout == 'split':
            listen = FakeSocket(self, socket.AF_INET, '0.0.0.0', MDNS_PORT, 'listen')
            r4 = FakeSocket(self, socket.AF_INET, self.addr, MDNS_PORT, 'respond')
            socks += [listen, r4]
            respond = [r4]
        elif self.layout == 'dual':
            # IPVersion.All: a v6 wildcard listen socket (dual-stack), v4 and v6 respond sockets
            listen = FakeSocket(self, socket.AF_INET6, '::', MDNS_PORT, 'listen')
            r4 = FakeSocket(self, socket.AF_INET, self.addr, MDNS_PORT, 'respond')
            r6 = FakeSocket(self, socket.AF_INET6, self.addr6 or 'fe80::1', MDNS_PORT, 'respond', scope=2)
            socks += [listen, r4, r6]
            respond = [r4, r6]
        else:
            raise ValueError(self.layout)
        for i, s in enumerate(socks):
            s.index = i
        self.sockets = socks
        return listen, respond

    # -- traffic injection by the harness (an abstract peer that is not a library instance)
    def inject(self, data: bytes, src: str = '10.0.0.99', port: int = MDNS_PORT, sock: int = 0,
               tag: Optional[str] = None) -> None:
        """Deliver a datagram to one of this host's sockets right now (synchronously)."""
        rs = self.sockets[sock]
        if rs.family == socket.AF_INET6:
            # what a (dual-stack) IPv6 socket reports: a 4-tuple, IPv4 peers as v4-mapped addresses
            a = src if ':' in src else '::ffff:' + src
            source: tuple = (a, port, 0, (rs.scope or LINK_SCOPE) if a.startswith('fe80') else 0)
        else:
            source = (src, port)
        self.net._deliver(rs, data, source, tag=tag, injected=True)

    def __repr__(self) -> str:
        return f'<Host {self.name} {self.addr}>'


class Net:
    def __init__(self, seed: int = 0, rand: Any = None, delay: Any = None, record_bytes: bool = True) -> None:
        self.seed = seed
        self.loop = VLoop()
        self.hosts: Dict[str, Host] = {}
        self.log: List[dict] = []
        self._seq = 0
        self._rand = rand          # None | 'lo' | 'hi' | 'mid' | callable(site, lo, hi, t, ordinal) | dict
        self._delay = delay        # None | int ms | callable(net, src_sock, dst_sock, n, data) -> ms | None(drop) | list
        self._draw_ord: Dict[Tuple[str, int], int] = {}
        self._send_n = 0
        self.record_bytes = record_bytes
        self.on_send_hook: Optional[Callable[[dict, bytes], None]] = None
        self.on_recv_hook: Optional[Callable[[dict, bytes], None]] = None
        self.on_recv_done_hook: Optional[Callable[[dict], None]] = None
        self.on_send_failed_hook: Optional[Callable[[Any, bytes, Any], None]] = None
        self.unreachable: set = set()      # destination addresses to which a send fails (ENETUNREACH)
        self.skew_in: set = set()          # functions inside which successive clock reads differ by 1 ms (see _vnow_ms)
        self._skew_reads: Dict[Any, int] = {}
        self._creating: Optional[Host] = None
        self.max_events = 120000
        self.aborted: Optional[str] = None
        self.loop.set_exception_handler(self._exc_handler)

    # ---------------------------------------------------------------- log
    def emit(self, host: Optional[str], ev: str, **kw: Any) -> dict:
        self._seq += 1
        if self._seq > self.max_events:
            raise Runaway('simnet: event budget of %d exceeded at t=%s ms' % (self.max_events, self.now()))
        e = {'seq': self._seq, 't': self.now(), 'host': host, 'ev': ev}
        e.update(kw)
        self.log.append(e)
        return e

    def now(self) -> int:
        ms = self.loop.now_ms()
        return int(ms) if ms == int(ms) else ms  # type: ignore[return-value]

    def _exc_handler(self, loop: Any, context: dict) -> None:
        exc = context.get('exception')
        self.emit(None, 'exc', where='loop', cls=type(exc).__name__ if exc else 'None',
                  msg=str(context.get('message'))[:200])

    # ---------------------------------------------------------------- random
    def _draw(self, site: str, lo: int, hi: int) -> int:
        t = self.now()
        key = (site, t)
        n = self._draw_ord.get(key, 0)
        self._draw_ord[key] = n + 1
        r = self._rand
        v: Optional[int] = None
        if callable(r):
            v = r(site, lo, hi, t, n)
        elif isinstance(r, dict):
            pol = r.get(site, r.get('*'))
            if callable(pol):
                v = pol(site, lo, hi, t, n)
            elif pol == 'lo':
                v = lo
            elif pol == 'hi':
                v = hi
            elif pol == 'mid':
                v = (lo + hi) // 2
            elif isinstance(pol, int):
                v = pol
            elif isinstance(pol, dict):
                v = pol.get('%s:%d' % (t, n))          # scripted per draw: {"<instant>:<ordinal>": value}
        elif r == 'lo':
            v = lo
        elif r == 'hi':
            v = hi
        elif r == 'mid':
            v = (lo + hi) // 2
        if v is None:
            h = hashlib.blake2b(f'{self.seed}|{site}|{t}|{n}'.encode(), digest_size=8).digest()
            v = lo + int.from_bytes(h, 'big') % (hi - lo + 1)
        v = max(lo, min(hi, int(v)))
        try:
            task = asyncio.current_task()
        except RuntimeError:
            task = None
        self.emit(None, 'rand', site=site, lo=lo, hi=hi, v=v, task=task.get_name() if task is not None else '')
        return v

    # ---------------------------------------------------------------- hosts
    async def add_host(self, name: str, addr: str, addr6: Optional[str] = None, layout: str = 'single', wait_start: bool = True) -> Host:
        h = Host(self, name, addr, addr6, layout)
        self.hosts[name] = h
        self._creating = h
        try:
            from zeroconf import IPVersion
            h.aiozc = AsyncZeroconf(ip_version=IPVersion.All if layout == 'dual' else IPVersion.V4Only)
        finally:
            self._creating = None
        if wait_start:
            await h.zc.async_wait_for_start()
        self.emit(name, 'host_up', addr=addr, layout=layout)
        return h

    def _create_sockets(self, *a: Any, **kw: Any):
        h = self._creating
        assert h is not None, 'Zeroconf created outside Net.add_host'
        return h._make_sockets()

    # ---------------------------------------------------------------- link
    def _on_send(self, sock: FakeSocket, data: bytes, addr: tuple) -> None:
        self._send_n += 1
        n = self._send_n
        dst, port = addr[0], addr[1]
        e = self.emit(sock.host.name, 'send', n=n, sock=sock.index, dst=dst, port=port, len=len(data))
        if self.record_bytes:
            e['data'] = data.hex()
        if self.on_send_hook:
            self.on_send_hook(e, data)
        src_addr = sock.host.addr6 if sock.family == socket.AF_INET6 and ':' in dst else sock.host.addr
        if ':' in dst and sock.family != socket.AF_INET6:
            return
        src = (src_addr, sock.port)
        if dst in (MDNS_ADDR, MDNS_ADDR6):
            v6 = dst == MDNS_ADDR6
            for h in self.hosts.values():
                for rs in h.sockets:
                    if rs.role not in ('listen', 'both') or rs.transport is None:
                        continue
                    if v6 != (rs.family == socket.AF_INET6):
                        continue
                    self._schedule_delivery(sock, rs, data, src, n)
        else:
            for h in self.hosts.values():
                if dst in (h.addr, h.addr6) and port == MDNS_PORT:
                    cands = [s for s in h.sockets if s.role in ('respond', 'both')
                             and ((':' in dst) == (s.family == socket.AF_INET6))]
                    if cands:
                        self._schedule_delivery(sock, cands[0], data, src, n)

    def _schedule_delivery(self, ssock: FakeSocket, rsock: FakeSocket, data: bytes, src: tuple, n: int) -> None:
        d = self._delay
        if callable(d):
            plan = d(self, ssock, rsock, n, data)
        else:
            plan = d
        if plan is None:
            plan = [0]
        elif isinstance(plan, (int, float)):
            plan = [plan]
        # plan: list of delays in ms; [] = dropped; two entries = duplicated
        for delay_ms in plan:
            if rsock.family == socket.AF_INET6:
                s = (src[0], src[1], 0, (rsock.scope or LINK_SCOPE) if str(src[0]).startswith('fe80') else 0)
            else:
                s = src
            if delay_ms <= 0:
                self.loop.call_soon(self._deliver, rsock, data, s, n)
            else:
                self.loop.call_at(self.loop.time() + delay_ms / 1000.0, self._deliver, rsock, data, s, n)
        if not plan:
            self.emit(rsock.host.name, 'drop', n=n, sock=rsock.index)

    def _deliver(self, rsock: FakeSocket, data: bytes, src: tuple, n: Optional[int] = None,
                 tag: Optional[str] = None, injected: bool = False) -> None:
        tr = rsock.transport
        if tr is None or tr.closed:
            self.emit(rsock.host.name, 'undelivered', n=n, sock=rsock.index)
            return
        e = self.emit(rsock.host.name, 'recv', n=n, sock=rsock.index, src=src[0], port=src[1], len=len(data))
        if tag is not None:
            e['tag'] = tag
        if injected:
            e['inj'] = True
        if self.record_bytes:
            e['data'] = data.hex()
        if self.on_recv_hook:
            self.on_recv_hook(e, data)
        try:
            rsock.protocol.datagram_received(data, src)
        except (Runaway, ScenarioTimeout):
            raise
        except Exception as ex:  # noqa: BLE001 - this is exactly what a selector transport hands to the loop
            self.emit(rsock.host.name, 'exc', where='datagram_received', cls=type(ex).__name__, msg=str(ex)[:200],
                      n=n)
        d = self.emit(rsock.host.name, 'recv_done', n=n)
        if self.on_recv_done_hook:
            self.on_recv_done_hook(d)

    # ---------------------------------------------------------------- time helpers for scenarios
    async def sleep_until(self, t_ms: float) -> None:
        now = self.loop.now_ms()
        if t_ms > now:
            fut = self.loop.create_future()
            self.loop.call_at(t_ms / 1000.0, lambda: fut.done() or fut.set_result(None))
            await fut
        else:
            await asyncio.sleep(0)

    async def sleep(self, ms: float) -> None:
        await self.sleep_until(self.loop.now_ms() + ms)

    async def settle(self) -> None:
        """Let every ready callback at the current instant run (bounded)."""
        for _ in range(20):
            await asyncio.sleep(0)

    # ---------------------------------------------------------------- run
    def run(self, coro: Any, limit_ms: Optional[int] = None) -> Any:
        global _CURRENT_NET
        prev = _CURRENT_NET
        _CURRENT_NET = self
        if limit_ms is not None:
            self.loop.limit_us = limit_ms * 1000
        saved = _zc_core.create_sockets
        _zc_core.create_sockets = self._create_sockets
        try:
            asyncio.set_event_loop(self.loop)
            try:
                return self.loop.run_until_complete(coro)
            except (Runaway, Deadlock, ScenarioTimeout) as ex:
                self.aborted = '%s: %s' % (type(ex).__name__, ex)
                return None
        finally:
            _zc_core.create_sockets = saved
            try:
                # cancel whatever is left so that nothing leaks into the next Net
                for task in asyncio.all_tasks(self.loop):
                    task.cancel()
                self.loop._ready.clear()
                self.loop._scheduled.clear()
            except Exception:  # noqa: BLE001
                pass
            asyncio.set_event_loop(None)
            _CURRENT_NET = prev
            self.loop.close()


def run_scenario(main: Callable[['Net'], Any], **kw: Any) -> 'Net':
    net = Net(**kw)
    net.run(main(net))
    return net


async def quiet(aw: Any) -> None:
    """Harness teardown after the trace has ended: whatever the (possibly modified) library raises here is not part of the
    observation and must not break the check."""
    try:
        await aw
    except BaseException as ex:  # noqa: BLE001
        if isinstance(ex, (KeyboardInterrupt, SystemExit)):
            raise
