"""Systematic single-preemption schedules of two operations on real threads.

Operation A runs in a thread of its own under an opcode-granular trace function restricted to the library's code; at the k-th
opcode it is held (inside the trace function, i.e. between two bytecodes, exactly where the interpreter may hand the GIL to
another thread) while operation B runs to completion in a second thread; then A resumes.  For k = 1, 2, ... until A finishes
before its k-th opcode, that is every schedule "A is pre-empted once by B" at bytecode granularity; no timing, no chance.
C calls (list(d), dict.get, set.copy ...) are single opcodes and stay atomic, as they are under the GIL."""
from __future__ import annotations

import sys
import threading
from typing import Any, Callable, Iterator, List, Optional, Tuple


class Outcome:
    __slots__ = ('val', 'exc')

    def __init__(self, val: Any = None, exc: str = '') -> None:
        self.val = val
        self.exc = exc


def _call(fn: Callable[[], Any]) -> Outcome:
    try:
        return Outcome(fn(), '')
    except Exception as ex:  # noqa: BLE001
        return Outcome(None, '%s: %s' % (type(ex).__name__, str(ex)[:80]))


def count_points(op_a: Callable[[], Any], scope: str) -> int:
    """Number of opcodes A executes inside `scope` when it runs alone."""
    n, _, _, _ = _run(op_a, None, scope, -1)
    return n


def _run(op_a: Callable[[], Any], op_b: Optional[Callable[[], Any]], scope: str, k: int) -> Tuple[int, Outcome, Optional[Outcome], bool]:
    count = [0]
    rb: List[Optional[Outcome]] = [None]
    fired = [False]

    def local(frame: Any, event: str, arg: Any) -> Any:
        if event == 'opcode':
            count[0] += 1
            if count[0] == k and op_b is not None:
                fired[0] = True
                tb = threading.Thread(target=lambda: rb.__setitem__(0, _call(op_b)))
                tb.start()
                tb.join(60)
                if tb.is_alive():
                    rb[0] = Outcome(None, 'Blocked: operation B did not finish while A was held')
        return local

    def tracer(frame: Any, event: str, arg: Any) -> Any:
        if event == 'call' and frame.f_code.co_filename.startswith(scope):
            frame.f_trace_opcodes = True
            frame.f_trace_lines = False
            return local
        return None
    ra: List[Outcome] = [Outcome(None, 'NotRun')]

    def body() -> None:
        sys.settrace(tracer)
        try:
            ra[0] = _call(op_a)
        finally:
            sys.settrace(None)
    ta = threading.Thread(target=body)
    ta.start()
    ta.join(120)
    if ta.is_alive():
        return count[0], Outcome(None, 'Blocked: operation A did not finish'), rb[0], fired[0]
    return count[0], ra[0], rb[0], fired[0]


def schedules(fresh: Callable[[], Tuple[Callable[[], Any], Callable[[], Any]]], scope: str, stride: int = 1,
              limit: int = 100000) -> Iterator[Tuple[int, Outcome, Outcome]]:
    """fresh() builds new state and returns (op_a, op_b).  Yields (k, outcome of A, outcome of B) for every k-th opcode of A
    (k = 1, 1 + stride, ...) at which B pre-empted it."""
    # (CPython 3.12 instruments a code object for opcode events when f_trace_opcodes is first set on one of its frames, and the
    # events only start with the next call: run A alone until the count is stable before enumerating)
    n = -1
    for _ in range(6):
        op_a, _b = fresh()
        m = _run(op_a, None, scope, -1)[0]
        if m == n and m > 0:
            break
        n = m
    else:
        raise RuntimeError('operation A does not execute a stable number of opcodes inside %s (last %d)' % (scope, n))
    k = 1
    while k <= min(n, limit):
        op_a, op_b = fresh()
        _n, ra, rb, fired = _run(op_a, op_b, scope, k)
        if not fired:
            # (A took another path this time, e.g. it raised earlier: no schedule at this k)
            k += stride
            continue
        assert rb is not None
        yield k, ra, rb
        k += stride
