"""Independent RFC 1035 / RFC 6762 wire parser (no zeroconf imports).

Used to project every datagram the library *sends* into abstract form, so that a symmetric
encoder/decoder defect in the library cannot hide, and as the Python twin of the TLA+
`StrictParse` operator (spec/Wire.tla) for pre-filtering large inputs.

Strictness: counts must match the entries present, names use backward pointers only
(a pointer must point strictly before the position of the pointer itself and to a lower
offset than any earlier hop of the same name), labels <= 63 bytes, a name has at most
MAX_HOPS pointer hops and its dotted text form (lossy utf-8) is at most 253 characters
plus the trailing dot -- the library's documented limit; rdata of the known types must
consume exactly RDLENGTH; no trailing bytes after the last section.
"""
from __future__ import annotations

from typing import Any, Dict, List, Optional, Tuple

MAX_HOPS = 127
MAX_NAME_TEXT = 253

T_A, T_CNAME, T_PTR, T_HINFO, T_TXT, T_AAAA, T_SRV, T_NSEC, T_ANY = 1, 5, 12, 13, 16, 28, 33, 47, 255
KNOWN_TYPES = {T_A, T_CNAME, T_PTR, T_HINFO, T_TXT, T_AAAA, T_SRV, T_NSEC}


class WireError(Exception):
    pass


class Name:
    __slots__ = ('labels', 'hops', 'start', 'end', 'label_offsets')

    def __init__(self, labels: List[bytes], hops: List[Tuple[int, int]], start: int, end: int,
                 label_offsets: List[int]) -> None:
        self.labels = labels            # raw label bytes
        self.hops = hops                # (pointer position, target offset)
        self.start = start
        self.end = end                  # offset just after the name in the enclosing stream
        self.label_offsets = label_offsets

    @property
    def text(self) -> str:
        return '.'.join(l.decode('utf-8', 'replace') for l in self.labels) + '.'

    def __repr__(self) -> str:
        return f'Name({self.text!r}, hops={self.hops})'


def read_name(data: bytes, off: int, strict_backward: bool = True) -> Name:
    labels: List[bytes] = []
    label_offsets: List[int] = []
    hops: List[Tuple[int, int]] = []
    start = off
    end: Optional[int] = None
    n = len(data)
    lowest = off
    while True:
        if off >= n:
            raise WireError('name runs past end of packet')
        ln = data[off]
        if ln == 0:
            off += 1
            break
        if ln < 0x40:
            if off + 1 + ln > n:
                raise WireError('label runs past end of packet')
            labels.append(data[off + 1: off + 1 + ln])
            label_offsets.append(off)
            off += 1 + ln
            if len(labels) > 128:
                raise WireError('too many labels')
            continue
        if ln < 0xC0:
            raise WireError('unknown label type 0x%02x' % ln)
        if off + 1 >= n:
            raise WireError('pointer runs past end of packet')
        target = ((ln & 0x3F) << 8) | data[off + 1]
        if strict_backward and target >= lowest:
            raise WireError('pointer at %d does not point backward (%d)' % (off, target))
        if target >= n:
            raise WireError('pointer beyond packet')
        hops.append((off, target))
        if len(hops) > MAX_HOPS:
            raise WireError('too many pointer hops')
        if end is None:
            end = off + 2
        lowest = min(lowest, target)
        off = target
    if end is None:
        end = off
    nm = Name(labels, hops, start, end, label_offsets)
    if len(nm.text) > MAX_NAME_TEXT:
        raise WireError('name too long')
    return nm


class Entry:
    __slots__ = ('section', 'name', 'type', 'cls', 'ttl', 'rdlen', 'rdata', 'start', 'end', 'rd')

    def __init__(self) -> None:
        self.section = ''
        self.name: Name = None  # type: ignore[assignment]
        self.type = 0
        self.cls = 0
        self.ttl: Optional[int] = None
        self.rdlen = 0
        self.rdata = b''
        self.start = 0
        self.end = 0
        self.rd: Any = None            # decoded rdata (type specific)

    @property
    def flush(self) -> bool:
        return bool(self.cls & 0x8000)

    @property
    def rclass(self) -> int:
        return self.cls & 0x7FFF

    def key(self) -> tuple:
        """Record identity per property C20 (name/targets case-folded)."""
        return (self.name.text.lower(), self.type, self.rclass, rd_key(self.type, self.rd))

    def __repr__(self) -> str:
        return f'<{self.section} {self.name.text} t={self.type} c={self.cls:#x} ttl={self.ttl} rd={self.rd!r}>'


def rd_key(type_: int, rd: Any) -> Any:
    if type_ in (T_PTR, T_CNAME):
        return rd.lower()
    if type_ == T_SRV:
        return (rd[0], rd[1], rd[2], rd[3].lower())
    if type_ == T_NSEC:
        return (rd[0], tuple(rd[1]))
    if isinstance(rd, list):
        return tuple(rd)
    return rd


class Msg:
    __slots__ = ('id', 'flags', 'counts', 'questions', 'answers', 'authorities', 'additionals', 'length')

    def __init__(self) -> None:
        self.id = 0
        self.flags = 0
        self.counts = (0, 0, 0, 0)
        self.questions: List[Entry] = []
        self.answers: List[Entry] = []
        self.authorities: List[Entry] = []
        self.additionals: List[Entry] = []
        self.length = 0

    @property
    def is_response(self) -> bool:
        return bool(self.flags & 0x8000)

    @property
    def tc(self) -> bool:
        return bool(self.flags & 0x0200)

    def records(self) -> List[Entry]:
        return self.answers + self.authorities + self.additionals

    def entries(self) -> List[Entry]:
        return self.questions + self.records()


def _decode_rdata(data: bytes, e: Entry, off: int, strict: bool) -> Any:
    end = off + e.rdlen
    t = e.type
    if t == T_A:
        if e.rdlen != 4:
            raise WireError('A rdlength %d' % e.rdlen)
        return data[off:end]
    if t == T_AAAA:
        if e.rdlen != 16:
            raise WireError('AAAA rdlength %d' % e.rdlen)
        return data[off:end]
    if t in (T_PTR, T_CNAME):
        nm = read_name(data[:end] if strict else data, off)
        if nm.end != end:
            raise WireError('PTR rdata length mismatch')
        return nm.text
    if t == T_TXT:
        return data[off:end]
    if t == T_SRV:
        if e.rdlen < 7:
            raise WireError('SRV too short')
        prio = (data[off] << 8) | data[off + 1]
        weight = (data[off + 2] << 8) | data[off + 3]
        port = (data[off + 4] << 8) | data[off + 5]
        nm = read_name(data[:end] if strict else data, off + 6)
        if nm.end != end:
            raise WireError('SRV rdata length mismatch')
        return (prio, weight, port, nm.text)
    if t == T_HINFO:
        if e.rdlen < 2:
            raise WireError('HINFO too short')
        l1 = data[off]
        if off + 1 + l1 >= end:
            raise WireError('HINFO cpu overruns')
        cpu = data[off + 1: off + 1 + l1]
        o2 = off + 1 + l1
        l2 = data[o2]
        if o2 + 1 + l2 != end:
            raise WireError('HINFO os length mismatch')
        return (cpu, data[o2 + 1: o2 + 1 + l2])
    if t == T_NSEC:
        nm = read_name(data[:end] if strict else data, off)
        o = nm.end
        types: List[int] = []
        while o < end:
            if o + 2 > end:
                raise WireError('NSEC bitmap header overruns')
            window, blen = data[o], data[o + 1]
            if o + 2 + blen > end:
                raise WireError('NSEC bitmap overruns')
            for i, byte in enumerate(data[o + 2: o + 2 + blen]):
                for bit in range(8):
                    if byte & (0x80 >> bit):
                        types.append(window * 256 + i * 8 + bit)
            o += 2 + blen
        if o != end:
            raise WireError('NSEC length mismatch')
        return (nm.text, types)
    return data[off:end]


def parse(data: bytes, strict: bool = True) -> Msg:
    """Parse a DNS message.  Raises WireError when it is not well formed."""
    n = len(data)
    if n < 12:
        raise WireError('short header')
    m = Msg()
    m.length = n
    m.id = (data[0] << 8) | data[1]
    m.flags = (data[2] << 8) | data[3]
    qd = (data[4] << 8) | data[5]
    an = (data[6] << 8) | data[7]
    ns = (data[8] << 8) | data[9]
    ar = (data[10] << 8) | data[11]
    m.counts = (qd, an, ns, ar)
    off = 12
    for _ in range(qd):
        e = Entry()
        e.section = 'qd'
        e.start = off
        e.name = read_name(data, off)
        off = e.name.end
        if off + 4 > n:
            raise WireError('question fixed part overruns')
        e.type = (data[off] << 8) | data[off + 1]
        e.cls = (data[off + 2] << 8) | data[off + 3]
        off += 4
        e.end = off
        m.questions.append(e)
    for sec, cnt, lst in (('an', an, m.answers), ('ns', ns, m.authorities), ('ar', ar, m.additionals)):
        for _ in range(cnt):
            e = Entry()
            e.section = sec
            e.start = off
            e.name = read_name(data, off)
            off = e.name.end
            if off + 10 > n:
                raise WireError('record fixed part overruns')
            e.type = (data[off] << 8) | data[off + 1]
            e.cls = (data[off + 2] << 8) | data[off + 3]
            e.ttl = (data[off + 4] << 24) | (data[off + 5] << 16) | (data[off + 6] << 8) | data[off + 7]
            e.rdlen = (data[off + 8] << 8) | data[off + 9]
            off += 10
            if off + e.rdlen > n:
                raise WireError('rdata overruns')
            e.rdata = data[off: off + e.rdlen]
            e.rd = _decode_rdata(data, e, off, strict)
            off += e.rdlen
            e.end = off
            lst.append(e)
    if strict and off != n:
        raise WireError('trailing bytes')
    return m


# ----------------------------------------------------------------------------- building
def enc_name(name: str) -> bytes:
    out = b''
    if name.endswith('.'):
        name = name[:-1]
    if name:
        for lab in name.split('.'):
            b = lab.encode('utf-8')
            assert 0 < len(b) < 64, name
            out += bytes([len(b)]) + b
    return out + b'\0'


def enc_rdata(type_: int, rd: Any) -> bytes:
    if type_ in (T_A, T_AAAA, T_TXT):
        return rd
    if type_ in (T_PTR, T_CNAME):
        return enc_name(rd)
    if type_ == T_SRV:
        return bytes([rd[0] >> 8, rd[0] & 255, rd[1] >> 8, rd[1] & 255, rd[2] >> 8, rd[2] & 255]) + enc_name(rd[3])
    if type_ == T_HINFO:
        return bytes([len(rd[0])]) + rd[0] + bytes([len(rd[1])]) + rd[1]
    if type_ == T_NSEC:
        bitmap = bytearray(32)
        top = 0
        for t in rd[1]:
            bitmap[t // 8] |= 0x80 >> (t % 8)
            top = max(top, t // 8 + 1)
        return enc_name(rd[0]) + bytes([0, top]) + bytes(bitmap[:top])
    return rd


def build(id_: int = 0, flags: int = 0, questions: List[tuple] = (), answers: List[tuple] = (),  # type: ignore[assignment]
          authorities: List[tuple] = (), additionals: List[tuple] = ()) -> bytes:  # type: ignore[assignment]
    """Uncompressed message builder for the harness' own peers.

    question = (name, type, class);  record = (name, type, class, ttl, rd)
    """
    out = bytearray()
    out += bytes([id_ >> 8, id_ & 255, flags >> 8, flags & 255])
    for cnt in (len(questions), len(answers), len(authorities), len(additionals)):
        out += bytes([cnt >> 8, cnt & 255])
    for (name, t, c) in questions:
        out += enc_name(name) + bytes([t >> 8, t & 255, c >> 8, c & 255])
    for sec in (answers, authorities, additionals):
        for (name, t, c, ttl, rd) in sec:
            rdata = enc_rdata(t, rd)
            out += enc_name(name) + bytes([t >> 8, t & 255, c >> 8, c & 255])
            out += bytes([(ttl >> 24) & 255, (ttl >> 16) & 255, (ttl >> 8) & 255, ttl & 255])
            out += bytes([len(rdata) >> 8, len(rdata) & 255]) + rdata
    return bytes(out)


def summarize(m: Msg) -> Dict[str, Any]:
    """Human-readable JSON-able summary (for replay files and samples)."""
    def q(e: Entry) -> list:
        return [e.name.text, e.type, e.cls]

    def r(e: Entry) -> list:
        rd = e.rd
        if isinstance(rd, (bytes, bytearray)):
            rd = rd.hex()
        elif isinstance(rd, tuple):
            rd = [x.hex() if isinstance(x, (bytes, bytearray)) else x for x in rd]
        return [e.name.text, e.type, e.cls, e.ttl, rd]
    return {'id': m.id, 'flags': m.flags, 'qd': [q(e) for e in m.questions], 'an': [r(e) for e in m.answers],
            'ns': [r(e) for e in m.authorities], 'ar': [r(e) for e in m.additionals]}
