"""Thin driver around TLC (tla2tools 1.8.0)."""
from __future__ import annotations

import json
import os
import re
import shutil
import subprocess
import tempfile
import time
from typing import Any, Dict, List, Optional

VERIF = os.path.dirname(os.path.dirname(os.path.abspath(__file__)))
SPEC = os.path.join(VERIF, 'spec')
WORK = os.path.join(VERIF, '.work')
JAR = '/opt/veriftools/tla/tla2tools.jar:/opt/veriftools/tla/CommunityModules-deps.jar'


class TLCError(RuntimeError):
    """Machinery failure (parse error, crash, timeout) -- never a verdict."""


def workdir(tag: str) -> str:
    os.makedirs(WORK, exist_ok=True)
    return tempfile.mkdtemp(prefix=f'{tag}.', dir=WORK)


def _run(args: List[str], env: Dict[str, str], timeout: int, cwd: str) -> subprocess.CompletedProcess:
    e = dict(os.environ)
    e.update(env)
    opts = e.get('JAVA_TOOL_OPTIONS', '')
    if '-Xss' not in opts:
        opts = (opts + ' -Xss512m').strip()
    e['JAVA_TOOL_OPTIONS'] = opts
    cmd = ['java', '-XX:+UseParallelGC', '-Xmx8g', '-cp', JAR, 'tlc2.TLC'] + args
    try:
        return subprocess.run(cmd, cwd=cwd, env=e, capture_output=True, text=True, timeout=timeout)
    except subprocess.TimeoutExpired as ex:
        raise TLCError(f'TLC timed out after {timeout}s: {" ".join(args)}') from ex


_RE_STATES = re.compile(r'(\d+) states generated, (\d+) distinct states found, (\d+) states left on queue')
_RE_DEPTH = re.compile(r'The depth of the complete state graph search is (\d+)')
_RE_COV = re.compile(r'^<(\w+) line (\d+), col (\d+) to line (\d+), col (\d+) of module (\w+)>: (\d+):(\d+)', re.M)


def model_check(module: str, cfg: Optional[str] = None, workers: int = 16, timeout: int = 900,
                coverage: bool = True, env: Optional[Dict[str, str]] = None, extra: Optional[List[str]] = None,
                expect_violation: bool = False) -> Dict[str, Any]:
    """Run TLC exhaustively on spec/<module>.tla with spec/<cfg>.cfg.

    Returns dict(ok, states, distinct, depth, actions{name: count}, violated, out).
    Raises TLCError on anything that is not "no error" / "invariant or property violated".
    """
    wd = workdir(module)
    t0 = time.time()
    try:
        args = ['-workers', str(workers), '-metadir', os.path.join(wd, 'meta'), '-noGenerateSpecTE']
        if coverage:
            args += ['-coverage', '1']
        if cfg:
            args += ['-config', os.path.join(SPEC, cfg if cfg.endswith('.cfg') else cfg + '.cfg')]
        args += extra or []
        args.append(os.path.join(SPEC, module + '.tla'))
        p = _run(args, env or {}, timeout, cwd=wd)
        out = p.stdout + p.stderr
        m = None
        for m in _RE_STATES.finditer(out):
            pass
        res: Dict[str, Any] = {'out': out, 'wall_s': round(time.time() - t0, 2)}
        if m:
            res['states'] = int(m.group(1))
            res['distinct'] = int(m.group(2))
        d = _RE_DEPTH.search(out)
        res['depth'] = int(d.group(1)) if d else None
        acts: Dict[str, int] = {}
        for c in _RE_COV.finditer(out):
            acts[c.group(1)] = max(acts.get(c.group(1), 0), int(c.group(8)))
        res['actions'] = acts
        violated = None
        mv = re.search(r'Invariant (\S+) is violated', out)
        if mv:
            violated = mv.group(1)
        mv2 = re.search(r'Action property (\S+) is violated', out) or re.search(r'Temporal properties were violated', out)
        if mv2 and not violated:
            violated = mv2.group(1) if mv2.groups() else 'temporal'
        res['violated'] = violated
        finished = 'Model checking completed. No error has been found.' in out
        res['ok'] = finished
        if not finished and not violated:
            raise TLCError('TLC failed on %s/%s:\n%s' % (module, cfg, out[-4000:]))
        if not m:
            raise TLCError('TLC printed no state count for %s:\n%s' % (module, out[-2000:]))
        return res
    finally:
        shutil.rmtree(wd, ignore_errors=True)


def balanced(out: str, start: int) -> str:
    """The printed TLA+ tuple that starts at out[start] ('<<' ... matching '>>'), possibly spread over several lines."""
    depth = 0
    i = start
    while i < len(out):
        if out.startswith('<<', i):
            depth += 1
            i += 2
        elif out.startswith('>>', i):
            depth -= 1
            i += 2
            if depth == 0:
                return out[start:i]
        else:
            i += 1
    raise TLCError('unbalanced tuple in TLC output')


# (TLC wraps long values over several lines: the value runs to the first '>>' that ends a line)
_RE_PRINT = re.compile(r'^<<"(VERDICT|INFO|EXPECT)", (.*?)>>[ \t]*$', re.M | re.S)


def _tla_to_py(s: str) -> Any:
    """Convert a printed TLA+ value made of tuples, strings, ints, booleans, records and sets to Python."""
    s = s.strip()
    out = []
    i = 0
    n = len(s)
    while i < n:
        c = s[i]
        if s.startswith('<<', i):
            out.append('[')
            i += 2
        elif s.startswith('>>', i):
            out.append(']')
            i += 2
        elif c == '{':
            out.append('[')
            i += 1
        elif c == '}':
            out.append(']')
            i += 1
        elif c == '[':
            out.append('{')
            i += 1
        elif c == ']':
            out.append('}')
            i += 1
        elif s.startswith('|->', i):
            out.append(':')
            i += 3
        elif s.startswith(':>', i):
            out.append(':')
            i += 2
        elif s.startswith('@@', i):
            out.append(',')
            i += 2
        elif c == '"':
            j = i + 1
            while s[j] != '"' or s[j - 1] == '\\':
                j += 1
            out.append(s[i:j + 1])
            i = j + 1
        elif s.startswith('TRUE', i):
            out.append('true')
            i += 4
        elif s.startswith('FALSE', i):
            out.append('false')
            i += 5
        elif c.isalpha() or c == '_':
            j = i
            while j < n and (s[j].isalnum() or s[j] == '_'):
                j += 1
            out.append('"' + s[i:j] + '"')
            i = j
        else:
            out.append(c)
            i += 1
    txt = ''.join(out)
    try:
        return json.loads(txt)
    except Exception:  # noqa: BLE001
        return s


def run_oracle(module: str, cfg: Optional[str], data: Any, tag: str, timeout: int = 900,
               env: Optional[Dict[str, str]] = None, workers: int = 1) -> Dict[str, Any]:
    """Run a trace-validation / oracle spec over `data` (written as JSON, path in IOEnv.TRACE_FILE).

    The spec reports through PrintT(<<"VERDICT", id, ok, detail...>>) lines.  Returns
    dict(verdicts=[...], infos=[...], states, distinct, out).
    """
    wd = workdir(tag)
    t0 = time.time()
    try:
        tf = os.path.join(wd, 'trace.json')
        with open(tf, 'w') as f:
            json.dump(data, f, separators=(',', ':'))
        e = {'TRACE_FILE': tf}
        e.update(env or {})
        args = ['-workers', str(workers), '-metadir', os.path.join(wd, 'meta'), '-noGenerateSpecTE', '-deadlock']
        if cfg:
            args += ['-config', os.path.join(SPEC, cfg if cfg.endswith('.cfg') else cfg + '.cfg')]
        args.append(os.path.join(SPEC, module + '.tla'))
        p = _run(args, e, timeout, cwd=wd)
        out = p.stdout + p.stderr
        verdicts = []
        infos = []
        for mm in _RE_PRINT.finditer(out):
            val = _tla_to_py('<<"' + mm.group(1) + '", ' + mm.group(2) + '>>')
            (verdicts if mm.group(1) == 'VERDICT' else infos).append(val)
        res: Dict[str, Any] = {'verdicts': verdicts, 'infos': infos, 'out': out,
                               'wall_s': round(time.time() - t0, 2)}
        m = None
        for m in _RE_STATES.finditer(out):
            pass
        if m:
            res['states'] = int(m.group(1))
            res['distinct'] = int(m.group(2))
        bad = ('Parsing or semantic analysis failed' in out or 'TLC threw an unexpected exception' in out
               or 'java.lang.' in out and 'Exception' in out or re.search(r'^Error: ', out, re.M) is not None)
        done = ('Model checking completed' in out) or ('Finished in' in out)
        if bad or not done:
            k = out.find('\nError:')
            raise TLCError('TLC oracle run failed (%s/%s):\n%s\n...\n%s' % (module, cfg, out[max(0, k):k + 1500], out[-3000:]))
        return res
    finally:
        if os.environ.get('VERIF_KEEP_WORK'):
            pass
        else:
            shutil.rmtree(wd, ignore_errors=True)


def simulate(module: str, cfg: str, num: int, depth: int, seed: int, timeout: int = 600) -> List[List[dict]]:
    """tlc -simulate: returns behaviours as lists of {action, state(text)} parsed from the trace files."""
    wd = workdir(module + '.sim')
    try:
        prefix = os.path.join(wd, 'tr')
        args = ['-simulate', f'file={prefix},num={num}', '-depth', str(depth), '-workers', '1', '-seed', str(seed),
                '-metadir', os.path.join(wd, 'meta'), '-noGenerateSpecTE', '-deadlock',
                '-config', os.path.join(SPEC, cfg if cfg.endswith('.cfg') else cfg + '.cfg'),
                os.path.join(SPEC, module + '.tla')]
        p = _run(args, {}, timeout, cwd=wd)
        out = p.stdout + p.stderr
        if 'Parsing or semantic analysis failed' in out:
            raise TLCError(out[-3000:])
        behaviours = []
        for fn in sorted(os.listdir(wd)):
            if not fn.startswith('tr'):
                continue
            txt = open(os.path.join(wd, fn)).read()
            steps = []
            for mm in re.finditer(r'\\\* <(\w+)[^>]*>\s*\nSTATE_\d+ ==\s*\n(.*?)(?=\n\n|\Z)', txt, re.S):
                steps.append({'action': mm.group(1), 'state': parse_state(mm.group(2))})
            behaviours.append(steps)
        return behaviours
    finally:
        shutil.rmtree(wd, ignore_errors=True)


def parse_state(txt: str) -> Dict[str, Any]:
    """Parse '/\\ var = value' conjunct lists as printed by TLC."""
    res: Dict[str, Any] = {}
    parts = re.split(r'^\s*/\\ ', txt, flags=re.M)
    for part in parts:
        part = part.strip()
        if not part:
            continue
        k, _, v = part.partition(' = ')
        res[k.strip()] = _tla_to_py(' '.join(v.split()))
    return res
