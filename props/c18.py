"""C18 -- service-info lookup: bounded, cache-first, never from expired data (Trace_Lookup.tla)."""
from __future__ import annotations

import random
from typing import Dict, List

from props import lookupfam as lf
from props import trace_run
from vf.core import Ctx


def common(own: str) -> dict:
    srvinfo = []
    for i in sorted(lf.VOCAB):
        v = lf.VOCAB[i]
        srvinfo.append([v[2][2], v[2][0], v[2][1]] if v[3] == 'srv' else [0, 0, 0])
    return {'vocab': lf.vocab_json(), 'srvinfo': srvinfo, 'own': own}


def run_scenarios(ctx: Ctx, own: str, scenarios: List[dict], want_traces: bool = False):  # type: ignore[no-untyped-def]
    traces = trace_run.record_all('props.lookupfam', 'Recorder', scenarios, 16 if ctx.thorough else 8)
    ctx.log('recorded %d lookup traces, %d events' % (len(traces), sum(len(t['events']) for t in traces)))
    verdicts, states, trans = trace_run.validate('Trace_Lookup', traces, common(own), batch=400, par=4)
    def disc(sc: dict, tr: dict, clause: str, pos: int) -> str:
        if clause == 'C13_LookupSpacing':
            start = max([k for k, e in enumerate(tr['events'][:pos]) if e['ev'] == 'lookup'] or [0])
            sent = [e for e in tr['events'][start:pos] if e['ev'] == 'query']       # the queries of this lookup
            if len(sent) == 3 and sent[2]['t'] - sent[1]['t'] <= 320 and {q['who'] for q in sent[2]['qs']} != {q['who'] for q in sent[1]['qs']}:
                return 'third-query-after-host-learned'
            if len(sent) == 3 and sent[2]['t'] - sent[1]['t'] <= 320:
                return 'third-query-220-320ms-after-second'
        return 'plain'
    res = trace_run.triage(ctx, own, scenarios, traces, verdicts, disc)
    out = {'ok_from_cache': 0, 'ok_after_wait': 0, 'timed_out': 0, 'queries': 0}
    nontrivial = set()
    for t in traces:
        t0 = next((e['t'] for e in t['events'] if e['ev'] == 'lookup'), None)
        r = next((e for e in t['events'] if e['ev'] == 'ret'), None)
        nq = sum(1 for e in t['events'] if e['ev'] == 'query')
        out['queries'] += nq
        if r is None:
            continue
        if r['ok'] and r['t'] == t0:
            out['ok_from_cache'] += 1
        elif r['ok']:
            out['ok_after_wait'] += 1
        else:
            out['timed_out'] += 1
        nontrivial.add(hash((r['ok'], r['t'] - (t0 or 0), nq, tuple(r['addrs']))))
    cov = ctx.coverage
    cov['states'] = cov.get('states', 0) + states
    cov['transitions'] = cov.get('transitions', 0) + trans
    cov['traces_validated_against_impl'] = cov.get('traces_validated_against_impl', 0) + len(traces)
    cov['evaluations'] = cov.get('evaluations', 0) + len(traces)
    cov['distinct_nontrivial'] = cov.get('distinct_nontrivial', 0) + len(nontrivial)
    cov['lookup_outcomes'] = out
    cov.setdefault('samples', []).append({'scenario': scenarios[0]['id'], 'steps': scenarios[0]['steps'][:10]})
    for k, v in res.items():
        if k == 'accepted':
            cov['accepted'] = cov.get('accepted', 0) + v
        else:
            cov.setdefault(k, {}).update(v)
    return traces if want_traces else out


def run(ctx: Ctx) -> None:
    # the operations documented as thread-safe, under every single pre-emption by the other thread (props/threadsfam.py, Trace_Threads.tla)
    from props import threadsfam
    threadsfam.run(ctx, 'C18')
    # the synchronous API from application threads, two blocking instances, real time (props/syncapi.py, Trace_SyncApi.tla)
    from props import syncapi
    syncapi.run(ctx, 'C18')
    rng = random.Random(ctx.seed * 7919 + 18)
    from props import lookupmodel as lm
    scs = [lf.gen_lookup(rng, 'c18-%d' % k, ctx.thorough) for k in range(ctx.pick(1500, 20000))]
    scs += [lf.gen_hostile(rng, 'c18h-%d' % k) for k in range(ctx.pick(24, 200))]
    # binding 1: the implementation-shaped lookup model against ReturnBy / SuccessIff / CacheFirst / QuThenQm, exhaustively
    info = lm.check_models(ctx)
    ctx.log('Lookup model: %d distinct states, contract invariants hold; strict QM spacing reaches the schedule of finding D15'
            % info['model_distinct'])
    # binding 2: its behaviours replayed into the real AsyncServiceInfo.async_request
    mscs, predicted = lm.model_scenarios(ctx, 'c18')
    traces = run_scenarios(ctx, 'C18', scs + mscs, want_traces=True)
    d = lm.drift(traces, predicted)
    for x in d[:5]:
        print('MODEL-DRIFT property=C18 scenario=%s real queries / return %s, model predicts %s (evidence, not a verdict: the '
              'exhaustively checked model Lookup.tla no longer describes the lookup)' % (x['scenario'], x['real'], x['model']))
    ctx.coverage.update(info)
    ctx.coverage.update({'model_behaviours_replayed': len(mscs), 'model_drift': len(d), 'model_drift_samples': d[:3],
                         'model_constants': 'exhaustive: 8 initial cache states x records (any subset of SRV/TXT/address, SRV before or '
                                            'after the address) arriving at 19 instants around the query instants and the deadline, '
                                            'timeouts 3000 and 200 ms; replay: every history over 4 instants (every 4th in the quick '
                                            'tier) plus random walks over 17 instants'})
    ctx.log('model behaviours replayed into the real lookup: %d, drift: %d' % (len(mscs), len(d)))
    ctx.coverage['rule'] = ('cache states = each of SRV/TXT/A/A/AAAA/other-host A absent, fresh, stale or expired-but-unpurged at the '
                            'lookup instant; missing records (also goodbyes, flush bits, re-cased names) arriving at offsets '
                            '0,1,199,200,221,320,500,1000,1300,timeout-1,timeout,timeout+1 ms; time-outs 200/3000/10000 ms; forced '
                            'QU/QM; non-trivial = distinct (result, return offset, number of queries, addresses)')
    ctx.assumptions += ['at most one SRV and one TXT identity for the instance is cached at a time (generator)',
                        'virtual-time simulator']


def replay(ctx: Ctx, path: str) -> None:
    import json
    run_scenarios(ctx, 'C18', [json.load(open(path))['replay']['scenario']])
