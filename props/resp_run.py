"""Shared runner of the responder family checks (C03, C08, C11, C12)."""
from __future__ import annotations

import random
from typing import Any, Dict, List

from props import respfam as rf
from props import trace_run
from vf.core import Ctx


def disc(sc: dict, tr: dict, clause: str, pos: int) -> str:
    evs = tr['events']
    t = evs[pos - 1]['t'] if 0 < pos <= len(evs) else 0
    if '-d22-' in str(sc.get('id')):
        return 'own-aaaa-on-ipv6-socket'        # the directed histories of finding D22 (respfam.d22_scenarios)
    if clause == 'C11_UnicastEcho':
        # finding D29: the rejected reply answers a query that came from another port of an address for which a truncated train
        # (from a different port) was held
        last = next((e for e in reversed(evs[:pos]) if e['ev'] == 'recv' and not e.get('resp') and not e.get('bad') and e.get('inj')), None)
        if last is not None and not last.get('tc'):
            for e in evs[:pos]:
                if (e['ev'] == 'recv' and e.get('tc') and not e.get('bad') and e.get('src') == last.get('src') and e.get('port') != last.get('port')
                        and last['t'] - 500 <= e['t'] <= last['t']):
                    return 'other-port-completes-held-train'
    if clause.startswith('C12_'):
        # the rejected send follows the assembly of a truncated (TC) query by less than 1.3 s
        for e in evs[:pos]:
            if e['ev'] == 'rand' and e.get('site') == 'tc' and t - 1800 <= e['t'] <= t:
                return 'after-tc-hold'
    return 'plain'


def run_family(ctx: Ctx, own: str, focus: str, n_quick: int, n_thorough: int, extra: List[dict] = ()) -> Any:  # type: ignore[assignment]
    rng = random.Random(ctx.seed * 7919 + int(own[1:]))
    n = ctx.pick(n_quick, n_thorough)
    scenarios = [rf.gen_resp(rng, '%s-%d' % (own.lower(), k), focus, ctx.thorough) for k in range(n)] + list(extra)
    traces = trace_run.record_all('props.respfam', 'Recorder', scenarios, 16 if ctx.thorough else 8)
    ctx.log('recorded %d traces, %d events' % (len(traces), sum(len(t['events']) for t in traces)))
    verdicts, states, trans = trace_run.validate('Trace_Responder', traces, {'own': own}, batch=250, par=4 if ctx.thorough else 3)
    res = trace_run.triage(ctx, own, scenarios, traces, verdicts, disc)
    kinds: Dict[str, int] = {'legacy_queries': 0, 'qu_queries': 0, 'probe_queries': 0, 'tc_packets': 0, 'unicast_replies': 0,
                             'multicast_replies': 0, 'goodbyes': 0, 'api_unreg': 0, 'api_upd': 0, 'api_close': 0}
    nontrivial = set()
    for t in traces:
        sig = []
        for e in t['events']:
            if e['ev'] == 'recv' and not e.get('bad') and not e.get('resp') and e.get('inj'):
                if e['port'] != 5353:
                    kinds['legacy_queries'] += 1
                if any(q[2] for q in e['qs']):
                    kinds['qu_queries'] += 1
                if e['ns']:
                    kinds['probe_queries'] += 1
                if e['tc']:
                    kinds['tc_packets'] += 1
            elif e['ev'] == 'send' and not e.get('bad') and e.get('resp'):
                if e['mc']:
                    if e['an'] and all(x[1] == 0 for x in e['an']):
                        kinds['goodbyes'] += 1
                    else:
                        kinds['multicast_replies'] += 1
                else:
                    kinds['unicast_replies'] += 1
                sig.append((e['t'], e['mc'], tuple(x[0] for x in e['an'])))
            elif e['ev'] == 'api':
                k = 'api_' + e['op']
                if k in kinds:
                    kinds[k] += 1
        if len(sig) > 6:
            nontrivial.add(hash(tuple(sig)))
    cov = ctx.coverage
    cov.update({
        'states': cov.get('states', 0) + states, 'transitions': cov.get('transitions', 0) + trans,
        'traces_validated_against_impl': len(traces), 'evaluations': len(traces), 'distinct_nontrivial': len(nontrivial),
        'rule': 'seeded scenarios: 1-3 registered services (shared/distinct hosts, v4/v6/dual/two addresses, subtype, custom '
                'TTLs, re-cased names), queries of 1-3 questions of every type with QU/QM bits, known answers below/at/above '
                'half TTL, probes, legacy source ports, truncated trains, on a grid of gaps around 0/20/120/200/500/999/1000/'
                '1001/1120 ms and quarter-TTL waits, interleaved with update/unregister/re-register/close; non-trivial = '
                'distinct reply timelines with more than 6 replies',
        'event_kinds': kinds, 'event_counts': trace_run.event_counts(traces),
        'samples': [{'scenario': scenarios[0]['id'], 'steps': scenarios[0]['steps'][:8]},
                    {'replies': [[e['t'], 'mc' if e['mc'] else 'uc', e['an'], e['ar']] for e in traces[-1]['events']
                                 if e['ev'] == 'send' and not e.get('bad') and e.get('resp')][:5]}],
    })
    cov.update(res)
    ctx.assumptions += ['virtual-time simulator; own multicasts looped back as a later callback at the same instant',
                        'records interned by the independent wire parser; registry reconstructed from API calls',
                        'API calls on a service only after its previous announcement/goodbye sequence has finished']
    return scenarios, traces


def suppressed_sightings(tr: dict, upto: int) -> List[dict]:
    """Response datagrams delivered to the host that its duplicate guard dropped (byte-identical to the previous datagram it
    processed less than a second earlier, which had no QU question): what they carried never reached the cache."""
    out = []
    last_did, last_proc, last_qu = 0, -100000, False
    for e in tr['events'][:upto]:
        if e['ev'] != 'recv' or e.get('len', 0) > 8966:
            continue
        if e.get('bad'):
            last_did, last_proc, last_qu = e['did'], e['t'], False
            continue
        if e['did'] == last_did and e['t'] - 1000 < last_proc and not last_qu:
            if e.get('resp'):
                out.append(e)
            continue
        last_did, last_proc, last_qu = e['did'], e['t'], any(q[2] == 1 for q in e.get('qs', []))
    return out


def strict_sighting_pass(ctx: Ctx, scenarios: List[dict], traces: List[dict]) -> None:
    """Second pass over the same executions for the clause C12_OneSecondAfterAnySighting (strict reading of the one-second
    rule, see DESIGN.md 0.5 D17); kept apart so that it cannot hide a later failure of the other C12 clauses."""
    verdicts, states, trans = trace_run.validate('Trace_Responder', traces, {'own': 'C12S'}, batch=250, par=4 if ctx.thorough else 3)

    def disc2(sc: dict, tr: dict, clause: str, pos: int) -> str:
        evs = tr['events']
        if clause != 'C12_OneSecondAfterAnySighting' or not 0 < pos <= len(evs):
            return 'plain'
        e = evs[pos - 1]
        sent = {a[0] for a in e.get('an', [])}
        for d in suppressed_sightings(tr, pos):
            if e['t'] - 2300 <= d['t'] <= e['t'] and sent & {a[0] for a in d.get('an', []) + d.get('ar', []) if a[1] > 0}:
                return 'sighting-dropped-by-duplicate-guard'
        return 'plain'
    res = trace_run.triage(ctx, 'C12', scenarios, traces, verdicts, disc2)
    ctx.coverage['strict_sighting_pass'] = {'traces': len(traces), 'states': states, 'rejected': res.get('rejected', None)}


def additional_pass(ctx: Ctx, scenarios: List[dict], traces: List[dict]) -> None:
    """Third pass over the same executions for the clause C12_AdditionalWithinSecond (the one-second rule applied to the
    additional records of a reply, finding D25); kept apart like the strict-sighting pass."""
    verdicts, states, trans = trace_run.validate('Trace_Responder', traces, {'own': 'C12A'}, batch=250, par=4 if ctx.thorough else 3)
    res = trace_run.triage(ctx, 'C12', scenarios, traces, verdicts,
                           lambda sc, tr, clause, pos: 'additional-record-of-a-reply' if clause == 'C12_AdditionalWithinSecond' else 'plain')
    ctx.coverage['additional_pass'] = {'traces': len(traces), 'states': states, 'rejected': res.get('rejections_by_clause')}
