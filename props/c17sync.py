"""C17, close() from a non-loop thread: the thread-based ServiceBrowser (Zeroconf.add_service_listener) with slow listener
callbacks and a backlog of queued events when the application calls Zeroconf.close().  Real threads, real time, real loopback
sockets -- the one part of C17 the virtual-time harness cannot reach.  The observations (listener callbacks, the close call and
its return) become a trace for the same contract (Trace_Responder.tla, own = C17: nothing fires once close has returned)."""
from __future__ import annotations

import json
import os
import subprocess
import sys
import threading
import time
from typing import Any, Dict, List, Optional

TYPE = '_synclose._tcp.local.'


def record(n_services: int, cb_seconds: float, sid: str, mode: str = 'backlog') -> Optional[dict]:
    """Returns the trace, or None when the sandbox cannot give the library a real socket (the sub-check is then skipped).
    mode 'backlog': a thread-based browser with n_services slow callbacks queued when close() is called from this thread.
    mode 'foreign-loop': a registered service; close() is called from a coroutine of ANOTHER asyncio loop running in this thread."""
    import asyncio
    sys.path.insert(0, os.path.dirname(os.path.dirname(os.path.abspath(__file__))))
    from vf import wire
    from zeroconf import DNSOutgoing, DNSPointer, ServiceInfo, ServiceListener, Zeroconf, const
    t0 = time.monotonic()
    lock = threading.Lock()
    events: List[dict] = [{'ev': 'start', 't': 0}]

    def ev(_ev: str, **kw: Any) -> None:
        with lock:
            e = {'ev': _ev, 't': int((time.monotonic() - t0) * 1000)}
            e.update(kw)
            events.append(e)

    names: Dict[str, int] = {}
    recs: Dict[tuple, int] = {}

    class Slow(ServiceListener):
        def _cb(self, kind: str, name: str) -> None:
            ev('cb', kind=kind, name=names.setdefault(name.lower(), len(names) + 10))
            time.sleep(cb_seconds)          # stands for a listener that looks the service up and waits for the answer

        def add_service(self, zc: Any, type_: str, name: str) -> None:
            self._cb('add', name)

        def remove_service(self, zc: Any, type_: str, name: str) -> None:
            self._cb('rem', name)

        def update_service(self, zc: Any, type_: str, name: str) -> None:
            self._cb('upd', name)
    if mode == 'async-close':
        # an asyncio application with a thread-based listener (add_service_listener on the instance behind its AsyncZeroconf)
        # shuts down with `await async_close()` on the loop while the listener still has a backlog of slow callbacks
        from zeroconf.asyncio import AsyncZeroconf
        skip = {}

        async def app() -> None:
            try:
                aiozc = AsyncZeroconf(interfaces=['127.0.0.1'])
            except Exception:  # noqa: BLE001
                skip['y'] = True
                return
            zc2 = aiozc.zeroconf
            await zc2.async_wait_for_start()
            zc2.add_service_listener(TYPE, Slow())
            await asyncio.sleep(0.3)
            out = DNSOutgoing(const._FLAGS_QR_RESPONSE | const._FLAGS_AA)
            for k in range(n_services):
                out.add_answer_at_time(DNSPointer(TYPE, const._TYPE_PTR, const._CLASS_IN, 4500, 'Inst%d.%s' % (k, TYPE)), 0)
            zc2.engine.protocols[0].datagram_received(out.packets()[0], ('127.0.0.1', const._MDNS_PORT))
            await asyncio.sleep(0.2)
            ev('api', op='close')
            try:
                await aiozc.async_close()
                ev('api_ret', op='close', ok=True)
            except Exception as ex:  # noqa: BLE001
                ev('exc', what=type(ex).__name__, msg=str(ex)[:100])
            await asyncio.sleep(n_services * cb_seconds + 0.8)
        try:
            asyncio.run(app())
        except Exception as ex:  # noqa: BLE001
            ev('exc', what=type(ex).__name__, msg=str(ex)[:100])
        if skip:
            return None
        ev('end')
        return {'id': sid, 'events': events}
    try:
        zc = Zeroconf(interfaces=['127.0.0.1'])
    except Exception:  # noqa: BLE001
        return None
    orig_send = zc.async_send

    def logged_send(out: Any, *a: Any, **kw: Any) -> None:
        # what the instance multicasts, projected with the independent parser: [record id, ttl] per record
        try:
            if not a and not kw.get('addr'):
                for data in out.packets():
                    m = wire.parse(data)
                    if m.is_response:
                        ev('send', recs=[[recs.setdefault((r.name.text.lower(), r.type, repr(wire.rd_key(r.type, r.rd))), len(recs) + 1), min(r.ttl, 1)]
                                         for r in m.records()])
        except Exception as ex:  # noqa: BLE001
            ev('exc', what='harness:' + type(ex).__name__, msg=str(ex)[:100])
        orig_send(out, *a, **kw)
    zc.async_send = logged_send            # type: ignore[method-assign]
    try:
        if mode == 'backlog':
            zc.add_service_listener(TYPE, Slow())
            time.sleep(0.3)
            out = DNSOutgoing(const._FLAGS_QR_RESPONSE | const._FLAGS_AA)
            for k in range(n_services):
                out.add_answer_at_time(DNSPointer(TYPE, const._TYPE_PTR, const._CLASS_IN, 4500, 'Inst%d.%s' % (k, TYPE)), 0)
            assert zc.loop is not None
            zc.loop.call_soon_threadsafe(zc.engine.protocols[0].datagram_received, out.packets()[0], ('127.0.0.1', const._MDNS_PORT))
            time.sleep(0.3)                     # the browser thread is busy with the first event, the others are queued
            ev('api', op='close')
            zc.close()                          # from this (non-loop) thread
            ev('api_ret', op='close', ok=True)
        else:
            import socket
            info = ServiceInfo(TYPE, 'Mine.' + TYPE, 80, properties=b'\x03a=1', server='mine-host.local.', addresses=[socket.inet_aton('127.0.0.1')])
            zc.register_service(info, cooperating_responders=True)
            time.sleep(0.8)                     # the three announcements are out

            async def shutdown() -> None:
                # an asyncio application that owns a blocking Zeroconf and closes it from its own shutdown coroutine
                ev('api', op='close')
                zc.close()
                ev('api_ret', op='close', ok=True)
            asyncio.run(shutdown())
        ev('api', op='close')
        zc.close()                              # closing again is a no-op
        ev('api_ret', op='close', ok=True)
    except Exception as ex:  # noqa: BLE001
        ev('exc', what=type(ex).__name__, msg=str(ex)[:100])
    # whatever was still queued would fire within the time the backlog needs
    time.sleep((n_services * cb_seconds if mode == 'backlog' else 0.5) + 1.0)
    ev('end')
    return {'id': sid, 'events': events}


def record_in_subprocess(n_services: int, cb_seconds: float, sid: str, mode: str = 'backlog') -> Optional[dict]:
    """The virtual-time harness replaces the library's clock process-wide: the real-time history runs in an interpreter of its own."""
    verif = os.path.dirname(os.path.dirname(os.path.abspath(__file__)))
    code = ('import sys, json; sys.path.insert(0, %r); sys.path.insert(0, %r); from props import c17sync; '
            'print("TRACE " + json.dumps(c17sync.record(%d, %r, %r, %r)))'
            % (os.path.join(os.environ.get('VERIF_REPO', '/repo'), 'src'), verif, n_services, cb_seconds, sid, mode))
    p = subprocess.run([sys.executable, '-c', code], capture_output=True, text=True, timeout=600)
    for line in p.stdout.splitlines():
        if line.startswith('TRACE '):
            return json.loads(line[6:])
    raise RuntimeError('sync-close recorder failed: %s' % (p.stdout + p.stderr)[-600:])
