"""Bindings 1-3 for the question history (C13, duplicate question suppression): spec/History.tla is explored exhaustively by TLC
against HistoryContract.tla (the configurations in which the clean-up relies on the order of the table, and in which the table is
keyed by the spelled name, must fail); every history of its replay configuration is performed on a real QuestionHistory with real
DNSQuestion / DNSPointer objects, and every answer of suppresses() is judged by TLC against the same contract (Trace_History.tla)."""
from __future__ import annotations

import re
from typing import Any, Dict, List

from props import schedmodel as sm
from vf import tlc
from vf.core import Ctx, Machinery

NAMES = {'q1': '_http._tcp.local.', 'Q1': '_HTTP._TCP.local.', 'q2': '_ipp._tcp.local.'}
KEY = {'q1': 'q1', 'Q1': 'q1', 'q2': 'q2'}


class HistoryRecorder:
    def __init__(self, sc: dict) -> None:
        self.sc = sc

    def run(self) -> dict:
        from zeroconf import DNSPointer, DNSQuestion
        from zeroconf._history import QuestionHistory
        h = QuestionHistory()
        events: List[dict] = [{'ev': 'start'}]

        def ka_set(ka: List[str], sp: str, t: int = 0) -> set:
            # a fresh set of fresh record objects per call (equal records, other objects, other spelling of the owner name)
            return {DNSPointer(NAMES[sp], 12, 1, 4500, 'Inst-%s.%s' % (a, NAMES['q1' if KEY[sp] == 'q1' else 'q2']), float(t)) for a in ka}
        try:
            for (op, t, sp, ka, _res) in self.sc['ops']:
                if op == 'add':
                    h.add_question_at_time(DNSQuestion(NAMES[sp], 12, 1), float(t), ka_set(ka, sp, t))
                    events.append({'ev': 'add', 't': t, 'q': KEY[sp], 'ka': sorted(ka)})
                elif op == 'ask':
                    r = h.suppresses(DNSQuestion(NAMES[sp], 12, 1), float(t), ka_set(ka, sp, t))
                    events.append({'ev': 'ask', 't': t, 'q': KEY[sp], 'ka': sorted(ka), 'res': bool(r)})
                else:
                    h.async_expire(float(t))
                    events.append({'ev': 'expire', 't': t})
        except Exception as ex:  # noqa: BLE001
            events.append({'ev': 'exc', 't': 0, 'what': type(ex).__name__})
        events.append({'ev': 'end'})
        return {'id': self.sc['id'], 'events': events}


def histories(cfg: str) -> List[tuple]:
    r = tlc.model_check('History', cfg, workers=1, coverage=False, timeout=1800)
    if not r['ok']:
        raise Machinery('History/%s: TLC reports %s' % (cfg, r['violated']))
    res = set()
    out = r['out']
    for m in re.finditer(r'<<\s*"BEHAVIOUR",', out):
        val = tlc._tla_to_py(' '.join(sm._balanced(out, m.start()).split()))
        if not isinstance(val, list) or len(val) != 2:
            raise Machinery('cannot parse BEHAVIOUR value: %r' % (val,))
        res.add(tuple((x['op'], x['t'], x['sp'], tuple(sorted(x['ka'])), bool(x['res'])) for x in val[1]))
    return sorted(res)


def run(ctx: Ctx, own: str, replay_scs: Any = None) -> None:
    from props import trace_run
    predicted: Dict[str, list] = {}
    if replay_scs is None:
        r = tlc.model_check('History', 'MC_History' if ctx.thorough else 'MC_History_quick', workers=16, timeout=1800)
        if not r['ok']:
            raise Machinery('History model: TLC reports %s violated' % r['violated'])
        never = sorted(a for a in ('Add', 'Ask', 'Expire', 'Tick') if r['actions'].get(a, 0) == 0)
        if never:
            raise Machinery('History model: actions never taken: %s' % never)
        for cfg in ('MC_History_order_defect', 'MC_History_case_defect'):
            d = tlc.model_check('History', cfg, workers=16, timeout=900, coverage=False)
            if d['ok'] or 'bad = "C13_HistorySuppresses"' not in d['out']:
                raise Machinery('History/%s must reach bad = "C13_HistorySuppresses"' % cfg)
        hs = histories('MC_History_replay_big' if ctx.thorough else 'MC_History_replay')
        hs = [h for h in hs if any(x[0] == 'ask' for x in h)]
        scs = []
        for k, h in enumerate(hs):
            sid = '%s-hist-%d' % (own.lower(), k)
            scs.append({'id': sid, 'ops': [[x[0], x[1], x[2], list(x[3]), x[4]] for x in h]})
            predicted[sid] = [x[4] for x in h if x[0] == 'ask']
        ctx.coverage.update({'history_model_states': r['states'], 'history_model_distinct': r['distinct'], 'history_model_actions': r['actions'],
                             'history_defect_configs_violate': ['MC_History_order_defect', 'MC_History_case_defect']})
    else:
        scs = replay_scs
    traces = trace_run.record_all('props.historymodel', 'HistoryRecorder', scs, 16 if ctx.thorough else 8)
    verdicts, states, trans = trace_run.validate('Trace_History', traces, {'questions': ['q1', 'q2']}, batch=8000, par=4)
    by_id = {t['id']: t for t in traces}
    sc_by = {s['id']: s for s in scs}
    rejected: Dict[str, int] = {}
    for v in verdicts:
        _, tid, ok, clause, pos = v[:5]
        if ok:
            continue
        rejected[clause] = rejected.get(clause, 0) + 1
        if clause.startswith('Trace_') or clause == '':
            raise Machinery('malformed history trace %s at event %s (%r)' % (tid, pos, clause))
        if not clause.startswith(own):
            continue
        e = by_id[tid]['events'][pos - 1] if 0 < pos <= len(by_id[tid]['events']) else None
        ctx.report('%s/history' % clause, '%s rejected call #%d of question-history history %s: %s' % (clause, pos - 1, sc_by[tid]['ops'], e),
                   {'question_history': sc_by[tid], 'clause': clause, 'rejected_event_index': pos})
    drift = 0
    for tr in traces:
        p = predicted.get(tr['id'])
        if p is not None and [e['res'] for e in tr['events'] if e['ev'] == 'ask'] != p:
            drift += 1
            if drift <= 3:
                print('MODEL-DRIFT property=%s question-history history %s: answers %s, model predicts %s (evidence, not a verdict)'
                      % (own, sc_by[tr['id']]['ops'], [e['res'] for e in tr['events'] if e['ev'] == 'ask'], p))
    ctx.coverage.update({'history_histories_replayed': len(traces), 'history_trace_states': states, 'history_rejections_by_clause': rejected,
                         'history_model_drift': drift,
                         'history_constants': 'two questions (one in two spellings) x subsets of 1 (quick) / 2 (thorough) known answers, '
                                              'add / ask / clean-up at 4-7 instants around 999 / 1000 ms'})
    ctx.log('history model: %d histories on the real QuestionHistory, %d rejected by the contract (%s), drift %d' % (len(traces), sum(rejected.values()), rejected, drift))
