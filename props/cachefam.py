"""Cache family harness (C04, C05, C06): drives a real instance in simnet through
AsyncListener.datagram_received with response datagrams over a small vocabulary and records
every lookup path, every record-update-listener call and every browser callback."""
from __future__ import annotations

import asyncio

import random
from typing import Any, Dict, List, Optional, Tuple

from vf import simnet, wire

# In the simulator no time passes inside one callback, so a record that is stamped when it is parsed instead of with the
# arrival time of its datagram would look right.  In this family every record comes out of a received datagram and must carry
# the arrival stamp; a clock read that supplies a *default* creation time (zeroconf._dns) is therefore made to return a
# quarter of a millisecond later, as a real clock would: nothing changes for code that passes the arrival time along.
import zeroconf._dns as _zc_dns  # noqa: E402



def _later_clock() -> float:
    now = simnet._vnow_ms()
    return now + 0.25 if now > 0 else now         # (created = 0 is "not given" for the library: instant 0 stays 0)


_zc_dns.current_time_millis = _later_clock

T1 = '_http._tcp.local.'
T2 = '_Ipp._tcp.local.'            # (browsed as spelled: a type with a capital letter)
IA = 'Alpha._http._tcp.local.'
IB = '\u00c9lodie beta._http._tcp.local.'       # (an upper-case letter outside ASCII: str.lower() folds it, ASCII folding does not)
IC = 'Gamma Straße._Ipp._tcp.local.'       # (lower() keeps the sharp s, casefold() would not)
H1 = 'h1.local.'
H2 = 'H2-Straße.local.'
HW = 'www.local.'
TTL_CAP = 1000000          # seconds; what the trace carries for larger TTLs (TLC integers are 32 bit, the contract multiplies by 1000)


def capttl(x: Any) -> int:
    return int(min(x, TTL_CAP))

# identity table: id -> (name, type, class(no flush bit), rd, alternative spellings of the owner name,
#                         alternative spellings of the rdata target)
VOCAB: Dict[int, tuple] = {
    1: (T1, wire.T_PTR, 1, IA, [T1], [IA, 'ALPHA._http._tcp.local.', 'alpha._HTTP._tcp.local.']),
    2: (T1, wire.T_PTR, 1, IB, [T1], [IB, '\u00c9lodie BETA._http._tcp.local.']),
    3: (T2, wire.T_PTR, 1, IC, [T2], [IC]),
    4: (IA, wire.T_SRV, 1, (0, 0, 80, H1), [IA, 'alpha._http._tcp.local.'], [H1, 'H1.local.']),
    5: (IA, wire.T_SRV, 1, (0, 0, 81, H2), [IA, 'ALPHA._HTTP._TCP.LOCAL.'], [H2, 'h2-straße.local.']),
    6: (IB, wire.T_SRV, 1, (0, 0, 80, H1), [IB], [H1]),
    7: (IA, wire.T_TXT, 1, b'\x03x=1', [IA, 'alpha._http._tcp.local.'], None),
    8: (IA, wire.T_TXT, 1, b'\x03x=2', [IA], None),
    9: (H1, wire.T_A, 1, b'\x0a\x00\x00\x01', [H1, 'H1.LOCAL.'], None),
    10: (H1, wire.T_A, 1, b'\x0a\x00\x00\x02', [H1], None),
    11: (H1, wire.T_AAAA, 1, b'\xfe\x80' + b'\0' * 13 + b'\x01', [H1, 'H1.local.'], None),
    12: (H2, wire.T_A, 1, b'\x0a\x00\x00\x03', [H2, 'h2-straße.local.'], None),
    13: (H1, wire.T_NSEC, 1, (H1, [1]), [H1], None),
    14: (H1, wire.T_HINFO, 1, (b'cpu', b'os'), [H1], None),
    15: (IA, wire.T_TXT, 3, b'\x03x=1', [IA], None),          # same as 7 except for the class
    16: (IC, wire.T_SRV, 1, (0, 0, 631, H2), [IC], [H2]),
    17: (HW, wire.T_CNAME, 1, H1, [HW, 'WWW.local.'], [H1, 'H1.local.']),   # decoded into the pointer class, but not a PTR
    18: (IA, wire.T_NSEC, 1, (IA, [28]), [IA], None),       # what the library announces for a service of its own without IPv6 address
    19: (H2, wire.T_A, 1, b'\x0a\x00\x00\x04', [H2, 'h2-straße.local.'], None),       # a sibling of 12 (rrset of a name with a sharp s)
}
# the service the host registers itself in scenarios with a `reg` step: its records are identities 1, 4, 7, 9 and 18
OWN = {'type': T1, 'name': IA, 'port': 80, 'txt': b'\x03x=1', 'host': H1, 'addr': b'\x0a\x00\x00\x01', 'host_ttl': 120, 'other_ttl': 4500}
NAMES = [T1, T2, IA, IB, IC, H1, H2, HW]
HOSTS = [H1, H2]


def low(s: str) -> str:
    return ''.join(chr(ord(c) + 32) if 'A' <= c <= 'Z' else c for c in s)


def up(s: str) -> str:          # ASCII case only (DNS names compare case-insensitively in ASCII: RFC 4343)
    return ''.join(chr(ord(c) - 32) if 'a' <= c <= 'z' else c for c in s)


def swap(s: str) -> str:
    return ''.join(chr(ord(c) - 32) if 'a' <= c <= 'z' else (chr(ord(c) + 32) if 'A' <= c <= 'Z' else c) for c in s)


NAME_ID = {low(n): i + 1 for i, n in enumerate(NAMES)}
NAME_ID_U = {n.lower(): i + 1 for i, n in enumerate(NAMES)}
RR_ID: Dict[tuple, int] = {}
for _i, _v in VOCAB.items():
    RR_ID.setdefault((low(_v[0]), _v[1], _v[2]), len(RR_ID) + 1)


def rdkey(t: int, rd: Any) -> Any:
    if t in (wire.T_PTR, wire.T_CNAME):
        return low(rd)
    if t == wire.T_SRV:
        return (rd[0], rd[1], rd[2], low(rd[3]))
    if t == wire.T_NSEC:
        return (rd[0], tuple(rd[1]))
    if t == wire.T_HINFO:
        return (bytes(rd[0]), bytes(rd[1]))
    return bytes(rd)


KEY_TO_ID = {(low(v[0]), v[1], v[2], rdkey(v[1], v[3])): i for i, v in VOCAB.items()}


def vocab_json() -> List[dict]:
    out = []
    for i, v in sorted(VOCAB.items()):
        out.append({'id': i, 'rr': RR_ID[(low(v[0]), v[1], v[2])], 'ptr': v[1] == wire.T_PTR,
                    'nb': NAME_ID[low(v[0])],
                    'alias': NAME_ID[low(v[3])] if v[1] == wire.T_PTR else 0,
                    'host': NAME_ID[low(v[3][3])] if v[1] == wire.T_SRV else 0})
    return out


def record_id(rec: Any) -> int:
    """Project a library record object to its vocabulary identity (0 = unknown)."""
    from zeroconf import DNSAddress, DNSHinfo, DNSNsec, DNSPointer, DNSService, DNSText
    t = rec.type
    if isinstance(rec, DNSPointer):
        rd: Any = low(rec.alias)
    elif isinstance(rec, DNSService):
        rd = (rec.priority, rec.weight, rec.port, low(rec.server))
    elif isinstance(rec, DNSText):
        rd = bytes(rec.text)
    elif isinstance(rec, DNSAddress):
        rd = bytes(rec.address)
    elif isinstance(rec, DNSNsec):
        rd = (rec.next_name, tuple(rec.rdtypes))
    elif isinstance(rec, DNSHinfo):
        rd = (rec.cpu.encode(), rec.os.encode())
    else:
        return 0
    return KEY_TO_ID.get((low(rec.name), t, rec.class_, rd), 0)


def whole(c: float) -> int:
    return int(c) if c == int(c) else -999


def triple(rec: Any) -> List[int]:
    c = rec.created
    ttl = rec.ttl
    return [record_id(rec), int(c) if c == int(c) else -999, capttl(ttl) if ttl == int(ttl) else -999]


def build_datagram(items: List[dict], withq: int = 0) -> bytes:
    """withq: the response also carries a question section (1: the question of its first record, 2: the same with the QU bit) --
    responders that echo what they answer, and every legacy unicast response, do (RFC 6762 section 6.7)."""
    answers = []
    for it in items:
        name, t, cls, rd, owner_sp, rd_sp = VOCAB[it['id']]
        owner = owner_sp[it.get('sp', 0) % len(owner_sp)]
        if rd_sp:
            tgt = rd_sp[it.get('rsp', 0) % len(rd_sp)]
            if t == wire.T_SRV:
                rd = (rd[0], rd[1], rd[2], tgt)
            else:
                rd = tgt
        answers.append((owner, t, cls | (0x8000 if it.get('fl') else 0), it['ttl'], rd))
    questions = [(answers[0][0], answers[0][1], 1 | (0x8000 if withq == 2 else 0))] if withq and answers else []
    return wire.build(flags=0x8400, questions=questions, answers=answers)


def probe_objects() -> Dict[int, Any]:
    """One library object per identity, used as lookup key for the by-record paths."""
    from zeroconf import DNSAddress, DNSHinfo, DNSNsec, DNSPointer, DNSService, DNSText
    res = {}
    for i, (name, t, cls, rd, osp, rsp) in VOCAB.items():
        nm = osp[-1]                      # look up with an alternative spelling
        if t in (wire.T_PTR, wire.T_CNAME):
            o: Any = DNSPointer(nm, t, cls, 0, rsp[-1], 1.0)
        elif t == wire.T_SRV:
            o = DNSService(nm, t, cls, 0, rd[0], rd[1], rd[2], rsp[-1], 1.0)
        elif t == wire.T_TXT:
            o = DNSText(nm, t, cls, 0, rd, 1.0)
        elif t in (wire.T_A, wire.T_AAAA):
            o = DNSAddress(nm, t, cls, 0, rd, created=1.0)
        elif t == wire.T_NSEC:
            o = DNSNsec(nm, t, cls, 0, rd[0], list(rd[1]), 1.0)
        else:
            o = DNSHinfo(nm, t, cls, 0, rd[0].decode(), rd[1].decode(), 1.0)
        res[i] = o
    return res


class Recorder:
    """Executes one scenario (a list of steps) against a real instance and produces the trace."""

    def __init__(self, scenario: dict, seed: int = 0) -> None:
        self.sc = scenario
        self.net = simnet.Net(seed=seed, record_bytes=False)
        # the periodic purge takes a moment: a second read of the clock inside it returns a millisecond more
        self.net.skew_in = {'_async_cache_cleanup'}
        self.events: List[dict] = []
        self.probes = probe_objects()
        self.did: Dict[bytes, int] = {}
        self.listeners: Dict[int, Any] = {}
        self.browsers: Dict[int, Any] = {}
        self.host: Any = None
        self.t0 = 0
        self.items_by_data: Dict[bytes, List[dict]] = {}
        self.net.on_recv_hook = self._on_recv
        self.net.on_recv_done_hook = self._on_recv_done
        self._exc_seen = 0
        self.sync_browsers: set = set()
        self.gone: Dict[int, Any] = {}
        self._in_recv = False

    def _on_recv(self, e: dict, data: bytes) -> None:
        self._in_recv = True
        did = self.did.setdefault(data, len(self.did) + 1)
        items = self.items_by_data.get(data)
        if items is None:
            items = self._project(data)
        if items is not None:
            # (a response that echoes a QU question is exempt from the duplicate guard like a query with one: finding D9)
            self.ev('recv', did=did, q=False, qu=self._has_qu(data), items=[{'id': it['id'], 'ttl': capttl(it['ttl']), 'fl': bool(it.get('fl'))}
                                                               for it in items])
        else:
            try:
                m = wire.parse(data)
                isq = not m.is_response
                qu = any(q.cls & 0x8000 for q in m.questions)
            except wire.WireError:
                isq, qu = True, False
            self.ev('recv', did=did, q=isq, qu=qu, items=[])

    @staticmethod
    def _project(data: bytes) -> Optional[List[dict]]:
        """A response that was not scripted (the host's own announcements and answers, looped back by the link): its records in
        wire order, when all of them are identities of the vocabulary."""
        try:
            m = wire.parse(data)
        except wire.WireError:
            return None
        if not m.is_response:
            return None
        out = []
        for r in m.records():
            rd = r.rd
            if r.type == wire.T_NSEC:
                rd = (rd[0].text if hasattr(rd[0], 'text') else rd[0], list(rd[1]))
            elif r.type in (wire.T_PTR, wire.T_CNAME):
                rd = rd.text if hasattr(rd, 'text') else rd
            elif r.type == wire.T_SRV:
                rd = (rd[0], rd[1], rd[2], rd[3].text if hasattr(rd[3], 'text') else rd[3])
            i = KEY_TO_ID.get((low(r.name.text), r.type, r.cls & 0x7FFF, rdkey(r.type, rd)), 0)
            if not i:
                return None
            out.append({'id': i, 'ttl': r.ttl, 'fl': bool(r.cls & 0x8000)})
        return out

    @staticmethod
    def _has_qu(data: bytes) -> bool:
        try:
            return any(q.cls & 0x8000 for q in wire.parse(data).questions)
        except wire.WireError:
            return False

    def _on_recv_done(self, e: dict) -> None:
        self._in_recv = False
        excs = [x for x in self.net.log if x['ev'] == 'exc']
        n = len(excs)
        if n != self._exc_seen:
            new = excs[self._exc_seen:]
            self._exc_seen = n
            if any(x.get('cls') != 'HarnessFault' for x in new):     # (the harness's own fault is logged as 'uexc' where it is raised)
                self.ev('exc', what=[x for x in new if x.get('cls') != 'HarnessFault'][-1].get('cls'))
        self.ev('recv_done')

    def ev(self, _ev: str, **kw: Any) -> dict:
        e = {"ev": _ev, "t": self.net.now()}
        e.update(kw)
        self.events.append(e)
        return e

    # ------------------------------------------------------------ observation
    def view(self) -> List[List[int]]:
        cache = self.host.zc.cache
        out = []
        for i, p in self.probes.items():
            r = cache.get(p)
            if r is not None:
                out.append(triple(r))
        return sorted(out)

    def snapshot(self) -> dict:
        cache = self.host.zc.cache
        paths: Dict[str, Any] = {}
        by_name: List[List[int]] = []
        details: List[List[int]] = []
        one: List[List[int]] = []
        server: List[List[int]] = []
        uniq: List[List[int]] = []
        spell_mismatch = 0
        for n in NAMES:
            a = [triple(r) for r in cache.entries_with_name(n)]
            b = [triple(r) for r in cache.entries_with_name(up(n))]
            c = [triple(r) for r in cache.async_entries_with_name(low(n))]
            if sorted(a) != sorted(b) or sorted(a) != sorted(c):
                spell_mismatch += 1
            by_name += a
        for (nm, t, cls), rr in RR_ID.items():
            spelled = next(x for x in NAMES if low(x) == nm)
            a = [triple(r) for r in cache.get_all_by_details(spelled, t, cls)]
            b = [triple(r) for r in cache.async_all_by_details(up(spelled), t, cls)]
            if sorted(a) != sorted(b):
                spell_mismatch += 1
            details += a
            g = cache.get_by_details(swap(spelled), t, cls)
            one.append([rr] + (triple(g) if g is not None else [0, 0, 0]))
        for h in HOSTS:
            a = [triple(r) for r in cache.entries_with_server(h)]
            b = [triple(r) for r in cache.async_entries_with_server(swap(h))]
            if sorted(a) != sorted(b):
                spell_mismatch += 1
            server += [[NAME_ID[low(h)]] + x for x in a]
        for i, p in self.probes.items():
            r = cache.async_get_unique(p)
            if r is not None:
                uniq.append(triple(r))
        # (the cache's own keys are folded with str.lower(), which also folds letters outside ASCII)
        names = sorted(NAME_ID.get(low(n), 0) or NAME_ID_U.get(n, 0) for n in cache.names())
        paths = {'name': sorted(by_name), 'details': sorted(details), 'one': one, 'server': sorted(server),
                 'rec': self.view(), 'uniq': sorted(uniq), 'names': names, 'spell': spell_mismatch}
        return paths

    # ------------------------------------------------------------ listeners
    def make_listener(self, lid: int, script: Optional[dict]) -> Any:
        from zeroconf import RecordUpdateListener
        rec = self

        class L(RecordUpdateListener):
            def __init__(self) -> None:
                self.lid = lid
                self.calls = 0
                self.skip_done = False

            def async_update_records(self, zc: Any, now: float, records: list) -> None:
                if not records:
                    self.skip_done = True
                    return
                self.skip_done = False
                self.calls += 1
                pairs = []
                for ru in records:
                    o = ru.old
                    pairs.append({'n': record_id(ru.new), 'nttl': capttl(ru.new.ttl), 'nc': whole(ru.new.created),
                                  'o': record_id(o) if o is not None else 0,
                                  'oc': whole(o.created) if o is not None else 0,
                                  'ottl': capttl(o.ttl) if o is not None else 0})
                rec.ev('lcall', lid=lid, ph='upd', now=int(now), pairs=pairs, view=rec.view())
                # a faulty application: this listener raises -- only on a datagram that adds and removes nothing (every record a
                # refresh of a cached one), so that what the library has done by then is all there is to do
                safe = all(ru.old is not None and ru.new.ttl > 0 for ru in records) and not rec.in_purge()
                rec.run_script(script, self.calls, 'upd', safe)

            def async_update_records_complete(self) -> None:
                if self.skip_done:
                    self.skip_done = False
                    return
                rec.ev('lcall', lid=lid, ph='done', view=rec.view())
                rec.run_script(script, self.calls, 'done')
        return L()

    def in_purge(self) -> bool:
        return not self._in_recv

    def run_script(self, script: Optional[dict], ncall: int, ph: str, safe: bool = False) -> None:
        if not script:
            return
        for act in script.get(f'{ph}{ncall}', []):
            if act['op'] == 'raise':
                continue
            self.do_listener_action(act)
        if ph == 'upd' and self.in_purge() and script.get('raise_purge'):
            # ... or when the periodic purge reports the records it removed
            k = script.setdefault('_purge_calls', 0) + 1
            script['_purge_calls'] = k
            if k % script['raise_purge'] == 0:
                self.ev('uexc')
                raise simnet.HarnessFault('listener raises in the purge')
        if ph == 'upd' and not self.in_purge() and ((safe and script.get('raise_safe')) or script.get('raise_any')):
            k = script.setdefault('_raise_calls', 0) + 1
            script['_raise_calls'] = k
            if k % (script.get('raise_any') or script['raise_safe']) == 0:
                self.ev('uexc')
                raise simnet.HarnessFault('listener raises')

    def do_listener_action(self, act: dict) -> None:
        zc = self.host.zc
        if act['op'] == 'ladd':
            lid = act['lid']
            if lid in self.listeners:
                return
            l = self.make_listener(lid, act.get('script'))
            self.listeners[lid] = l
            self.ev('ladd', lid=lid)
            zc.async_add_listener(l, None)
        elif act['op'] == 'lrem':
            lid = act['lid']
            l = self.listeners.pop(lid, None)
            if l is None:
                g = self.gone.get(lid)
                if g is not None and act.get('again'):
                    # removing a listener that is not registered (any more) changes nothing and does not raise
                    try:
                        zc.async_remove_listener(g)
                        self.ev('lrem_again', lid=lid)
                    except Exception as ex:  # noqa: BLE001
                        self.ev('lexc', op='lrem_again', lid=lid, what=type(ex).__name__)
                return
            self.gone[lid] = l
            self.ev('lrem', lid=lid)
            try:
                zc.async_remove_listener(l)
            except Exception as ex:  # noqa: BLE001
                self.ev('lexc', op='lrem', lid=lid, what=type(ex).__name__)

    # ------------------------------------------------------------ browsers
    def start_browser(self, bid: int, types: List[str], oneshot: bool = False, sync: bool = False) -> None:
        from zeroconf import ServiceListener, ServiceStateChange
        from zeroconf.asyncio import AsyncServiceBrowser
        rec = self
        if sync:
            self.start_sync_browser(bid, types)
            return

        class BL(ServiceListener):
            def _cb(self, kind: str, type_: str, name: str) -> None:
                rec.ev('cb', bid=bid, kind=kind, ty=NAME_ID.get(low(type_), 0), tyexact=type_ in types,
                       alias=NAME_ID.get(low(name), 0), view=rec.view())

            def add_service(self, zc: Any, type_: str, name: str) -> None:
                self._cb('add', type_, name)

            def remove_service(self, zc: Any, type_: str, name: str) -> None:
                self._cb('rem', type_, name)

            def update_service(self, zc: Any, type_: str, name: str) -> None:
                self._cb('upd', type_, name)
        now = self.net.now()
        for t in types:
            for r in self.host.zc.cache.entries_with_name(t):
                if r.type == wire.T_PTR and r.is_expired(now):
                    return      # outside the property's domain (expired-but-unpurged pointer): do not start
        self.ev('bstart', bid=bid, types=[NAME_ID[low(t)] for t in types])
        if oneshot:
            # the handler form of the API: a helper that takes itself off the signal at its first event, listed before the
            # permanent handler (which is the one the contract watches)
            bl = BL()
            holder: Dict[str, Any] = {}

            def first_only(zeroconf: Any, service_type: str, name: str, state_change: Any) -> None:
                if 'b' in holder and not holder.get('gone'):       # (events fired from inside the constructor: not yet)
                    holder['gone'] = True
                    holder['b'].service_state_changed.unregister_handler(first_only)

            def permanent(zeroconf: Any, service_type: str, name: str, state_change: Any) -> None:
                bl._cb({ServiceStateChange.Added: 'add', ServiceStateChange.Removed: 'rem',
                        ServiceStateChange.Updated: 'upd'}[state_change], service_type, name)
            holder['b'] = self.browsers[bid] = AsyncServiceBrowser(self.host.zc, list(types), handlers=[first_only, permanent],
                                                                   delay=self.sc.get('delay', 10000))
        else:
            self.browsers[bid] = AsyncServiceBrowser(self.host.zc, list(types), listener=BL(), delay=self.sc.get('delay', 10000))
        self.ev('bstart_done', bid=bid)

    def start_sync_browser(self, bid: int, types: List[str]) -> None:
        """The thread-based ServiceBrowser of the synchronous API: events are handed to a dedicated thread through a queue.  The
        hand-over is made a rendezvous (the loop waits until the thread has fired what was queued), so that the callbacks fall into
        the virtual instant that caused them; queue, thread and firing code are the library's."""
        import time as _time
        from zeroconf import ServiceBrowser, ServiceListener
        rec = self
        cnt = {'put': 0, 'fired': 0}

        class BL(ServiceListener):
            def _cb(self, kind: str, type_: str, name: str) -> None:
                rec.ev('cb', bid=bid, kind=kind, ty=NAME_ID.get(low(type_), 0), tyexact=type_ in types,
                       alias=NAME_ID.get(low(name), 0), view=rec.view())
                cnt['fired'] += 1

            def add_service(self, zc: Any, type_: str, name: str) -> None:
                self._cb('add', type_, name)

            def remove_service(self, zc: Any, type_: str, name: str) -> None:
                self._cb('rem', type_, name)

            def update_service(self, zc: Any, type_: str, name: str) -> None:
                self._cb('upd', type_, name)
        now = self.net.now()
        for t in types:
            for r in self.host.zc.cache.entries_with_name(t):
                if r.type == wire.T_PTR and r.is_expired(now):
                    return
        self.ev('bstart', bid=bid, types=[NAME_ID[low(t)] for t in types])
        b = ServiceBrowser(self.host.zc, list(types), listener=BL(), delay=self.sc.get('delay', 10000))
        orig_complete = b.async_update_records_complete

        def complete() -> None:
            cnt['put'] += len(b._pending_handlers)
            orig_complete()
            t_end = _time.time() + 10
            while cnt['fired'] < cnt['put']:
                if _time.time() > t_end:
                    raise simnet.Runaway('the browser thread did not fire %d queued events within 10 s' % (cnt['put'] - cnt['fired']))
                _time.sleep(0.0002)
        b.async_update_records_complete = complete       # type: ignore[method-assign]
        self.browsers[bid] = b
        self.sync_browsers.add(bid)
        # _async_start is scheduled with call_soon_threadsafe: run it now (the replay of the cache to the new listener)
        self._pending_sync_start = True

    # ------------------------------------------------------------ main
    async def main(self) -> None:
        net = self.net
        self.host = await net.add_host('h', '10.0.0.1')
        self.t0 = net.now()
        self.ev('start', t0=self.t0)
        for st in self.sc['steps']:
            op = st['op']
            if op == 'at':
                await net.sleep_until(st['t'])
                continue
            if op == 'recv':
                data = build_datagram(st['items'], st.get('withq', 0))
                self.items_by_data[data] = st['items']
                self.host.inject(data, src=st.get('src', '10.0.0.9'))
            elif op in ('ladd', 'lrem'):
                self.do_listener_action(st)
            elif op == 'bstart':
                self.start_browser(st['bid'], st['types'], st.get('oneshot', False), st.get('sync', False))
                if st.get('sync') and st['bid'] in self.browsers:
                    # the start of a thread-based browser is scheduled on the loop (call_soon_threadsafe): let it run now
                    for _ in range(3):
                        await asyncio.sleep(0)
                    self.ev('bstart_done', bid=st['bid'])
            elif op == 'bcancel':
                b = self.browsers.pop(st['bid'], None)
                if b is not None:
                    self.ev('bcancel', bid=st['bid'])
                    if st['bid'] in self.sync_browsers:
                        await self.cancel_sync(b)
                    else:
                        await b.async_cancel()
            elif op == 'reg':
                # the host is a responder as well: it registers a service of a type it browses (its announcements, and its answers
                # to its own browsers' questions, come back from the link like anybody's)
                from zeroconf import ServiceInfo
                info = ServiceInfo(OWN['type'], OWN['name'], OWN['port'], properties=OWN['txt'], server=OWN['host'], addresses=[OWN['addr']],
                                   host_ttl=OWN['host_ttl'], other_ttl=OWN['other_ttl'])
                self.own_task = await self.host.aiozc.async_register_service(info, cooperating_responders=True)
                self.ev('reg')
                for _ in range(4):
                    await asyncio.sleep(0)          # the first announcement comes back from the link
            elif op == 'snap':
                pass
            else:
                raise ValueError(op)
            if st.get('snap', True):
                self.ev('snap', paths=self.snapshot())
        self.ev('end')
        for bid, b in list(self.browsers.items()):
            if bid in self.sync_browsers:
                await simnet.quiet(self.cancel_sync(b))
            else:
                await simnet.quiet(b.async_cancel())
        await simnet.quiet(self.host.aiozc.async_close())

    async def cancel_sync(self, b: Any) -> None:
        # ServiceBrowser.cancel() joins the thread and must not be called from the loop thread: do its three steps here
        b.queue.put(None)
        b._async_cancel()
        for _ in range(2):
            await asyncio.sleep(0)
        b.join(5)

    def run(self) -> dict:
        self.net.run(self.main(), limit_ms=self.sc.get('limit_ms', 48 * 3600 * 1000))
        excs = [e for e in self.net.log if e['ev'] == 'exc']
        if self.net.aborted:
            self.events = self.events[:400] + [{'ev': 'exc', 't': self.events[min(len(self.events), 400) - 1]['t'] if self.events else 0,
                                                'what': 'Runaway'}]
        return {'id': self.sc['id'], 't0': self.t0, 'events': self.events, 'excs': len(excs)}


# ------------------------------------------------------------------ scenario generation
TTL_GRID = [0, 0, 1, 2, 120, 120, 1124, 1125, 4500, 4500]
HUGE_TTLS = [2 ** 31 - 1, 2 ** 31, 2 ** 31 + 120, 2 ** 32 - 1]
STEP_GRID = [0, 1, 500, 999, 1000, 1001, 2000, 5000, 10000, 10000, 60000, 120000, 1125000, 4500000]


def gen_scenario(rng: random.Random, sid: str, n_dgrams: int, with_dups: bool = True, listeners: int = 1,
                 browsers: int = 0, lscripts: bool = False, thorough: bool = False, ptr_heavy: bool = False,
                 repeat_ids: bool = True) -> dict:
    steps: List[dict] = []
    t = 0
    # the sentinel listener (lid 1) is always there so that non-empty purges are visible
    steps.append({'op': 'ladd', 'lid': 1, 'snap': False})
    for lid in range(2, listeners + 1):
        script = None
        if lscripts is True and rng.random() < 0.7:
            script = {}
            k = rng.randint(1, 3)
            tgt = rng.randint(2, listeners + 1)
            script[f"{rng.choice(['upd', 'done'])}{k}"] = [{'op': rng.choice(['ladd', 'lrem']), 'lid': tgt}]
            if rng.random() < 0.3:
                script[f"{rng.choice(['upd', 'done'])}{k + 1}"] = [{'op': 'lrem', 'lid': lid}]
            if rng.random() < 0.3:
                # ... and somebody removes a listener again that has been removed already
                script[f"{rng.choice(['upd', 'done'])}{k + 2}"] = [{'op': 'lrem', 'lid': rng.choice([tgt, lid]), 'again': True}]
        if lscripts == 'purge':
            # (C05: only the fault in the purge -- the purges that follow it are what is judged)
            script = {'raise_purge': rng.choice([1, 1, 2])} if rng.random() < 0.6 else None
        elif lscripts and rng.random() < 0.25:
            script = dict(script or {})
            # a faulty listener: raises on every k-th call that is a pure refresh (raise_safe) or on every k-th call whatever the
            # datagram holds (raise_any: what that datagram adds or removes may then be lost -- both outcomes are accepted --
            # but nothing of it may leak into the datagrams that follow)
            script[rng.choice(['raise_safe', 'raise_any', 'raise_purge'])] = rng.choice([1, 2, 3])
        steps.append({'op': 'ladd', 'lid': lid, 'script': script, 'snap': False})
    ids = list(VOCAB)
    ptr_ids = [1, 2, 3]
    prev_items: Optional[List[dict]] = None
    live_b: List[int] = []
    registered = False
    next_bid = 1
    for k in range(n_dgrams):
        r = rng.random()
        if r < 0.55:
            dt = rng.choice(STEP_GRID)
        elif r < 0.8:
            dt = rng.randint(0, 3000)
        else:
            dt = rng.choice([10000 - (t % 10000), 10000 - (t % 10000) + 1, max(0, 10000 - (t % 10000) - 1)])
        if thorough and rng.random() < 0.05:
            dt = rng.randint(0, 6000000)
        t += dt
        steps.append({'op': 'at', 't': t})
        if browsers and not registered and rng.random() < 0.04:
            steps.append({'op': 'reg'})
            registered = True
        if browsers and (len(live_b) < browsers) and rng.random() < 0.25:
            types = [T1] if rng.random() < 0.6 else ([T2] if rng.random() < 0.5 else [T1, T2])
            bst = {'op': 'bstart', 'bid': next_bid, 'types': types, 'guard': True, 'oneshot': rng.random() < 0.3}
            # (not next to a service of the host's own: its start takes several iterations of the loop, and what the link brings back
            # meanwhile -- the host's own announcements and answers -- would fall into the middle of it)
            if not bst['oneshot'] and not registered and rng.random() < 0.25:
                bst['sync'] = True          # the thread-based ServiceBrowser of the synchronous API
            steps.append(bst)
            live_b.append(next_bid)
            next_bid += 1
        elif live_b and rng.random() < 0.04:
            steps.append({'op': 'bcancel', 'bid': live_b.pop(rng.randrange(len(live_b)))})
        if live_b and rng.random() < 0.1:
            # refresh probe: a pointer, and some time later one datagram that lists a new sibling before a refresh of it
            # (same or different TTL, any spelling)
            x, y = rng.choice([(1, 2), (2, 1)])
            steps.append({'op': 'recv', 'items': [{'id': x, 'ttl': rng.choice([120, 1125, 4500]), 'fl': False, 'sp': 0, 'rsp': rng.randint(0, 2)}]})
            t += rng.choice([0, 500, 9000, 11000, 20000, 60000])
            steps.append({'op': 'at', 't': t})
            steps.append({'op': 'recv', 'items': [{'id': y, 'ttl': rng.choice([120, 4500]), 'fl': False, 'sp': 0, 'rsp': rng.randint(0, 2)},
                                                  {'id': x, 'ttl': rng.choice([120, 1125, 4500]), 'fl': False, 'sp': 0, 'rsp': rng.randint(0, 2)}]})
            prev_items = None
            continue
        if rng.random() < 0.12:
            # flush-window probe: a record, then exactly 999 / 1000 / 1001 ms later a sibling of the same
            # (name, type, class) with the cache-flush bit
            x, y = rng.choice([(4, 5), (5, 4), (7, 8), (9, 10), (10, 9), (1, 2), (12, 19), (19, 12)])
            steps.append({'op': 'recv', 'items': [{'id': x, 'ttl': rng.choice([120, 4500]), 'fl': False, 'sp': 0, 'rsp': 0}]})
            t += rng.choice([999, 1000, 1001])
            steps.append({'op': 'at', 't': t})
            steps.append({'op': 'recv', 'items': [{'id': y, 'ttl': rng.choice([120, 4500]), 'fl': True, 'sp': 0, 'rsp': 0}]})
            prev_items = None
            continue
        if prev_items is not None and rng.random() < 0.12:
            items = [dict(x) for x in prev_items]      # byte-identical repeat (duplicate guard territory)
        else:
            n = rng.choice([1, 1, 2, 2, 3, 4])
            items = []
            for _ in range(n):
                if ptr_heavy and rng.random() < 0.6:
                    i = rng.choice(ptr_ids)
                else:
                    i = rng.choice(ids)
                ttl = rng.choice(TTL_GRID) if rng.random() < 0.85 else rng.randint(0, 70000)
                if rng.random() < 0.04:
                    ttl = rng.choice(HUGE_TTLS)
                items.append({'id': i, 'ttl': ttl, 'fl': rng.random() < 0.35, 'sp': rng.randint(0, 2),
                              'rsp': rng.randint(0, 2)})
            if with_dups and rng.random() < 0.2 and items:
                d = dict(rng.choice(items))
                if rng.random() < 0.6:
                    d['ttl'] = rng.choice(TTL_GRID)
                items.insert(rng.randint(0, len(items)), d)
            if not repeat_ids:
                seen_ids: set = set()
                items = [it for it in items if not (it['id'] in seen_ids or seen_ids.add(it['id']))]
            spell: Dict[int, Tuple[int, int]] = {}
            for it in items:       # one spelling per identity inside one datagram (C04 domain)
                sp = spell.setdefault(it['id'], (it['sp'], it['rsp']))
                it['sp'], it['rsp'] = sp
        steps.append({'op': 'recv', 'items': items, 'withq': rng.choice([0, 0, 0, 0, 1, 2])})
        prev_items = items
    t += rng.choice([0, 1000, 10000, 20000, 5000000])
    steps.append({'op': 'at', 't': t})
    steps.append({'op': 'snap'})
    return {'id': sid, 'steps': steps}


def in_c04_scope(sc: dict) -> bool:
    return True
