"""Bindings 1 and 2 for the responder's multicast answer queues (C12, C08): spec/Queue.tla is explored exhaustively by TLC
against the reply-timing and no-resurrection contract (the configuration without the withdrawal of queued answers, i.e.
defect D6, must fail), and its behaviours are replayed into the real responder: same queries, same jitter draws, same
unregistrations; the multicast answers of the real instance (instant, set of records) are compared with the model's.
A difference is model drift (evidence, MODEL-DRIFT line), not a violation; every replayed execution is validated against
Trace_Responder.tla like any other scenario."""
from __future__ import annotations

from typing import Any, Dict, List, Tuple

from props import respfam as rf
from props import schedmodel as sm
from vf import tlc, wire
from vf.core import Ctx, Machinery

REC_SID = {'r1': 0, 'r2': 1, 'r3': 2}
# three services of three types on three hosts: their PTR answers and additionals never overlap
SPECS = [rf.service_spec(0, 0, 0, 'v4'), rf.service_spec(1, 1, 1, 'other4'), dict(rf.service_spec(2, 0, 2, 'two4'), type='_ssh._tcp.local.',
                                                                                 name='Gamma Ray._ssh._tcp.local.')]


def _parse(out: str) -> List[Tuple[tuple, tuple]]:
    import re
    res = set()
    for m in re.finditer(r'<<\s*"BEHAVIOUR",', out):
        val = tlc._tla_to_py(' '.join(sm._balanced(out, m.start()).split()))
        if not isinstance(val, list) or len(val) != 3:
            raise Machinery('cannot parse BEHAVIOUR value: %r' % (val,))
        hist = tuple((h['k'], h['t'], tuple(sorted(h['recs'])), h['j1'], h['j2']) for h in val[1])
        slog = tuple((s['t'], tuple(sorted(s['recs']))) for s in val[2])
        res.add((hist, slog))
    return sorted(res)


def exhaustive_behaviours(cfg: str) -> List[Tuple[tuple, tuple]]:
    r = tlc.model_check('Queue', cfg, workers=1, coverage=False, timeout=1800)
    if not r['ok']:
        raise Machinery('Queue/%s: TLC reports %s' % (cfg, r['violated']))
    return _parse(r['out'])


def simulated_behaviours(cfg: str, num: int, seed: int) -> List[Tuple[tuple, tuple, int]]:
    res = set()
    for beh in tlc.simulate('Queue', cfg, num=num, depth=300, seed=seed, timeout=1800):
        if not beh:
            continue
        st = beh[-1]['state']
        if st.get('bad') not in ('', None):
            raise Machinery('Queue simulation reached bad=%r' % st.get('bad'))
        hist = tuple((h['k'], h['t'], tuple(sorted(h['recs'])), h['j1'], h['j2']) for h in (st.get('hist') or []))
        slog = tuple((s['t'], tuple(sorted(s['recs']))) for s in (st.get('slog') or []))
        res.add((hist, slog, st.get('now')))
    return sorted(res)


def to_scenario(sid: str, hist: tuple, nrec: int, end: int) -> dict:
    steps: List[dict] = [{'op': 'at', 't': 0}]
    for sp in SPECS[:nrec]:
        steps.append({'op': 'reg', 'svc': sp, 'coop': True})
    draws: Dict[str, int] = {}
    for n, (k, t, recs, j1, j2) in enumerate(hist):
        steps.append({'op': 'at', 't': t})
        if k == 'q':
            qs = [{'name': SPECS[REC_SID[r]]['type'], 'type': wire.T_PTR, 'sp': 0, 'qu': False} for r in recs]
            steps.append({'op': 'query', 'qs': qs, 'qid': 1000 + n, 'src': '10.0.0.9'})
            # async_add is called for the ordinary queue first, then for the protected one
            vals = [j for j in (j1, j2) if j]
            for o, v in enumerate(vals):
                draws['%d:%d' % (t, o)] = v
        else:
            steps.append({'op': 'unreg', 'sid': REC_SID[recs[0]]})
    steps.append({'op': 'at', 't': end})
    return {'id': sid, 'seed': 1, 'steps': steps, 'layout': 'single', 'rand': {'resp': draws, '*': 'lo'}, 'model': True}


def check_models(ctx: Ctx) -> Dict[str, Any]:
    r = tlc.model_check('Queue', 'MC_Queue_big' if ctx.thorough else 'MC_Queue', workers=16, timeout=2400)
    if not r['ok']:
        raise Machinery('Queue model: TLC reports %s violated' % r['violated'])
    d = tlc.model_check('Queue', 'MC_Queue_defect', workers=16, timeout=900, coverage=False)
    if d['ok'] or 'NoResurrection' not in d['out']:
        raise Machinery('Queue/MC_Queue_defect must reach bad = "NoResurrection" (re-creation of D6)')
    # the strict reading of the one-second rule (every multicast of the record counts as a sighting, also one whose loopback
    # the duplicate guard dropped) does not hold in the design: TLC finds the schedule of finding D17
    s = tlc.model_check('Queue', 'MC_Queue_strict', workers=16, timeout=900, coverage=False)
    if s['ok'] or 'bad = "Strict"' not in s['out']:
        raise Machinery('Queue/MC_Queue_strict is expected to reach bad = "Strict" (design-level schedule of finding D17)')
    never = sorted(a for a in ('Ready', 'Query', 'Unregister', 'Goodbye', 'Tick') if r['actions'].get(a, 0) == 0)
    if never:
        raise Machinery('Queue model: actions never taken: %s' % never)
    return {'model': 'Queue', 'model_states': r['states'], 'model_distinct': r['distinct'], 'model_depth': r['depth'],
            'model_actions': r['actions'], 'defect_config_violates': 'NoResurrection',
            'strict_sighting_config_violates': 'Strict (finding D17 reproduced in the model)'}


def model_scenarios(ctx: Ctx, tag: str) -> Tuple[List[dict], Dict[str, Any]]:
    predicted: Dict[str, Any] = {}
    scs: List[dict] = []
    by_hist: Dict[tuple, List[tuple]] = {}
    for hist, slog in exhaustive_behaviours('MC_Queue_replay_big' if ctx.thorough else 'MC_Queue_replay'):
        by_hist.setdefault(hist, []).append(slog)
    for k, (hist, slogs) in enumerate(sorted(by_hist.items())):
        sid = '%s-model-x%d' % (tag, k)
        scs.append(to_scenario(sid, hist, 2, 6000))
        predicted[sid] = {'slogs': [list(map(list, s)) for s in slogs], 'upto': 6000}
    by_hist2: Dict[tuple, List[tuple]] = {}
    for hist, slog, now in simulated_behaviours('Sim_Queue', ctx.pick(150, 2500), ctx.seed + 12):
        by_hist2.setdefault(hist, []).append((slog, now))
    for k, (hist, lst) in enumerate(sorted(by_hist2.items())):
        sid = '%s-model-s%d' % (tag, k)
        upto = min(now for _, now in lst)
        scs.append(to_scenario(sid, hist, 3, min(8000, upto + 1)))
        predicted[sid] = {'slogs': [[list(x) for x in sl if x[0] < upto] for sl, _ in lst], 'upto': upto}
    return scs, predicted


def drift(traces: List[dict], predicted: Dict[str, Any]) -> List[dict]:
    out = []
    for tr in traces:
        p = predicted.get(tr['id'])
        if p is None:
            continue
        ptr_sid = {e['svc']['ptr']: e['svc']['sid'] for e in tr['events'] if e['ev'] == 'api' and e.get('op') == 'reg'}
        real = []
        for e in tr['events']:
            if e['ev'] == 'send' and e.get('mc') and e.get('resp') and not e.get('bad') and 1000 <= e['t'] < p['upto']:
                recs = sorted('r%d' % (ptr_sid[a[0]] + 1) for a in e['an'] if a[0] in ptr_sid and a[1] > 0)
                if recs:
                    real.append([e['t'], recs])
        want = [[[t, list(r)] for t, r in sl if t < p['upto']] for sl in p['slogs']]
        if real not in want:
            out.append({'scenario': tr['id'], 'real': real[:8], 'model': want[0][:8]})
    return out
