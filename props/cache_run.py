"""Shared runner of the cache family checks (C04, C05, C06)."""
from __future__ import annotations

import json
import multiprocessing as mp
import random
from concurrent.futures import ThreadPoolExecutor
from typing import Any, Dict, List, Tuple

from vf import tlc
from vf.core import Ctx, Machinery


def record_all(scenarios: List[dict], procs: int) -> List[dict]:
    from props import trace_run
    return trace_run.record_all('props.cachefam', 'Recorder', scenarios, procs)


def validate(traces: List[dict], own: str, batch: int = 400, par: int = 4) -> Tuple[List[list], int, int]:
    from props import cachefam as cf
    vocab = cf.vocab_json()
    batches = [traces[i:i + batch] for i in range(0, len(traces), batch)]

    def one(b: List[dict]) -> dict:
        return tlc.run_oracle('Trace_Cache', 'Trace_Cache', {'vocab': vocab, 'own': own, 'traces': b}, 'cache')
    with ThreadPoolExecutor(max_workers=par) as ex:
        results = list(ex.map(one, batches))
    verdicts: List[list] = []
    states = trans = 0
    for r in results:
        verdicts += r['verdicts']
        states += r.get('distinct', 0)
        trans += r.get('states', 0)
    if len(verdicts) != len(traces):
        raise Machinery('TLC returned %d verdicts for %d traces' % (len(verdicts), len(traces)))
    return verdicts, states, trans


def has_repeated_identity(tr: dict, upto: int) -> bool:
    for e in tr['events'][:upto]:
        if e['ev'] == 'recv':
            ids = [it['id'] for it in e['items']]
            if len(ids) != len(set(ids)):
                return True
    return False


def model_check_cache(ctx: Ctx) -> None:
    """Exhaustive: CacheImpl (dict key/value objects, one-pass ingestion, purge timer) refines Cache."""
    cfg = 'MC_CacheImpl' if ctx.thorough else 'MC_CacheImpl_quick'
    r = tlc.model_check('MC_CacheImpl', cfg, timeout=1500)
    if not r['ok']:
        raise Machinery('implementation model violates the contract (%s); the model or the contract is wrong, '
                        'or the design changed:\n%s' % (r.get('violated'), r['out'][-3000:]))
    for act in ('Receive', 'Purge', 'Tick'):
        if r['actions'].get(act, 0) == 0:
            raise Machinery('vacuous model run: action %s never taken' % act)
    # non-vacuity of the refinement invariant: the pre-repair design (Fixed = FALSE) must violate it
    d = tlc.model_check('MC_CacheImpl', 'MC_CacheImpl_defect', timeout=600)
    if d.get('violated') != 'Refines':
        raise Machinery('control run: the unrepaired _async_add model no longer violates Refines')
    # the browser on top of the cache: two pointers of one type; a purge that does not tell the listeners must break LiveMatches
    b = tlc.model_check('MC_CacheImpl', 'MC_CacheImpl_browser', timeout=1500, coverage=False)
    if not b['ok']:
        raise Machinery('CacheImpl with browser violates %s' % b.get('violated'))
    pd = tlc.model_check('MC_CacheImpl', 'MC_CacheImpl_purge_defect', timeout=600, coverage=False)
    if pd.get('violated') != 'LiveMatches':
        raise Machinery('control run: a purge that does not notify no longer violates LiveMatches')
    ctx.coverage['states'] = r['distinct']
    ctx.coverage['transitions'] = r['states']
    ctx.coverage['mc'] = {'model': 'CacheImpl refines Cache', 'config': cfg, 'distinct_states': r['distinct'],
                          'states_generated': r['states'], 'depth': r['depth'], 'actions': r['actions'],
                          'control_defect_config_violates': d.get('violated')}
    ctx.log('TLC %s: %d distinct states, depth %s, %.0fs; defect control violates %s' % (
        cfg, r['distinct'], r['depth'], r['wall_s'], d.get('violated')))


def run_family(ctx: Ctx, own: str, scenarios: List[dict], extra_cov: Dict[str, Any]) -> List[dict]:
    procs = 16 if ctx.thorough else 8
    traces = record_all(scenarios, procs)
    by_id = {t['id']: t for t in traces}
    sc_by_id = {s['id']: s for s in scenarios}
    ctx.log('recorded %d traces, %d events' % (len(traces), sum(len(t['events']) for t in traces)))
    verdicts, states, trans = validate(traces, own, par=4 if ctx.thorough else 2)
    accepted = foreign = own_rej = 0
    clause_counts: Dict[str, int] = {}
    for v in verdicts:
        _, tid, ok, clause, pos = v[:5]
        if ok:
            accepted += 1
            continue
        clause_counts[clause] = clause_counts.get(clause, 0) + 1
        if clause.startswith('Trace_'):
            raise Machinery('malformed trace %s at event %s' % (tid, pos))
        tr = by_id[tid]
        if not clause.startswith(own + '_'):
            foreign += 1
            continue
        own_rej += 1
        disc = 'repeated-identity-in-datagram' if has_repeated_identity(tr, pos) else 'plain'
        ev = tr['events'][pos - 1] if 0 < pos <= len(tr['events']) else None
        what = '%s rejected event #%d of scenario %s: %s' % (clause, pos, tid, json.dumps(ev)[:300])
        ctx.report(f'{clause}/{disc}', what, {'scenario': sc_by_id[tid], 'rejected_event_index': pos, 'clause': clause,
                                              'trace_tail': tr['events'][max(0, pos - 6):pos]})
    nontrivial = 0
    seen = set()
    for t in traces:
        n_apply = sum(1 for e in t['events'] if e['ev'] == 'lcall' and e['ph'] == 'upd')
        h = hash(json.dumps([(e['ev'], e.get('items'), e['t']) for e in t['events'] if e['ev'] in ('recv', 'cb')]))
        if n_apply >= 1 and h not in seen:
            seen.add(h)
            nontrivial += 1
    ev_counts: Dict[str, int] = {}
    for t in traces:
        for e in t['events']:
            k = e['ev'] + (':' + e['ph'] if e['ev'] == 'lcall' else '') + (':' + e['kind'] if e['ev'] == 'cb' else '')
            ev_counts[k] = ev_counts.get(k, 0) + 1
    cov = ctx.coverage
    cov['traces_validated_against_impl'] = len(traces)
    cov['trace_states'] = states
    cov['trace_transitions'] = trans
    cov.setdefault('states', 0)
    cov.setdefault('transitions', 0)
    cov['states'] += states
    cov['transitions'] += trans
    cov['evaluations'] = len(traces)
    cov['distinct_nontrivial'] = nontrivial
    cov['rule'] = ('seeded random histories of response datagrams over a 17-identity vocabulary (PTR, SRV, TXT, A, AAAA, NSEC, HINFO, CNAME; TTLs up to 2^32-1) driven through '
                   'AsyncListener.datagram_received of a real instance in virtual time; non-trivial = distinct '
                   '(by datagram/callback sequence) histories in which at least one datagram changed the cache')
    cov['accepted'] = accepted
    cov['rejected_own_clauses'] = own_rej
    cov['rejected_foreign_clauses'] = foreign
    cov['rejections_by_clause'] = clause_counts
    cov['event_counts'] = ev_counts
    cov['samples'] = [{'scenario': scenarios[0]['id'], 'steps': scenarios[0]['steps'][:8]},
                      {'trace_head': traces[-1]['events'][:6]}]
    cov.update(extra_cov)
    ctx.assumptions += [
        'the virtual-time simulator replaces only clock, sockets and random source (vf/simnet.py)',
        'projection of library records to vocabulary identities by props/cachefam.py:record_id',
        'a sentinel listener makes every non-empty purge observable; empty purges are stuttering steps',
    ]
    return traces
