"""Lookup family harness (C18 and the lookup part of C13): AsyncServiceInfo.async_request against a cache
that the harness pre-populates and feeds while the lookup is waiting."""
from __future__ import annotations

import asyncio
import random
import socket
from typing import Any, Dict, List, Optional, Tuple

from vf import simnet, wire

TYPE = '_http._tcp.local.'
INST = 'Printer One._http._tcp.local.'
H1 = 'host-one.local.'
H2 = 'Host-Two.local.'

# id -> (name, type, rd, kind, host index (0 = n/a))
VOCAB: Dict[int, tuple] = {
    1: (INST, wire.T_SRV, (0, 0, 80, H1), 'srv', 1),
    2: (INST, wire.T_SRV, (5, 7, 8080, H2), 'srv', 2),
    3: (INST, wire.T_TXT, b'\x03a=1', 'txt', 0),
    4: (INST, wire.T_TXT, b'\x03a=2\x01k', 'txt', 0),
    5: (H1, wire.T_A, b'\x0a\x00\x00\x01', 'a', 1),
    6: (H1, wire.T_A, b'\x0a\x00\x00\x02', 'a', 1),
    7: (H1, wire.T_AAAA, b'\xfe\x80' + b'\0' * 13 + b'\x01', 'aaaa', 1),
    8: (H2, wire.T_A, b'\x0a\x00\x00\x09', 'a', 2),
    # records that have nothing to say about the service although they share a name with something that does: an address record
    # owned by the instance name, TXT and SRV records owned by a host name
    9: (INST, wire.T_A, b'\x0a\x09\x09\x09', 'decoy', 0),
    10: (H1, wire.T_TXT, b'\x03a=9', 'decoy', 0),
    11: (H1, wire.T_SRV, (0, 0, 99, H2), 'decoy', 0),
    12: (H2, wire.T_TXT, b'\x03a=8', 'decoy', 0),
}
QIDX = {wire.T_SRV: 1, wire.T_TXT: 2, wire.T_A: 3, wire.T_AAAA: 4}


def low(s: str) -> str:
    return ''.join(chr(ord(c) + 32) if 'A' <= c <= 'Z' else c for c in s)


KEY = {(low(v[0]), v[1], wire.rd_key(v[1], v[2])): i for i, v in VOCAB.items()}
RR: Dict[tuple, int] = {}
for _i, _v in VOCAB.items():
    RR.setdefault((low(_v[0]), _v[1]), len(RR) + 1)


def vocab_json() -> List[dict]:
    # dq: the question (3 = A, 4 = AAAA on the instance name, asked while the host is unknown) a decoy record is a known answer of
    return [{'id': i, 'kind': v[3], 'host': v[4], 'rr': RR[(low(v[0]), v[1])],
             'dq': (3 if v[1] == wire.T_A else 4) if v[3] == 'decoy' and v[0] == INST and v[1] in (wire.T_A, wire.T_AAAA) else 0}
            for i, v in sorted(VOCAB.items())]


def recase(s: str, k: int) -> str:
    return s if k % 3 == 0 else (s.upper() if k % 3 == 1 else s.swapcase())


def build(items: List[dict]) -> bytes:
    ans = []
    for it in items:
        name, t, rd, kind, _ = VOCAB[it['id']]
        if t == wire.T_SRV:
            rd = (rd[0], rd[1], rd[2], recase(rd[3], it.get('sp', 0)))
        ans.append((recase(name, it.get('sp', 0)), t, 1 | (0x8000 if it.get('fl') else 0), it['ttl'], rd))
    return wire.build(flags=0x8400, answers=ans)


class Recorder:
    def __init__(self, sc: dict) -> None:
        self.sc = sc
        self.net = simnet.Net(seed=sc.get('seed', 0), rand=sc.get('rand'), record_bytes=False)
        self.events: List[dict] = []
        self._keys: List[tuple] = []
        self.did: Dict[bytes, int] = {}
        self.items_by: Dict[bytes, List[dict]] = {}
        self.host: Any = None
        self.net.on_recv_hook = self._on_recv
        self.net.on_send_hook = self._on_send
        self.tasks: List[Any] = []
        self.last_info: Any = None

    def ev(self, _ev: str, **kw: Any) -> dict:
        e = {'ev': _ev, 't': self.net.now()}
        e.update({k: v for k, v in kw.items() if v is not None})
        self._keys.append((self.net._seq, 1, len(self.events)))
        self.events.append(e)
        return e

    def _on_recv(self, e: dict, data: bytes) -> None:
        did = self.did.setdefault(data, len(self.did) + 1)
        items = self.items_by.get(data)
        if items is not None:
            self.ev('recv', did=did, q=False, qu=False, items=[{'id': it['id'], 'ttl': it['ttl'], 'fl': bool(it.get('fl'))} for it in items])
        else:
            try:
                m = wire.parse(data)
                qu = any(q.cls & 0x8000 for q in m.questions)
                isq = not m.is_response
            except wire.WireError:
                isq, qu = True, False
            self.ev('recv', did=did, q=isq, qu=qu, items=[])

    def _on_send(self, e: dict, data: bytes) -> None:
        try:
            m = wire.parse(data)
        except wire.WireError as ex:
            self.ev('badsend', err=str(ex))
            return
        if m.is_response:
            self.ev('badsend', err='response sent by a host without services')
            return
        qs = []
        for q in m.questions:
            nm = low(q.name.text)
            who = 'inst' if nm == low(INST) else ('h1' if nm == low(H1) else ('h2' if nm == low(H2) else 'other'))
            qs.append({'q': QIDX.get(q.type, 0), 'qu': bool(q.cls & 0x8000), 'who': who, 'cls': q.cls & 0x7FFF})
        ka = []
        for r in m.answers:
            i = KEY.get((low(r.name.text), r.type, wire.rd_key(r.type, r.rd)), 0)
            ka.append([i, r.ttl if r.ttl is not None and r.ttl < 2 ** 31 else -1])
        try:
            task = asyncio.current_task()
        except RuntimeError:
            task = None
        if task is not None and task.get_name() == 'bg-lookup':
            # another lookup for the same instance running on this host (not judged itself): what it asks enters the
            # question history the judged lookup is suppressed by
            self.ev('bgquery', qs=qs, ka=[k[0] for k in ka])
            return
        self.ev('query', qs=qs, ka=ka, tc=m.tc, mc=e['dst'] in (simnet.MDNS_ADDR, simnet.MDNS_ADDR6), nauth=len(m.authorities),
                nadd=len(m.additionals), flags=m.flags)

    async def lookup(self, st: dict, lid: int) -> None:
        from zeroconf import DNSQuestionType
        from zeroconf.asyncio import AsyncServiceInfo
        forced = st.get('forced', 'none')
        qt = {'none': None, 'QU': DNSQuestionType.QU, 'QM': DNSQuestionType.QM}[forced]
        reuse = bool(st.get('reuse')) and self.last_info is not None
        info = self.last_info if reuse else AsyncServiceInfo(TYPE, recase(INST, st.get('sp', 0)))
        self.last_info = info
        self.ev('lookup', lid=lid, timeout=st['timeout'], forced=forced, reuse=reuse)
        via = st.get('via', 'info') if not reuse else 'info'
        nofields = False
        try:
            if via == 'info':
                ok = await info.async_request(self.host.zc, st['timeout'], qt)
            else:
                # the convenience entry points (same lookup behind them): they hand back the info object, or None
                api = self.host.aiozc if via == 'aiozc' else self.host.zc
                got = await api.async_get_service_info(TYPE, recase(INST, st.get('sp', 0)), st['timeout'], qt)
                ok = got is not None
                nofields = got is None            # a failed lookup hands back None: there is no object to read fields from
                self.last_info = got
                if got is not None:
                    info = got
        except Exception as ex:  # noqa: BLE001
            self.ev('ret', lid=lid, ok=False, exc=type(ex).__name__, server=0, port=0, prio=0, weight=0, text=0, addrs=[], nofields=True)
            return
        srv = low(info.server) if info.server else ''
        server = 1 if srv == low(H1) else (2 if srv == low(H2) else (3 if srv else 0))
        text = 0
        for i, v in VOCAB.items():
            if v[3] == 'txt' and info.text == v[2]:
                text = i
        if info.text not in (b'', None) and text == 0:
            text = -1
        # what the object says about its TXT in its other forms agrees with the TXT it reports (read on every return, so that a
        # second lookup with the same object meets whatever the first one left memoised)
        try:
            fresh = AsyncServiceInfo(TYPE, INST, 0, properties=info.text or b'')
            if dict(info.properties) != dict(fresh.properties) or dict(info.decoded_properties) != dict(fresh.decoded_properties):
                text = -2
        except Exception:  # noqa: BLE001
            text = -2
        addrs = []
        for a in info.addresses_by_version(__import__('zeroconf').IPVersion.All):
            hit = [i for i, v in VOCAB.items() if v[3] in ('a', 'aaaa') and v[2] == a]
            addrs.append(hit[0] if hit else -1)
        self.ev('ret', lid=lid, ok=bool(ok), server=server, port=info.port or 0, prio=info.priority or 0, weight=info.weight or 0,
                text=text, addrs=sorted(addrs), nofields=nofields)

    async def main(self) -> None:
        net = self.net
        self.host = await net.add_host('h', '10.0.0.1')
        self.ev('start')
        lid = 0
        for st in self.sc['steps']:
            op = st['op']
            if op == 'at':
                await net.sleep_until(st['t'])
            elif op == 'recv':
                data = build(st['items'])
                self.items_by[data] = st['items']
                self.host.inject(data, src=st.get('src', '10.0.0.9'))
            elif op == 'rawrecv':
                self.host.inject(bytes.fromhex(st['data']), src=st.get('src', '10.0.0.9'))
            elif op == 'lookup':
                if st.get('bg'):
                    from zeroconf.asyncio import AsyncServiceInfo
                    bg = asyncio.ensure_future(AsyncServiceInfo(TYPE, INST).async_request(self.host.zc, st['timeout']))
                    bg.set_name('bg-lookup')
                    self.tasks.append(bg)
                else:
                    lid += 1
                    self.tasks.append(asyncio.ensure_future(self.lookup(st, lid)))
                await asyncio.sleep(0)
            else:
                raise ValueError(op)
        for t in self.tasks:
            if not t.done():
                await t
        self.ev('end')
        self.stopped = True
        await simnet.quiet(self.host.aiozc.async_close())

    def run(self) -> dict:
        self.net.run(self.main(), limit_ms=48 * 3600 * 1000)
        extra = []
        last_t = self.events[-1]['t'] if self.events else 0
        for e in self.net.log:
            if e['ev'] == 'rand' and e['site'] == 'lookup' and e.get('task') != 'bg-lookup':
                extra.append(((e['seq'], 0, 0), {'ev': 'rand', 't': e['t'], 'site': 'lookup', 'v': e['v']}))
            elif e['ev'] == 'exc' and e['t'] <= last_t:
                extra.append(((e['seq'], 0, 0), {'ev': 'exc', 't': e['t'], 'what': str(e.get('cls')), 'msg': str(e.get('msg'))}))
        keyed = list(zip(self._keys, self.events)) + extra
        keyed.sort(key=lambda p: p[0])
        merged = [dict(e) for _, e in keyed]
        # events after 'end' (shutdown of the harness) are not part of the trace
        cut = next((k for k, e in enumerate(merged) if e['ev'] == 'end'), len(merged) - 1)
        merged = merged[:cut + 1]
        if self.net.aborted:
            merged = merged[:400] + [{'ev': 'exc', 't': merged[min(len(merged), 400) - 1]['t'] if merged else 0, 'what': 'Runaway'}]
        return {'id': self.sc['id'], 'events': merged}


# ------------------------------------------------------------------------------ generation
def gen_hostile(rng: random.Random, sid: str) -> dict:
    """A lookup that is told, while it waits, that the service lives on a host whose name cannot be written back: a label that is
    not UTF-8 (n octets on the wire, 3 n when decoded with replacement characters and encoded again).  It cannot ask for that
    host's addresses; it still returns, unsuccessful, at its timeout."""
    t0 = rng.choice([1000, 5000])
    timeout = rng.choice([500, 3000, 3000])
    n = rng.choice([22, 30, 63])
    tgt = bytes([n]) + bytes([rng.choice([0xff, 0xfe, 0xc0])]) * n + b'\x05local\x00'
    rd = bytes([0, 0, 0, 0, 0, 80]) + tgt
    rec = wire.enc_name(INST) + bytes([0, 33, 0x80, 1]) + (120).to_bytes(4, 'big') + len(rd).to_bytes(2, 'big') + rd
    data = bytes([0, 0, 0x84, 0, 0, 0, 0, 1, 0, 0, 0, 0]) + rec
    steps: List[dict] = [{'op': 'at', 't': 0}]
    # (the record arrives while the lookup waits: what a lookup asks that *starts* from such a record in the cache is not judged --
    # the contract's vocabulary has no identity for it)
    steps += [{'op': 'at', 't': t0}, {'op': 'lookup', 'timeout': timeout, 'forced': rng.choice(['none', 'QU', 'QM']), 'sp': 0},
              {'op': 'at', 't': t0 + rng.choice([1, 100, 250])}, {'op': 'rawrecv', 'data': data.hex()}]
    if rng.random() < 0.5:
        steps += [{'op': 'at', 't': t0 + 300}, {'op': 'recv', 'items': [{'id': 3, 'ttl': 4500, 'sp': 0}]}]
    steps.append({'op': 'at', 't': t0 + timeout + 2000})
    return {'id': sid, 'seed': rng.randint(0, 10 ** 9), 'steps': steps, 'rand': None}


def gen_lookup(rng: random.Random, sid: str, thorough: bool = False) -> dict:
    srv = rng.choice([1, 1, 2])
    host = VOCAB[srv][4]
    txt = rng.choice([3, 4])
    addr_ids = [5, 6, 7] if host == 1 else [8]
    other_addr = 8 if host == 1 else 5
    t0 = rng.choice([20000, 50000, 123456])
    timeout = rng.choice([200, 3000, 3000, 10000])
    evs: List[Tuple[int, dict]] = []

    def pre(i: int) -> None:
        """put record i into the cache before the lookup in a chosen condition"""
        state = rng.choice(['fresh', 'fresh', 'stale', 'expired', 'absent', 'absent'])
        if state == 'absent':
            return
        ttl = rng.choice([120, 4500, 60])
        if state == 'fresh':
            age = rng.randint(0, 500 * ttl - 1)
        elif state == 'stale':
            age = rng.choice([500 * ttl, 500 * ttl + 1, rng.randint(500 * ttl, 1000 * ttl - 1)])
        else:
            # expired but not purged yet: expiry after the last 10 s purge boundary before t0
            last_purge = (t0 // 10000) * 10000
            exp = rng.randint(last_purge + 1, t0) if last_purge + 1 <= t0 else t0
            age = 1000 * ttl + (t0 - exp)
        c = t0 - age
        if c < 0:
            return
        evs.append((c, {'op': 'recv', 'items': [{'id': i, 'ttl': ttl, 'sp': rng.randint(0, 2)}]}))
    if rng.random() < 0.08:
        # the service was retargeted to the other host and back shortly before the lookup (cache-flush bits set): the cache holds
        # the live SRV and, added after it, the other one, expired a second ago and not purged yet
        t0 = 123456
        other = 2 if srv == 1 else 1
        evs.append((t0 - 7000, {'op': 'recv', 'items': [{'id': srv, 'ttl': 120, 'fl': True, 'sp': 0}]}))
        evs.append((t0 - 5000, {'op': 'recv', 'items': [{'id': other, 'ttl': 120, 'fl': True, 'sp': 0}]}))
        evs.append((t0 - rng.choice([2000, 1500, 1001]), {'op': 'recv', 'items': [{'id': srv, 'ttl': 120, 'fl': True, 'sp': rng.randint(0, 2)}]}))
        for i in [txt] + addr_ids:
            pre(i)
    else:
        for i in [srv, txt] + addr_ids + ([other_addr] if rng.random() < 0.4 else []) + (rng.sample([9, 10, 11, 12], 2) if rng.random() < 0.15 else []):
            pre(i)
    if rng.random() < 0.1:
        # another lookup for the same instance is already under way on this host
        evs.append((t0 - rng.choice([300, 600, 1100, 2100]), {'op': 'lookup', 'bg': True, 'timeout': 3000}))
    evs.append((t0, {'op': 'lookup', 'timeout': timeout, 'forced': rng.choice(['none', 'none', 'none', 'QU', 'QM']),
                     'sp': rng.randint(0, 2), 'via': rng.choice(['info', 'info', 'aiozc', 'zc'])}))
    # records arriving while the lookup waits
    offs = [0, 1, 199, 200, 221, 320, 500, 1000, 1300, timeout - 1, timeout, timeout + 1, timeout + 500]
    for _ in range(rng.choice([0, 1, 2, 3, 4])):
        off = rng.choice(offs)
        ids = rng.sample([srv, txt] + addr_ids + [other_addr], rng.choice([1, 1, 2, 3]))
        if rng.random() < 0.2:
            ids += rng.sample([9, 10, 11, 12], rng.choice([1, 2]))
        ids.sort(key=lambda i: rng.random())
        items = [{'id': i, 'ttl': rng.choice([120, 4500, 0, 1]), 'fl': rng.random() < 0.5, 'sp': rng.randint(0, 2)} for i in ids]
        evs.append((t0 + max(0, off), {'op': 'recv', 'items': items}))
    evs.sort(key=lambda p: (p[0], 0 if p[1]['op'] == 'recv' and p[0] < t0 else (1 if p[1]['op'] == 'lookup' else 2)))
    steps: List[dict] = []
    for (tt, st) in evs:
        steps += [{'op': 'at', 't': tt}, st]
    end = max([t0 + timeout] + [p[0] for p in evs]) + 2000
    steps.append({'op': 'at', 't': end})
    if rng.random() < 0.3:
        # the application looks the service up again with the same object: meanwhile the SRV may have been retargeted to the
        # other host (cache-flush bit set, so the old one runs out after a second), addresses may have arrived or not
        other_srv = 2 if srv == 1 else 1
        other_host_addrs = [8] if other_srv == 2 else [5, 6, 7]
        t1 = end
        mid: List[Tuple[int, dict]] = []
        r = rng.random()
        if r < 0.4:
            mid.append((t1 + 100, {'op': 'recv', 'items': [{'id': other_srv, 'ttl': 120, 'fl': True, 'sp': 0}]}))
            if rng.random() < 0.4:
                mid.append((t1 + 300, {'op': 'recv', 'items': [{'id': rng.choice(other_host_addrs), 'ttl': 120, 'sp': 0}]}))
        elif r < 0.8:
            ids2 = rng.sample([srv, txt] + addr_ids, rng.choice([1, 2, 3]))
            mid.append((t1 + 100, {'op': 'recv', 'items': [{'id': i, 'ttl': rng.choice([120, 4500]), 'sp': 0} for i in ids2]}))
        for (tt, st) in mid:
            steps += [{'op': 'at', 't': tt}, st]
        t2 = t1 + rng.choice([1500, 2600, 12000])
        timeout2 = rng.choice([200, 3000])
        steps += [{'op': 'at', 't': t2}, {'op': 'lookup', 'timeout': timeout2, 'forced': 'none', 'sp': 0, 'reuse': True}]
        if rng.random() < 0.5:
            steps += [{'op': 'at', 't': t2 + rng.choice([100, 500, 1300])},
                      {'op': 'recv', 'items': [{'id': i, 'ttl': 120, 'sp': 0} for i in rng.sample(addr_ids + other_host_addrs, 2)]}]
        steps.append({'op': 'at', 't': t2 + timeout2 + 2000})
    return {'id': sid, 'seed': rng.randint(0, 10 ** 9), 'steps': steps, 'rand': rng.choice([None, None, 'lo', 'hi'])}
