"""C15 -- a running instance survives any datagram stream (fuzz streams + canaries, judged by Trace_Responder.tla)."""
from __future__ import annotations

import random
from typing import Any, Dict, List

from props import respfam as rf
from props import trace_run
from vf import wire
from vf.core import Ctx

REMOTE_T = '_http._tcp.local.'
CANARY = 'Canary._http._tcp.local.'


def invalid_utf8_query(rng: random.Random) -> bytes:
    """A (legacy unicast) query whose first question name holds a label of invalid UTF-8 octets next to a valid question."""
    n = rng.choice([1, 10, 21, 22, 30, 63])
    lab = bytes([n]) + bytes(rng.choice([0xFF, 0xC0, 0xE2, 0x80]) for _ in range(n))
    q1 = lab + wire.enc_name('local.') + bytes([0, 12, 0, 1])
    q2 = wire.enc_name(REMOTE_T) + bytes([0, 12, 0, 1])
    return bytes([0x12, 0x34, 0, 0, 0, 2, 0, 0, 0, 0, 0, 0]) + q1 + q2


def invalid_utf8_response(rng: random.Random, type_: str) -> bytes:
    """A well-formed response whose records carry names with a label of invalid UTF-8 octets (DNS labels are arbitrary octets):
    a pointer for a browsed type whose instance label cannot be written back once decoded with replacement characters, and / or an
    SRV record with such a target."""
    n = rng.choice([10, 21, 22, 40, 63])
    lab = bytes([n]) + bytes(rng.choice([0xFF, 0xC0, 0xE2, 0x80]) for _ in range(n))
    inst = lab + wire.enc_name(type_)
    recs = []
    if rng.random() < 0.8:
        recs.append(wire.enc_name(type_) + bytes([0, 12, 0, 1]) + (4500).to_bytes(4, 'big') + len(inst).to_bytes(2, 'big') + inst)
    if rng.random() < 0.5:
        tgt = lab + wire.enc_name('local.')
        rd = bytes([0, 0, 0, 0, 0, 80]) + tgt
        recs.append(inst + bytes([0, 33, 0x80, 1]) + (120).to_bytes(4, 'big') + len(rd).to_bytes(2, 'big') + rd)
    if not recs:
        recs.append(wire.enc_name(type_) + bytes([0, 12, 0, 1]) + (4500).to_bytes(4, 'big') + len(inst).to_bytes(2, 'big') + inst)
    return bytes([0, 0, 0x84, 0, 0, 0, 0, len(recs), 0, 0, 0, 0]) + b''.join(recs)


def odd_address_response(rng: random.Random) -> bytes:
    """SRV for the instance a lookup is waiting for, plus address records of its host whose rdata has an impossible length."""
    inst = wire.enc_name('Lost._http._tcp.local.')
    host = wire.enc_name('lost.local.')
    rd = bytes([0, 0, 0, 0, 0, 80]) + host
    recs = [inst + bytes([0, 33, 0x80, 1]) + (120).to_bytes(4, 'big') + len(rd).to_bytes(2, 'big') + rd]
    for _ in range(rng.choice([1, 2])):
        n = rng.choice([0, 1, 3, 5, 15, 17, 32])
        t = rng.choice([1, 28, 28])
        recs.append(host + bytes([0, t, 0x80, 1]) + (120).to_bytes(4, 'big') + n.to_bytes(2, 'big') + rng.randbytes(n))
    return bytes([0, 0, 0x84, 0, 0, 0, 0, len(recs), 0, 0, 0, 0]) + b''.join(recs)


def gen_c15(rng: random.Random, sid: str, thorough: bool) -> dict:
    from props import c02
    base = rf.gen_resp(rng, sid, 'c12', thorough)
    svcs = [s['svc'] for s in base['steps'] if s['op'] == 'reg']
    steps: List[dict] = []
    t = 0
    for sp in svcs:
        steps += [{'op': 'at', 't': t}, {'op': 'reg', 'svc': sp, 'coop': True}]
        t += 100
    t += 700
    steps += [{'op': 'at', 't': t}, {'op': 'ladd'}, {'op': 'bstart', 'types': [REMOTE_T, svcs[0]['type']], 'delay': 10000}]
    steps.append({'op': 'lookup', 'type': REMOTE_T, 'name': 'Lost._http._tcp.local.', 'timeout': rng.choice([3000, 10000])})
    # valid traffic to mutate
    valid: List[bytes] = []
    rec = rf.Recorder({'id': 'tmp', 'steps': []})
    for _ in range(12):
        q = rf.gen_query(rng, svcs, 'c11')
        valid.append(rec.build_query(q))
    for sp in svcs:
        valid.append(wire.build(flags=0x8400, answers=[(sp['type'], wire.T_PTR, 1, 4500, sp['name']),
                                                       (sp['name'], wire.T_SRV, 0x8001, 120, (0, 0, sp['port'], sp['host'])),
                                                       (sp['name'], wire.T_TXT, 0x8001, 4500, bytes.fromhex(sp['txt']))]))
    n = rng.choice([50, 120, 300]) if not thorough else rng.choice([50, 200, 500])
    # an HINFO record (parsed, never sent by the library) with text that is not UTF-8, alone and next to an announcement
    hinfo = wire.enc_name('remote.local.') + bytes([0, 13, 0x80, 1]) + (120).to_bytes(4, 'big')
    cpu, os_ = bytes([0xE9, 0x74, 0xE9]), b'Linux \xff'
    hrd = bytes([len(cpu)]) + cpu + bytes([len(os_)]) + os_
    valid.append(bytes([0, 0, 0x84, 0, 0, 0, 0, 1, 0, 0, 0, 0]) + hinfo + len(hrd).to_bytes(2, 'big') + hrd)
    nq = 12                 # the first 12 valid messages are queries
    for k in range(n):
        r = rng.random()
        if k % 25 == 10:
            # keep a lookup waiting for records throughout the stream
            steps.append({'op': 'lookup', 'type': REMOTE_T, 'name': 'Lost._http._tcp.local.', 'timeout': rng.choice([3000, 10000])})
            if rng.random() < 0.4:
                # ... which the application cancels a little later, in the very iteration in which an answer for it arrives
                t += rng.choice([1, 150, 700])
                steps += [{'op': 'at', 't': t}, {'op': 'lookup_cancel'}]
        if rng.random() < 0.04:
            # well-formed queries only, but many of them inside and just after one aggregation window (the same question again and
            # again, then another one): the answer queues are emptied, merged and re-armed in every order
            offs = sorted(rng.sample([0, 5, 30, 100, 380, 450, 460, 481, 490, 499, 505, 940, 950, 990, 1010], rng.choice([3, 4, 5, 6])))
            t += rng.choice([0, 300, 1200])
            names = [(sp['type'], wire.T_PTR) for sp in svcs] + [(rf.ENUM, wire.T_PTR), (svcs[0]['name'], wire.T_TXT)]
            same = rng.choice(names)
            for j, off in enumerate(offs):
                qn, qt = same if j < len(offs) - 1 and rng.random() < 0.8 else rng.choice(names)
                steps += [{'op': 'at', 't': t + off}, {'op': 'query', 'qs': [{'name': qn, 'type': qt, 'sp': 0, 'qu': False}], 'qid': rng.randint(0, 65535),
                                                     'src': rng.choice(['10.0.0.9', '10.0.0.23'])}]
            t += offs[-1]
            continue
        if r < 0.06:
            # a query with the TC bit (held back 400-500 ms for its continuation) followed, or not, by more traffic from the
            # same address while it is held
            src, port = rng.choice(['10.0.0.9', '10.0.0.23']), rng.choice([5353, 5353, 40000])
            first = bytearray(rng.choice(valid[:nq]))
            first[2] |= 0x02
            if rng.random() < 0.35:
                # a continuation packet (known answers, no question) that overtook the packet carrying the questions -- or nothing at all
                sp0 = rng.choice(svcs)
                first = bytearray(wire.build(flags=0x0200, answers=[] if rng.random() < 0.3 else
                                             [(sp0['type'], wire.T_PTR, 1, rng.choice([4500, 10]), 'Other.' + sp0['type'])]))
            t += rng.choice([0, 5, 300, 1000])
            steps += [{'op': 'at', 't': t}, {'op': 'raw', 'data': bytes(first).hex(), 'src': src, 'port': port}]
            for _k in range(rng.choice([0, 1, 1, 2])):
                t += rng.choice([0, 1, 50, 300, 399, 450, 501])
                nxt = rng.choice(valid[:nq]) if rng.random() < 0.7 else c02.mutate(rng, rng.choice(valid[:nq]))
                steps += [{'op': 'at', 't': t}, {'op': 'raw', 'data': nxt.hex(), 'src': src, 'port': port}]
            continue
        if r < 0.35:
            data = c02.mutate(rng, rng.choice(valid))
        elif r < 0.5:
            data = rng.randbytes(rng.choice([0, 1, 11, 12, 13, 40, 200, 1500]))
        elif r < 0.62:
            data = c02.hostile(rng)
        elif r < 0.66:
            data = invalid_utf8_query(rng)
        elif r < 0.68:
            data = invalid_utf8_response(rng, rng.choice([REMOTE_T, svcs[0]['type']]))
        elif r < 0.7:
            data = odd_address_response(rng)
        elif r < 0.76:
            big = rng.choice(valid)
            data = big + rng.randbytes(rng.choice([8967, 9000, 20000]) - len(big)) if rng.random() < 0.7 else rng.randbytes(8967)
        elif r < 0.9:
            data = rng.choice(valid)
        else:
            data = c02.mutate(rng, c02.mutate(rng, rng.choice(valid)))
        t += rng.choice([0, 0, 1, 5, 50, 300, 1000, 2500])
        steps += [{'op': 'at', 't': t}, {'op': 'raw', 'data': data.hex(), 'src': rng.choice(['10.0.0.9', '10.0.0.23', '192.168.7.7']),
                                         'port': rng.choice([5353, 5353, 5353, 40000, 53, 1])}]
    # canaries: a well-formed legacy query for a registered service, and an announcement of a new remote service
    t += 3000
    sp = svcs[0]
    steps += [{'op': 'at', 't': t}, {'op': 'query', 'qs': [{'name': sp['type'], 'type': wire.T_PTR, 'sp': 0, 'qu': False}], 'qid': 4242,
                                     'port': 40404, 'src': '10.0.0.77', 'tag': 'canary'}]
    # ... and a plain multicast question from the mDNS port: the answer must go out by multicast (aggregated, or a second later
    # when the record was just multicast in the reply to the legacy query)
    t += 1500
    steps += [{'op': 'at', 't': t}, {'op': 'query', 'qs': [{'name': sp['type'], 'type': wire.T_PTR, 'sp': 0, 'qu': False}], 'qid': 0, 'src': '10.0.0.78'}]
    steps += [{'op': 'at', 't': t + 1300}, {'op': 'expect_mc', 'rec': rf.rec_of(sp, 'ptr'), 'since': t}]
    t += 1500
    steps += [{'op': 'at', 't': t}, {'op': 'resp', 'recs': [
        {'rec': [REMOTE_T, wire.T_PTR, 1, CANARY], 'ttl': 4500},
        {'rec': [CANARY, wire.T_SRV, 1, [0, 0, 8080, 'canary.local.']], 'ttl': 120, 'fl': True},
        {'rec': [CANARY, wire.T_TXT, 1, ''], 'ttl': 4500, 'fl': True},
        {'rec': ['canary.local.', wire.T_A, 1, '0a000042'], 'ttl': 120, 'fl': True}]}]
    t += 200
    steps += [{'op': 'at', 't': t}, {'op': 'expect_added', 'name': CANARY}]
    t += 1000
    steps.append({'op': 'at', 't': t})
    if rng.random() < 0.5:
        # ... and keeps working: an instance whose name has characters outside ASCII (lower() and casefold() differ on the sharp
        # s) is learned, its record comes up for refresh at 75 % of its TTL and beyond, and a new announcement is still delivered
        late = rng.choice(['B\u00fcro Stra\u00dfe 5.', '\u01c5emal \ufb01.', 'Caf\u00e9.']) + REMOTE_T
        steps += [{'op': 'resp', 'recs': [{'rec': [REMOTE_T, wire.T_PTR, 1, late], 'ttl': 4500}]}]
        t += 200
        steps += [{'op': 'at', 't': t}, {'op': 'expect_added', 'name': late}]
        t += rng.choice([3400000, 3900000, 4400000])
        canary2 = 'Canary Two.' + REMOTE_T
        steps += [{'op': 'at', 't': t}, {'op': 'resp', 'recs': [{'rec': [REMOTE_T, wire.T_PTR, 1, canary2], 'ttl': 4500}]}]
        t += 200
        steps += [{'op': 'at', 't': t}, {'op': 'expect_added', 'name': canary2}]
        t += 1000
        steps.append({'op': 'at', 't': t})
    layout = rng.choice(['single', 'split', 'dual'])
    # on the dual-stack layout the peers are IPv6 hosts (4-tuple source addresses with a scope id) most of the time
    return {'id': sid, 'seed': rng.randint(0, 10 ** 9), 'steps': steps, 'layout': layout, 'rand': rng.choice([None, None, 'lo', 'hi']),
            'v6src': layout == 'dual' and rng.random() < 0.7}


def disc(sc: dict, tr: dict, clause: str, pos: int) -> str:
    if clause in ('C15_NoException',):
        ev = tr['events'][pos - 1] if 0 < pos <= len(tr['events']) else {}
        return str(ev.get('what', 'exc'))
    return 'plain'


def run_scenarios(ctx: Ctx, scenarios: List[dict]) -> None:
    traces = trace_run.record_all('props.respfam', 'Recorder', scenarios, 16 if ctx.thorough else 8)
    ctx.log('recorded %d streams, %d events' % (len(traces), sum(len(t['events']) for t in traces)))
    verdicts, states, trans = trace_run.validate('Trace_Responder', traces, {'own': 'C15'}, batch=60, par=6)
    res = trace_run.triage(ctx, 'C15', scenarios, traces, verdicts, disc)
    n_dg = sum(1 for t in traces for e in t['events'] if e['ev'] == 'recv' and e.get('inj'))
    n_bad = sum(1 for t in traces for e in t['events'] if e['ev'] == 'recv' and e.get('inj') and e.get('bad'))
    n_over = sum(1 for t in traces for e in t['events'] if e['ev'] == 'recv' and e.get('len', 0) > 8966)
    cov = ctx.coverage
    cov.update({'evaluations': n_dg, 'distinct_nontrivial': len({(len(t['events']), t['events'][-1]['t']) for t in traces}),
                'rule': 'streams of 50-500 datagrams (mutated valid queries/responses, random bytes, hostile compression graphs, queries '
                        'with invalid UTF-8 labels, oversize datagrams, valid traffic) from mDNS and other source ports with clock '
                        'advances, against an instance with registered services, a browser, a record listener and a lookup in '
                        'progress; then a canary legacy query and a canary announcement; non-trivial = distinct streams',
                'streams': len(traces), 'datagrams_injected': n_dg, 'not_strictly_parseable': n_bad, 'oversize': n_over,
                'states': states, 'transitions': trans, 'traces_validated_against_impl': len(traces),
                'samples': [{'scenario': scenarios[0]['id'], 'first_raw': [s for s in scenarios[0]['steps'] if s['op'] == 'raw'][:2]}]})
    cov.update(res)
    ctx.assumptions += ['level: exploration (generated streams); the contract evaluated by TLC is total dispatch (no exception, oversize '
                        'ignored) plus the canaries answered / delivered']


def run(ctx: Ctx) -> None:
    rng = random.Random(ctx.seed * 7919 + 15)
    run_scenarios(ctx, [gen_c15(rng, 'c15-%d' % k, ctx.thorough) for k in range(ctx.pick(120, 3000))])
    # the datagram front end on its own (Listener.tla): undecodable datagrams between well-formed ones at gaps below and above one
    # second; every well-formed query that is not a duplicate must still be handed to the query handler (C15_QueryHandedOn), the
    # handler is never called with nothing (C15_EmptyAssembly), nothing raises
    from props import listenermodel
    listenermodel.run(ctx, 'C15')


def replay(ctx: Ctx, path: str) -> None:
    import json
    rep = json.load(open(path))['replay']
    if 'listener_history' in rep:
        from props import listenermodel
        listenermodel.run(ctx, 'C15', [dict(rep['listener_history'], id='listener-replay')])
        return
    run_scenarios(ctx, [rep['scenario']])
