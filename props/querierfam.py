"""Querier family harness (C10, C13): a real instance with one browser (and optionally lookups and
registered services) whose PTR world is scripted by the harness; records every query it sends."""
from __future__ import annotations

import random
import socket
from typing import Any, Dict, List, Optional, Tuple

from vf import simnet, wire

T1 = '_http._tcp.local.'
T2 = '_ipp._tcp.local.'
TSUB = '_printer._sub._http._tcp.local.'          # a subtype of T1: a browser of T1 tracks its pointers too
TYPE_ID = {T1.lower(): 1, T2.lower(): 2, TSUB.lower(): 3}


def low(s: str) -> str:
    return ''.join(chr(ord(c) + 32) if 'A' <= c <= 'Z' else c for c in s)


class Vocab:
    """PTR identities: id -> (type, alias).  ids 1..n1 belong to T1, the next n2 to T2, the last n3 are subtype pointers
    (owner TSUB, instances of T1 that no T1 pointer of the vocabulary names).  Two of the T1 instance names are special:
    one has a letter whose lower() and casefold() differ, one has a label of the maximal 63 octets."""

    def __init__(self, n1: int, n2: int, n3: int = 0, shared: bool = False) -> None:
        self.ids: Dict[int, Tuple[str, str]] = {}
        for k in range(n1):
            label = 'Inst%03d' % k
            if k == 1:
                label = 'Stra\u00dfe %03d' % k
            elif k == 2:
                label = 'L' + 'o' * 58 + 'ng%02d' % k
                assert len(label) == 63
            self.ids[len(self.ids) + 1] = (T1, '%s.%s' % (label, T1))
        for k in range(n2):
            self.ids[len(self.ids) + 1] = (T2, 'Prn%03d.%s' % (k, T2))
        for k in range(n3):
            # (shared: the subtype pointer names an instance that a T1 pointer of the vocabulary names too)
            self.ids[len(self.ids) + 1] = (TSUB, ('Inst%03d.%s' if shared else 'Sub%03d.%s') % (k, T1))
        self.by_key = {(low(t), low(a)): i for i, (t, a) in self.ids.items()}
        self.by_alias = {low(a): i for i, (t, a) in self.ids.items()}

    def json(self) -> List[dict]:
        return [{'id': i, 'ty': TYPE_ID[low(t)]} for i, (t, a) in sorted(self.ids.items())]

    def spelled(self, i: int, variant: int) -> str:
        t, a = self.ids[i]
        t = T1 if t == TSUB else t
        head = a[:len(a) - len(t)]
        if variant % 3 == 1:         # only the ASCII letters change case (RFC 6762 section 16)
            head = ''.join(chr(ord(c) - 32) if 'a' <= c <= 'z' else c for c in head)
        if variant % 3 == 2:
            head = ''.join(chr(ord(c) - 32) if 'a' <= c <= 'z' else (chr(ord(c) + 32) if 'A' <= c <= 'Z' else c) for c in head)
        return head + t


def build_ptr_datagram(voc: Vocab, items: List[dict]) -> bytes:
    answers = []
    for it in items:
        t, _ = voc.ids[it['id']]
        answers.append((t, wire.T_PTR, 1, it['ttl'], voc.spelled(it['id'], it.get('sp', 0))))
    return wire.build(flags=0x8400, answers=answers)


class Recorder:
    def __init__(self, sc: dict) -> None:
        self.sc = sc
        self.voc = Vocab(sc.get('n1', 6), sc.get('n2', 2), sc.get('n3', 0), bool(sc.get('shared')))
        self.net = simnet.Net(seed=sc.get('seed', 0), rand=sc.get('rand'), record_bytes=False)
        self.events: List[dict] = []
        self.did: Dict[bytes, int] = {}
        self.items_by_data: Dict[bytes, List[dict]] = {}
        self.host: Any = None
        self.browser: Any = None
        self.net.on_recv_hook = self._on_recv
        self.net.on_send_hook = self._on_send
        self.lookups: Dict[int, Any] = {}
        self.srcs: Dict[str, int] = {}

    def ev(self, _ev: str, **kw: Any) -> dict:
        e = {'ev': _ev, 't': self.net.now(), 'seq': self.net._seq}
        e.update(kw)
        self.events.append(e)
        return e

    def _on_recv(self, e: dict, data: bytes) -> None:
        did = self.did.setdefault(data, len(self.did) + 1)
        src = self.srcs.setdefault(str(e.get('src')), len(self.srcs) + 1)
        try:
            m = wire.parse(data)
        except wire.WireError:
            self.ev('recv', did=did, q=True, qu=False, items=[], hq=[], hka=[], tcq=False, src=src)
            return
        if m.is_response:
            items = []
            for r in m.records():
                if r.type == wire.T_PTR:
                    i = self.voc.by_key.get((low(r.name.text), low(r.rd)), 0)
                    if i:
                        items.append({'id': i, 'ttl': r.ttl, 'fl': False})
            self.ev('recv', did=did, q=False, qu=False, items=items, hq=[], hka=[], tcq=False, src=src)
        else:
            qu = any(q.cls & 0x8000 for q in m.questions)
            hq = [{'ty': TYPE_ID.get(low(q.name.text), 0), 'qu': bool(q.cls & 0x8000)} for q in m.questions
                  if q.type == wire.T_PTR and (q.cls & 0x7FFF) == 1]
            hka = []
            if not m.authorities:
                for r in m.answers:
                    if r.type == wire.T_PTR:
                        hka.append(self.voc.by_key.get((low(r.name.text), low(r.rd)), 0) or 9999)
                    else:
                        hka.append(9999)
            self.ev('recv', did=did, q=True, qu=qu, items=[], hq=hq, hka=hka, tcq=m.tc, src=src)

    def _on_send(self, e: dict, data: bytes) -> None:
        try:
            m = wire.parse(data)
        except wire.WireError as ex:
            self.ev('badsend', err=str(ex))
            return
        if m.is_response:
            return
        qs = []
        for q in m.questions:
            qs.append({'ty': TYPE_ID.get(low(q.name.text), 0), 'rt': q.type, 'qu': bool(q.cls & 0x8000),
                       'cls': q.cls & 0x7FFF})
        ka = []
        for r in m.answers:
            i = 0
            if r.type == wire.T_PTR:
                i = self.voc.by_key.get((low(r.name.text), low(r.rd)), 0)
            ka.append([i, r.ttl if r.ttl < 2 ** 31 else -1])
        self.ev('query', qs=qs, ka=ka, tc=m.tc, dst=e['dst'], port=e['port'], flags=m.flags, id=m.id,
                nauth=len(m.authorities), nadd=len(m.additionals), view=self.cache_view())

    def cache_view(self) -> List[List[int]]:
        """PTR records of the vocabulary as the public cache shows them right now: [id, created, ttl]."""
        cache = self.host.zc.cache
        out = []
        for t in (T1, T2, TSUB):
            for r in cache.get_all_by_details(t, wire.T_PTR, 1):
                i = self.voc.by_key.get((low(r.name), low(r.alias)), 0)
                out.append([i, int(r.created), int(r.ttl)])
        return sorted(out)

    def start_browser(self, st: dict) -> None:
        from zeroconf import DNSQuestionType, ServiceListener
        from zeroconf.asyncio import AsyncServiceBrowser
        rec = self

        class BL(ServiceListener):
            def add_service(self, zc: Any, type_: str, name: str) -> None:
                rec.ev('cb', kind='add', ty=TYPE_ID.get(low(type_), 0), alias=rec.voc.by_key.get((low(type_), low(name)), 0) or rec.voc.by_alias.get(low(name), 0))

            def remove_service(self, zc: Any, type_: str, name: str) -> None:
                rec.ev('cb', kind='rem', ty=TYPE_ID.get(low(type_), 0), alias=rec.voc.by_key.get((low(type_), low(name)), 0) or rec.voc.by_alias.get(low(name), 0))

            def update_service(self, zc: Any, type_: str, name: str) -> None:
                pass
        forced = st.get('forced', 'none')
        qt = {'none': None, 'QU': DNSQuestionType.QU, 'QM': DNSQuestionType.QM}[forced]
        self.ev('bstart', types=[TYPE_ID[low(t)] for t in st['types']], delay=st['delay'], forced=forced,
                view=self.cache_view())
        kw = {'addr': self.sc['addr']} if self.sc.get('addr') else {}
        self.browser = AsyncServiceBrowser(self.host.zc, list(st['types']), listener=BL(), delay=st['delay'],
                                           question_type=qt, **kw)

    async def register(self, st: dict) -> None:
        from zeroconf import ServiceInfo
        t, alias = self.voc.ids[st['id']]
        info = ServiceInfo(t, alias, 80, properties={'a': 'b'}, server='me.local.', addresses=[socket.inet_aton('10.0.0.1')])
        self.ev('reg', ty=TYPE_ID[low(t)], id=st['id'])
        task = await self.host.aiozc.async_register_service(info, cooperating_responders=True)
        await task

    def build_query(self, st: dict) -> bytes:
        from props.respfam import recase
        # (the question may spell the type in other letter case than this host does: it is the same question)
        qs = [(recase(t, st.get('qsp', 0)), wire.T_PTR, 1 | (0x8000 if st.get('qu') else 0)) for t in st['types']]
        ans = []
        for (i, ttl) in st.get('ka', []):
            t, _ = self.voc.ids[i]
            ans.append((t, wire.T_PTR, 1, ttl, self.voc.spelled(i, st.get('sp', 0))))
        return wire.build(id_=st.get('qid', 0), flags=0x0200 if st.get('tc') else 0, questions=qs, answers=ans)

    async def main(self) -> None:
        net = self.net
        self.host = await net.add_host('h', '10.0.0.1', addr6='fe80::1', layout=self.sc.get('layout', 'single'))
        self.ev('start', t0=net.now())
        for st in self.sc['steps']:
            op = st['op']
            if op == 'at':
                await net.sleep_until(st['t'])
            elif op == 'bstart':
                self.start_browser(st)
            elif op == 'busy_at':
                # loop latency: a callback that runs at instant st['when'] keeps the loop busy for st['ms'] milliseconds; the timers
                # that fall due meanwhile fire late, and read the clock when they fire
                lp = self.net.loop

                def block(ms: int = st['ms']) -> None:
                    lp.vtime_us += ms * 1000
                lp.call_at(st['when'] / 1000.0, block)
                self.ev('busy', **{'from': st['when'], 'until': st['when'] + st['ms']})
            elif op == 'recv':
                data = build_ptr_datagram(self.voc, st['items'])
                self.items_by_data[data] = st['items']
                self.host.inject(data, src=st.get('src', '10.0.0.9'))
            elif op == 'rawrecv':
                self.host.inject(bytes.fromhex(st['data']), src=st.get('src', '10.0.0.9'))
            elif op == 'reg':
                await self.register(st)
            elif op == 'query':
                data = self.build_query(st)
                self.host.inject(data, src=st.get('src', '10.0.0.9'), port=st.get('port', 5353))
            elif op == 'bcancel':
                if self.browser is not None:
                    self.ev('bcancel')
                    await self.browser.async_cancel()
                    self.browser = None
            else:
                raise ValueError(op)
        self.ev('end')
        if self.browser is not None:
            await simnet.quiet(self.browser.async_cancel())
        await simnet.quiet(self.host.aiozc.async_close())

    def run(self) -> dict:
        self.net.run(self.main(), limit_ms=self.sc.get('limit_ms', 72 * 3600 * 1000))
        rands = [e for e in self.net.log if e['ev'] == 'rand' and e['site'] in ('first', 'lookup', 'tc')]
        if rands:
            # merge by time: a rand event goes right after the last trace event that is not later than it
            merged: List[dict] = []
            ri = 0
            for evn in self.events:
                while ri < len(rands) and (rands[ri]['t'] < evn['t'] or (rands[ri]['t'] == evn['t'] and rands[ri]['seq'] < evn.get('seq', 0))):
                    merged.append({'ev': 'rand', 't': rands[ri]['t'], 'site': rands[ri]['site'], 'v': rands[ri]['v']})
                    ri += 1
                merged.append(evn)
            for r in rands[ri:]:
                merged.append({'ev': 'rand', 't': r['t'], 'site': r['site'], 'v': r['v']})
            self.events = merged
        excs = [e for e in self.net.log if e['ev'] == 'exc']
        for x in excs:
            self.events.append({'ev': 'exc', 't': x['t'], 'what': x.get('cls'), 'msg': x.get('msg')})
        if self.net.aborted:
            self.events = self.events[:400] + [{'ev': 'exc', 't': self.events[min(len(self.events), 400) - 1]['t'] if self.events else 0,
                                                'what': 'Runaway', 'msg': self.net.aborted[:200]}]
        return {'id': self.sc['id'], 'voc': self.voc.json(), 'events': self.events}


# ------------------------------------------------------------------------------ generation
TTLS = [1125, 1125, 1200, 1200, 4500, 4500, 9000, 100, 2000]


def with_group(rng: random.Random, sc: dict) -> dict:
    """Some browsers are given the multicast group explicitly -- the IPv4 or the IPv6 one -- on a dual-stack host."""
    if rng.random() < 0.15:
        sc['layout'] = 'dual'
        sc['addr'] = rng.choice(['ff02::fb', 'ff02::fb', '224.0.0.251'])
    return sc


def gen_c10(rng: random.Random, sid: str, thorough: bool = False) -> dict:
    delay = rng.choice([1000, 10000, 10000, 60000])
    # a long delay with records at the 1125 s floor that are left to run out: 5 % of the TTL is less than the delay, so the
    # last refresh attempt (95 %) falls less than one delay before the expiry
    floor_mode = rng.random() < 0.12
    if floor_mode:
        delay = rng.choice([30000, 60000])
    types = [T1] if rng.random() < 0.6 else [T1, T2]
    n1, n2 = 6, 2
    steps: List[dict] = []
    t = rng.choice([0, 0, 500, 3000])
    steps.append({'op': 'at', 't': t})
    events: List[Tuple[int, dict]] = []
    pre = rng.random() < 0.15
    start_t = t
    ids = list(range(1, n1 + 1)) + ([n1 + 1, n1 + 2] if len(types) > 1 else [])
    # a subtype pointer heard by the browser of the base type (only once the browser runs: it learns those from the link)
    n3 = 1 if (not pre and rng.random() < 0.4) else 0
    ids += [n1 + n2 + 1] * (2 * n3)
    nrec = rng.choice([1, 2, 2, 3, 4, 6])
    horizon = 0
    # cluster mode: the 75 % points of all records fall within +-delay of one instant (rate limit, batching, and a timer
    # armed for a later record being re-armed for an earlier one)
    cluster = rng.random() < 0.3
    target = start_t + rng.randint(3400000, 5000000)
    if cluster:
        nrec = rng.choice([2, 3, 3, 4, 6])
        ids_left = list(ids)
        rng.shuffle(ids_left)
    for _ in range(nrec):
        i = rng.choice(ids)
        ttl = rng.choice(TTLS) if rng.random() < 0.85 else rng.randint(1125, 12000)
        if floor_mode:
            ttl = rng.choice([120, 1125, 1125, 1200])
        r = rng.random()
        if cluster:
            i = ids_left.pop() if ids_left else i
            ttl = max(ttl, 1125)
            learn = max(start_t + 20, target + rng.randint(-delay, delay) - 750 * ttl)
        elif r < 0.3:
            learn = start_t + rng.choice([20, 60, 200, 1500, 6000, 15000, 20000, 30000])
        elif r < 0.6:
            learn = start_t + rng.randint(0, 100000)
        else:
            learn = start_t + rng.randint(0, 4000000)
        events.append((learn, {'op': 'recv', 'items': [{'id': i, 'ttl': ttl, 'sp': rng.randint(0, 2)}]}))
        eff = max(ttl, 1125)
        fate = rng.random() if not floor_mode else 0.0
        if fate < 0.45:
            horizon = max(horizon, learn + eff * 1000 + 25000)          # let it expire
        elif fate < 0.8:
            # refresh somewhere in its life (possibly several times), maybe with another TTL / spelling
            tt = learn
            for _ in range(rng.choice([1, 1, 2, 3])):
                tt = tt + rng.randint(1, eff * 1000 - 1)
                nt = rng.choice([ttl, ttl, rng.choice(TTLS)])
                events.append((tt, {'op': 'recv', 'items': [{'id': i, 'ttl': nt, 'sp': rng.randint(0, 2)}]}))
                eff = max(nt, 1125)
            horizon = max(horizon, tt + eff * 1000 + 25000)
        else:
            gb = learn + rng.randint(1, eff * 1000 - 1)
            events.append((gb, {'op': 'recv', 'items': [{'id': i, 'ttl': 0, 'sp': rng.randint(0, 2)}]}))
            horizon = max(horizon, gb + 30000)
    events.sort(key=lambda x: x[0])
    bstep = {'op': 'bstart', 'types': types, 'delay': delay, 'forced': rng.choice(['none', 'none', 'none', 'QU', 'QM'])}
    if pre and events:
        # browser started after some records are already cached
        start_t = events[0][0] + rng.randint(0, 2000000)
    placed = False
    for (tt, st) in events:
        if not placed and tt >= start_t:
            steps.append({'op': 'at', 't': start_t})
            steps.append(bstep)
            placed = True
        steps.append({'op': 'at', 't': tt})
        steps.append(st)
    if not placed:
        steps.append({'op': 'at', 't': start_t})
        steps.append(bstep)
    end = max(horizon, start_t + 30000) + delay * 3
    steps.append({'op': 'at', 't': end})
    return with_group(rng, {'id': sid, 'n1': n1, 'n2': n2, 'n3': n3, 'seed': rng.randint(0, 10 ** 9), 'steps': steps,
                            'rand': rng.choice([None, None, 'lo', 'hi'])})


def gen_c10_long(rng: random.Random, sid: str, thorough: bool = False) -> dict:
    """A long history: one responder re-announces its pointer every 15 s for more than half an hour (every refresh cancels a
    scheduled query and schedules a new one: residue piles up in the scheduler's heap) while a handful of other pointers, learned
    at scattered instants with scattered TTLs, are left to be refreshed by the browser alone until they run out."""
    n1, n2 = 6, 2
    steps: List[dict] = [{'op': 'at', 't': 0}, {'op': 'bstart', 'types': [T1, T2], 'delay': rng.choice([1000, 10000]), 'forced': 'none'}]
    events: List[Tuple[int, dict]] = []
    period = rng.choice([15000, 15000, 20000])
    for k in range(rng.choice([130, 150, 200])):
        events.append((20000 + k * period, {'op': 'recv', 'items': [{'id': 1, 'ttl': 4500, 'sp': 0}]}))
    horizon = 0
    for i in range(2, n1 + n2 + 1):
        if rng.random() < 0.15:
            continue
        ttl = rng.choice([1125, 1200, 2000, 4500, 4500, 9000]) if rng.random() < 0.7 else rng.randint(1125, 9000)
        learn = rng.randint(21000, 1900000)
        events.append((learn, {'op': 'recv', 'items': [{'id': i, 'ttl': ttl, 'sp': 0}]}))
        horizon = max(horizon, learn + ttl * 1000 + 30000)
    events.sort(key=lambda x: x[0])
    for (tt, st) in events:
        steps += [{'op': 'at', 't': tt}, st]
    steps.append({'op': 'at', 't': max(horizon, events[-1][0]) + 30000})
    return with_group(rng, {'id': sid, 'n1': n1, 'n2': n2, 'n3': 0, 'seed': rng.randint(0, 10 ** 9), 'steps': steps, 'rand': rng.choice([None, 'lo', 'hi'])})


def gen_c10_partial(rng: random.Random, sid: str, thorough: bool = False) -> dict:
    """A browser of two types whose records come up for refresh in the same pass, while the question for one of the types was heard
    from the link (this instance answers for that type) less than a second earlier with a known-answer list that covers the
    cache: that question is suppressed -- the other one is still due."""
    n1, n2 = 6, 2
    delay = rng.choice([1000, 10000])
    ttl = rng.choice([4500, 1200, 9000])
    learn = rng.choice([20000, 30001])
    a, b = rng.randint(2, n1), n1 + rng.randint(1, n2)
    steps: List[dict] = [{'op': 'at', 't': 0}, {'op': 'reg', 'id': 1}, {'op': 'at', 't': 1000},
                         {'op': 'bstart', 'types': [T1, T2], 'delay': delay, 'forced': rng.choice(['none', 'QM'])},
                         {'op': 'at', 't': learn},
                         {'op': 'recv', 'items': [{'id': a, 'ttl': ttl, 'sp': 0}, {'id': b, 'ttl': ttl, 'sp': 0}]}]
    heard_type = rng.choice([T1, T1, T2])
    for pct in (75, 85, 95):
        due = learn + ttl * 10 * pct
        if pct == 75 or rng.random() < 0.5:
            gap = rng.choice([1, 2, 500, 998])
            # (the list heard holds nothing this host does not know itself -- at 75 % and later the learned records are stale and not in
            # its own list any more: an empty list, or the pointer of its own service)
            ka = [(1, 4500)] if heard_type == T1 and rng.random() < 0.5 else []
            steps += [{'op': 'at', 't': due - gap},
                      {'op': 'query', 'types': [heard_type], 'qu': False, 'qid': rng.randint(0, 65535), 'ka': ka, 'sp': 0, 'qsp': rng.randint(0, 2),
                       'src': '10.0.0.31'}]
    steps.append({'op': 'at', 't': learn + ttl * 1000 + 30000})
    if heard_type == T2:
        steps.insert(2, {'op': 'reg', 'id': n1 + 1})
    return with_group(rng, {'id': sid, 'n1': n1, 'n2': n2, 'n3': 0, 'seed': rng.randint(0, 10 ** 9), 'steps': steps, 'rand': rng.choice([None, 'lo', 'hi'])})


def gen_c13_bigcache(rng: random.Random, sid: str, thorough: bool = False) -> dict:
    """Many pointer records with ages below / at / above half TTL when the start-up queries go out (forces TC trains)."""
    n1 = rng.choice([8, 40, 120, 300] if not thorough else [8, 60, 200, 400])
    n2 = 4
    r = rng.randint(20, 120)
    bs = rng.choice([700000, 900000, 2300000])
    due = [bs + r, bs + r + 1000, bs + r + 5000, bs + r + 14000]
    steps: List[dict] = []
    evs: List[Tuple[int, dict]] = []
    ids = list(range(1, n1 + n2 + 1))
    rng.shuffle(ids)
    k = 0
    while k < len(ids):
        chunk = ids[k:k + rng.choice([1, 5, 20, 60])]
        k += len(chunk)
        ttl = rng.choice([1125, 1200, 4500, 4500])
        mode = rng.random()
        if mode < 0.4:
            # half-TTL boundary exactly at / around one of the query instants
            c = rng.choice(due) - 500 * ttl + rng.choice([-1, 0, 1, -1000, 1000])
        else:
            c = bs - rng.randint(0, 1000 * ttl)
        if c < 0:
            c = rng.randint(0, 1000)
        evs.append((c, {'op': 'recv', 'items': [{'id': i, 'ttl': ttl, 'sp': rng.randint(0, 2)} for i in chunk]}))
    evs.sort(key=lambda x: x[0])
    placed = False
    for (tt, st) in evs:
        if not placed and tt >= bs:
            steps += [{'op': 'at', 't': bs}, {'op': 'bstart', 'types': [T1, T2] if rng.random() < 0.5 else [T1], 'delay': 10000,
                                            'forced': rng.choice(['none', 'none', 'QM', 'QU'])}]
            placed = True
        steps += [{'op': 'at', 't': tt}, st]
    if not placed:
        steps += [{'op': 'at', 't': bs}, {'op': 'bstart', 'types': [T1, T2] if rng.random() < 0.5 else [T1], 'delay': 10000,
                                        'forced': rng.choice(['none', 'none', 'QM', 'QU'])}]
    steps.append({'op': 'at', 't': bs + 16000})
    return with_group(rng, {'id': sid, 'n1': n1, 'n2': n2, 'seed': rng.randint(0, 10 ** 9), 'steps': steps,
                            'rand': {'first': r, 'tc': 437}})


def gen_c13_unwritable(rng: random.Random, sid: str, thorough: bool = False) -> dict:
    """A browser of two types: the first with so many fresh pointers that its question and known answers fill datagrams of their
    own, the second with one cached pointer whose instance label (63 octets that are not UTF-8) cannot be written back as a known
    answer.  Whatever the library does about the second question, the first is asked once per start-up instant, with its known
    answers."""
    n1 = rng.choice([60, 90, 150])
    n2 = 2
    r = rng.randint(20, 120)
    bs = rng.choice([20000, 60000])
    steps: List[dict] = [{'op': 'at', 't': 0}]
    ids = list(range(1, n1 + 1))
    t = 1000
    k = 0
    while k < len(ids):
        chunk = ids[k:k + 20]
        k += len(chunk)
        steps += [{'op': 'at', 't': t}, {'op': 'recv', 'items': [{'id': i, 'ttl': 4500, 'sp': 0} for i in chunk]}]
        t += 100
    n = rng.choice([22, 40, 63])
    # (octets that are invalid wherever they stand: each becomes a three-octet replacement character when the name is decoded)
    lab = bytes([n]) + bytes(rng.choice([0xFF, 0xFE, 0xC0, 0xC1]) for _ in range(n))
    inst = lab + wire.enc_name(T2)
    raw = bytes([0, 0, 0x84, 0, 0, 0, 0, 1, 0, 0, 0, 0]) + wire.enc_name(T2) + bytes([0, 12, 0, 1]) + (4500).to_bytes(4, 'big') + len(inst).to_bytes(2, 'big') + inst
    steps += [{'op': 'at', 't': t + 500}, {'op': 'rawrecv', 'data': raw.hex()}]
    steps += [{'op': 'at', 't': bs}, {'op': 'bstart', 'types': [T1, T2], 'delay': 10000, 'forced': rng.choice(['none', 'none', 'QM'])}]
    steps.append({'op': 'at', 't': bs + 16000})
    return {'id': sid, 'n1': n1, 'n2': n2, 'seed': rng.randint(0, 10 ** 9), 'steps': steps, 'rand': {'first': r, 'tc': 437}}


def gen_c13_late(rng: random.Random, sid: str, thorough: bool = False) -> dict:
    """A start-up query that is sent late (the application keeps the loop busy when it falls due) while a cached pointer crosses half
    of its TTL between the instant the query was due and the instant it is sent: the known answers are those of the instant of
    sending, with the TTLs that remain then."""
    n1, n2 = 6, 2
    r = rng.randint(20, 120)
    ttl = rng.choice([1200, 1125, 4500])
    learn = 1000
    half = learn + ttl * 500
    k = rng.randint(0, 3)                                # which of the four start-up queries
    off = [0, 1000, 5000, 14000][k]
    lead = rng.choice([1, 200, 900])                     # the query is due `lead` ms before the record goes stale ...
    bs = half - lead - off - r
    busy = lead + rng.choice([1, 300, 1500])             # ... and sent that much later
    other = rng.sample(range(3, n1 + 1), 2)
    steps: List[dict] = [{'op': 'at', 't': 0}, {'op': 'at', 't': learn},
                         {'op': 'recv', 'items': [{'id': 2, 'ttl': ttl, 'sp': 0}]},
                         {'op': 'at', 't': learn + 1000},
                         {'op': 'recv', 'items': [{'id': i, 'ttl': 4500, 'sp': 0} for i in other]},
                         {'op': 'at', 't': bs}, {'op': 'bstart', 'types': [T1], 'delay': 10000, 'forced': rng.choice(['none', 'QM'])},
                         {'op': 'busy_at', 'when': bs + r + off - 1, 'ms': busy + 1},
                         {'op': 'at', 't': bs + 16000}]
    return with_group(rng, {'id': sid, 'n1': n1, 'n2': n2, 'seed': rng.randint(0, 10 ** 9), 'steps': steps, 'rand': {'first': r, 'tc': 437}})


def gen_c13_suppress(rng: random.Random, sid: str, thorough: bool = False) -> dict:
    """A query heard from the link shortly before one of the browser's own start-up queries."""
    n1, n2 = 8, 2
    r = rng.randint(20, 120)
    bs = rng.choice([5000, 20000])
    forced = rng.choice(['none', 'none', 'QM'])
    due = [bs + r, bs + r + 1000, bs + r + 5000, bs + r + 14000]
    steps: List[dict] = [{'op': 'at', 't': 0}, {'op': 'reg', 'id': 1}]
    known = rng.sample(range(2, n1), rng.randint(0, 4))
    evs: List[Tuple[int, dict]] = []
    for i in known:
        evs.append((rng.randint(1000, bs - 1), {'op': 'recv', 'items': [{'id': i, 'ttl': rng.choice([1125, 4500]), 'sp': 0}]}))
    evs.append((bs, {'op': 'bstart', 'types': [T1], 'delay': 10000, 'forced': forced}))
    for _ in range(rng.choice([1, 1, 2, 3])):
        k = rng.randint(0, 3)
        gap = rng.choice([1, 2, 500, 998, 999, 1000, 1001, 1500])
        tq = due[k] - gap
        while tq in due:
            tq -= 1                  # not in the millisecond of another start-up query (two timers of one instant)
        mode = rng.random()
        cached = known + [1]
        if mode < 0.3:
            ka = []
        elif mode < 0.55:
            ka = rng.sample(cached, rng.randint(0, len(cached)))
        elif mode < 0.8:
            ka = list(cached)
        else:
            ka = list(cached) + [n1]            # id n1 is never taught: a known answer this host does not know
        kal = [(i, rng.choice([1125, 4000, 4500])) for i in ka]
        if rng.random() < 0.35:
            # the known-answer list comes as a truncated train: the question and a first part with the TC bit, then packets
            # with more known answers; the last one without TC (answered at once) or with it (answered when the 437 ms hold
            # runs out).  The instant that counts for the history is the arrival of the last packet: tq.
            rng.shuffle(kal)
            npk = rng.choice([2, 2, 3])
            cuts = sorted(rng.sample(range(0, len(kal) + 1), min(npk - 1, len(kal) + 1)))
            parts = [kal[a:b] for a, b in zip([0] + cuts, cuts + [len(kal)])]
            while len(parts) < npk:
                parts.append([])
            src = rng.choice(['10.0.0.31', '10.0.0.32'])
            last_tc = rng.random() < 0.5
            while (tq + 437) in due:
                tq += 1
            times = sorted(tq - rng.choice([0, 1, 50, 200, 390]) * (npk - 1 - j) for j in range(npk))
            times[-1] = tq
            qid = rng.randint(0, 65535)
            for j, part in enumerate(parts):
                evs.append((times[j], {'op': 'query', 'types': [T1] if j == 0 else [], 'qu': False, 'qid': qid + j, 'ka': part,
                                       'sp': rng.randint(0, 2), 'qsp': rng.randint(0, 2), 'tc': j < npk - 1 or last_tc, 'src': src}))
        else:
            # (also from a one-shot asker that multicasts its query from another port than 5353: heard all the same)
            evs.append((tq, {'op': 'query', 'types': [T1], 'qu': rng.random() < 0.15, 'qid': rng.randint(0, 65535),
                             'ka': kal, 'sp': rng.randint(0, 2), 'qsp': rng.randint(0, 2), 'port': rng.choice([5353, 5353, 40000, 1024])}))
    evs.sort(key=lambda x: x[0])
    # the hold of a truncated query is scripted (437 ms): no other step of the scenario and no start-up query may fall on the
    # instant it runs out (which of two timers of one instant fires first is not specified)
    holds = {tt + 437 for (tt, st) in evs if st.get('tc')}
    evs = [((tt + 1) if tt in holds else tt, st) for (tt, st) in evs]
    evs.sort(key=lambda x: x[0])
    for (tt, st) in evs:
        steps += [{'op': 'at', 't': tt}, st]
    steps.append({'op': 'at', 't': bs + 16000})
    return with_group(rng, {'id': sid, 'n1': n1, 'n2': n2, 'seed': rng.randint(0, 10 ** 9), 'steps': steps,
                            'rand': {'first': r, 'tc': 437}})


def gen_c13_history(rng: random.Random, sid: str, thorough: bool = False) -> dict:
    """The question history across its periodic clean-up: a question heard, another question heard after it, the first one heard
    again (its entry is renewed in place) -- then the 10 s clean-up drops the second, expired entry, and the browser's own QM
    question for the first falls due less than a second after its last sighting: it must still be suppressed."""
    n1, n2 = 8, 2
    r = rng.randint(20, 120)
    delta = rng.choice([100, 200, 500])
    k10 = rng.choice([10000, 20000])
    bs = k10 - 1000 + delta - r                     # the browser's second start-up query (QM) is due at k10 + delta
    due1 = bs + r + 1000
    gap = rng.choice([g for g in (300, 800, 998) if g > delta])
    a = due1 - rng.choice([4800, 3000])
    b = a + rng.choice([300, 600])
    c = due1 - gap
    steps: List[dict] = [{'op': 'at', 't': 0}, {'op': 'reg', 'id': 1}, {'op': 'reg', 'id': n1 + 1}]
    evs: List[Tuple[int, dict]] = [
        (a, {'op': 'query', 'types': [T1], 'qu': False, 'qid': 1, 'ka': [], 'sp': 0, 'src': '10.0.0.31'}),
        (b, {'op': 'query', 'types': [T2], 'qu': False, 'qid': 2, 'ka': [], 'sp': 0, 'src': '10.0.0.32'}),
        (bs, {'op': 'bstart', 'types': [T1], 'delay': 10000, 'forced': 'none'}),
        (c, {'op': 'query', 'types': [T1], 'qu': False, 'qid': 3, 'ka': [], 'sp': rng.randint(0, 2), 'src': '10.0.0.31'}),
    ]
    evs.sort(key=lambda x: x[0])
    for (tt, st) in evs:
        steps += [{'op': 'at', 't': tt}, st]
    steps.append({'op': 'at', 't': bs + 16000})
    return {'id': sid, 'n1': n1, 'n2': n2, 'seed': rng.randint(0, 10 ** 9), 'steps': steps, 'rand': {'first': r, 'tc': 437}}


def d26_scenarios() -> List[dict]:
    """Directed history of finding D26: one browser for a type and its subtype hears, in one datagram, a pointer of each kind
    to the same instance."""
    n1, n2 = 6, 2
    sub = n1 + n2 + 1
    out = []
    for k, ttl in enumerate((4500, 1200)):
        steps = [{'op': 'at', 't': 0}, {'op': 'bstart', 'types': [T1, TSUB], 'delay': 10000, 'forced': 'none'},
                 {'op': 'at', 't': 30000}, {'op': 'recv', 'items': [{'id': 1, 'ttl': ttl, 'sp': 0}, {'id': sub, 'ttl': ttl, 'sp': 0}]},
                 {'op': 'at', 't': 30000 + ttl * 1000 + 40000}]
        out.append({'id': 'c10-d26-%d' % k, 'n1': n1, 'n2': n2, 'n3': 1, 'shared': True, 'seed': 1, 'steps': steps, 'rand': 'lo'})
    return out
