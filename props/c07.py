"""C07 -- end-to-end discovery converges under delay, reordering, duplication and the loss of any single datagram
(fault enumeration over real instances in the simulator; Trace_Link.tla)."""
from __future__ import annotations

import random
from typing import Any, Dict, List

from props import linkfam as lf
from props import trace_run
from vf import wire
from vf.core import Ctx



def disc07(sc: dict, tr: dict, clause: str, pos: int) -> str:
    f = sc.get('fault') or {}
    if clause == 'C07_WithdrawnNotRemoved':
        # finding D27: an instance closed while the goodbye sequence of a service it has just unregistered is still running
        t = 0
        unregs = []
        for st in sc['steps']:
            if st['op'] == 'at':
                t = st['t']
            elif st['op'] == 'unreg':
                unregs.append((t, st['svc']['host']))
            elif st['op'] == 'close' and any(h == st['host'] and 0 <= t - tu < 250 for (tu, h) in unregs):
                return 'close-cuts-goodbyes-of-unregister'
    if sc.get('model'):
        return 'single-loss' if f.get('drop_match') else 'fault-free'
    return 'fault-free' if not f else ('single-loss' if f.get('drop') and not f.get('max_delay') else 'delay-dup-loss')

def run_scenarios(ctx: Ctx, base: List[dict], drops_per: int, seeds_per: int, extra_faulty: List[dict] = ()) -> List[dict]:  # type: ignore[assignment]
    # 1. fault-free runs (give the number of datagrams of each scenario)
    ref = trace_run.record_all('props.linkfam', 'Recorder', base, 16 if ctx.thorough else 8)
    rng = random.Random(ctx.seed * 31 + 7)
    scenarios: List[dict] = list(base)
    traces: List[dict] = list(ref)
    faulty: List[dict] = []
    for sc, tr in zip(base, ref):
        n = tr['nsend']
        idx = list(range(1, n + 1)) if not sc.get('no_drops') else []
        if drops_per and len(idx) > drops_per and not sc.get('all_drops'):
            rng.shuffle(idx)
            idx = sorted(idx[:drops_per])
        for k in idx:
            for who in (['all'] if rng.random() < 0.6 else [rng.choice(sc['hosts'])]):
                f = dict(sc)
                f['id'] = '%s/drop%d@%s' % (sc['id'], k, who)
                f['fault'] = {'drop': k, 'drop_for': who}
                faulty.append(f)
        for j, plan in enumerate(sc.get('plans', [])):
            f = dict(sc)
            f['id'] = '%s/plan%d' % (sc['id'], j)
            f['fault'] = plan
            faulty.append(f)
        for j in range(seeds_per):
            f = dict(sc)
            f['id'] = '%s/delay%d' % (sc['id'], j)
            f['seed'] = sc['seed'] + 1 + j
            f['fault'] = {'max_delay': 100, 'dup_permille': rng.choice([0, 100, 300]),
                          'drop': rng.randint(1, max(1, n)) if rng.random() < 0.7 else 0, 'drop_for': 'all'}
            faulty.append(f)
    faulty += list(extra_faulty)
    ctx.log('%d scenarios, %d fault-free datagrams in total, %d faulty runs' % (len(base), sum(t['nsend'] for t in ref), len(faulty)))
    ftr = trace_run.record_all('props.linkfam', 'Recorder', faulty, 16)
    scenarios += faulty[:len(ftr)]
    traces += ftr
    slim = [{'id': t['id'], 'events': t['events']} for t in traces]
    verdicts, states, trans = trace_run.validate('Trace_Link', slim, {}, batch=400, par=4)

    res = trace_run.triage(ctx, 'C07', scenarios, traces, verdicts, disc07)
    cov = ctx.coverage
    cov.update({'evaluations': len(traces), 'distinct_nontrivial': len({t['id'] for t in traces if any(e['ev'] == 'cb' for e in t['events'])}),
                'rule': 'scenarios of 2-5 hosts, 1-6 services of 1-3 types, 1-3 browsers started before / during / after registration, '
                        'then unregister / close; for each scenario the fault-free run, one run per (sampled) datagram index with that '
                        'datagram dropped for all receivers or for one, and runs with per-receiver delay <= 100 ms, duplication and one '
                        'loss; non-trivial = runs in which a browser reported something',
                'scenarios': len(base), 'faulty_runs': len(ftr), 'fault_free_datagrams': sum(t['nsend'] for t in ref),
                'callbacks': sum(1 for t in traces for e in t['events'] if e['ev'] == 'cb'),
                'lookups_from_added': sum(1 for t in traces for e in t['events'] if e['ev'] == 'lookup_ret'),
                'states': states, 'transitions': trans, 'traces_validated_against_impl': len(traces),
                'samples': [{'scenario': base[0]['id'], 'hosts': base[0]['hosts'], 'steps': base[0]['steps'][:8]},
                            {'faulty_run': faulty[0]['id'], 'fault': faulty[0]['fault']}]})
    cov.update(res)
    ctx.assumptions += ['all hosts are real library instances in one virtual-time simulator; own multicasts loop back at once and are never lost',
                        'settling times are constants of the scenario: 16 s after registrations / browser starts, 2.5 s after withdrawals']
    return traces


def late_browser(sid: str, variant: int) -> dict:
    """A browser started well after the announcements: it must learn from the answers to its own start-up queries, the first
    of which (QU) is answered by a single unicast datagram."""
    svc = {'name': 'Late-%d._http._tcp.local.' % variant, 'type': '_http._tcp.local.', 'host': 'node0', 'port': 80, 'txt': b'\x03a=1'.hex()}
    svc2 = {'name': 'Other-%d._http._tcp.local.' % variant, 'type': '_http._tcp.local.', 'host': 'node1', 'port': 81, 'txt': ''}
    tb = [3000, 8000, 40000, 3000, 12000, 70000][variant % 6]
    steps = [{'op': 'at', 't': 0}, {'op': 'reg', 'svc': svc}]
    if variant % 2:
        steps += [{'op': 'at', 't': 200}, {'op': 'reg', 'svc': svc2}]
    steps += [{'op': 'at', 't': tb}, {'op': 'host', 'name': 'node2'},
              {'op': 'bstart', 'bid': 1, 'host': 'node2', 'types': ['_http._tcp.local.']},
              {'op': 'at', 't': tb + 16000}, {'op': 'check', 'kind': 'after-registration'},
              {'op': 'at', 't': tb + 16500}, {'op': 'unreg', 'svc': svc},
              {'op': 'at', 't': tb + 19500}, {'op': 'check', 'kind': 'after-withdrawal'}, {'op': 'at', 't': tb + 20000}]
    return {'id': sid, 'seed': 1000 + variant, 'hosts': ['node0', 'node1', 'node2'], 'late_hosts': ['node2'], 'steps': steps, 'fault': {}}


def warm_browser(sid: str, variant: int) -> dict:
    """A browser started long after the announcements on a host that has been on the link all the time: its cache holds the
    pointer at an age below, around and above half its TTL, so the start-up queries list it as known answer or not, and the
    Added callback has to come from the replay of the cache to the new listener."""
    svc = {'name': 'Warm-%d._http._tcp.local.' % variant, 'type': '_http._tcp.local.', 'host': 'node0', 'port': 80, 'txt': b'\x03a=1'.hex()}
    tb = [1000000, 2249000, 2251000, 2400000, 3300000, 4000000][variant % 6]
    steps = [{'op': 'at', 't': 0}, {'op': 'reg', 'svc': svc},
             {'op': 'at', 't': tb}, {'op': 'bstart', 'bid': 1, 'host': 'node1', 'types': ['_http._tcp.local.']},
             {'op': 'at', 't': tb + 16000}, {'op': 'check', 'kind': 'after-registration'},
             {'op': 'at', 't': tb + 16500}, {'op': 'unreg', 'svc': svc},
             {'op': 'at', 't': tb + 19500}, {'op': 'check', 'kind': 'after-withdrawal'}, {'op': 'at', 't': tb + 20000}]
    return {'id': sid, 'seed': 3000 + variant, 'hosts': ['node0', 'node1'], 'steps': steps, 'fault': {}}


def churn(sid: str, variant: int) -> dict:
    """A service that is registered while a browser is in its start-up phase and withdrawn as soon as its announcements are
    out.  With a slow path from the responder (plans), a start-up query crosses the first announcement: it reaches the responder
    within a second of the announcement without listing the instance as known, so its answer is held by the one-second
    protection and is still queued when the service is unregistered."""
    svc = {'name': 'Churn-%d._http._tcp.local.' % variant, 'type': '_http._tcp.local.', 'host': 'node0', 'port': 80, 'txt': b'\x03a=1'.hex()}
    r = 350 + 50 * (variant % 8)                   # announcements start at r + 525: 875 .. 1225, the second start-up query at 1020 .. 1120
    tu = r + 525 + 450 + 30
    steps = [{'op': 'at', 't': 0}, {'op': 'bstart', 'bid': 1, 'host': 'node1', 'types': ['_http._tcp.local.']},
             {'op': 'at', 't': r}, {'op': 'reg', 'svc': svc},
             {'op': 'at', 't': tu}, {'op': 'unreg', 'svc': svc},
             {'op': 'at', 't': tu + 3200}, {'op': 'check', 'kind': 'after-withdrawal'}, {'op': 'at', 't': tu + 3700}]
    return {'id': sid, 'seed': 2000 + variant, 'hosts': ['node0', 'node1'], 'steps': steps, 'fault': {},
            'plans': [{'from_delay': {'node0': 100}}, {'from_delay': {'node0': 60}, 'max_delay': 30}]}


def long_lived(sid: str, variant: int) -> dict:
    """Two services that stay registered for hours, one with the default 75-minute pointer, one with a short TTL (raised to the
    1125 s floor in the caches) that is learned later: the browser has to keep both alive with its refresh queries -- checked after
    the short one's first TTL and after the long one's."""
    a = {'name': 'Long-%d._http._tcp.local.' % variant, 'type': '_http._tcp.local.', 'host': 'node0', 'port': 80, 'txt': ''}
    b = {'name': 'Short-%d._http._tcp.local.' % variant, 'type': '_http._tcp.local.', 'host': 'node0', 'port': 81, 'txt': '',
         'other_ttl': [120, 600, 1125][(variant // 3) % 3]}
    tb = [60000, 20000, 400000][variant % 3]
    steps = [{'op': 'at', 't': 0}, {'op': 'reg', 'svc': a}, {'op': 'at', 't': 100},
             {'op': 'bstart', 'bid': 1, 'host': 'node1', 'types': ['_http._tcp.local.']},
             {'op': 'at', 't': tb}, {'op': 'reg', 'svc': b},
             {'op': 'at', 't': tb + 30000}, {'op': 'check', 'kind': 'after-registration'},
             {'op': 'at', 't': tb + 1400000}, {'op': 'check', 'kind': 'after-registration'},
             {'op': 'at', 't': 4800000}, {'op': 'check', 'kind': 'after-registration'},
             {'op': 'at', 't': 4800500}, {'op': 'unreg', 'svc': b},
             {'op': 'at', 't': 4803500}, {'op': 'check', 'kind': 'after-withdrawal'}, {'op': 'at', 't': 4804000}]
    return {'id': sid, 'seed': 6000 + variant, 'hosts': ['node0', 'node1'], 'steps': steps, 'fault': {}, 'no_lookup': False, 'no_drops': True}


def relearned(sid: str, variant: int) -> dict:
    """A service that is withdrawn and registered again a few seconds later (its new pointer reaches the browser within seconds of
    the old one), then stays for more than one pointer TTL with nothing else happening: still reported after 80 minutes."""
    a = {'name': 'Again-%d._http._tcp.local.' % variant, 'type': '_http._tcp.local.', 'host': 'node0', 'port': 80, 'txt': ''}
    gap = [1000, 4000, 9000][variant % 3]
    steps = [{'op': 'at', 't': 0}, {'op': 'bstart', 'bid': 1, 'host': 'node1', 'types': ['_http._tcp.local.']},
             {'op': 'at', 't': 20000}, {'op': 'reg', 'svc': a},
             {'op': 'at', 't': 24000}, {'op': 'unreg', 'svc': a},
             {'op': 'at', 't': 24000 + gap}, {'op': 'reg', 'svc': a},
             {'op': 'at', 't': 60000}, {'op': 'check', 'kind': 'after-registration'},
             {'op': 'at', 't': 3500000}, {'op': 'check', 'kind': 'after-registration'},
             {'op': 'at', 't': 4830000}, {'op': 'check', 'kind': 'after-registration'},
             {'op': 'at', 't': 9400000}, {'op': 'check', 'kind': 'after-registration'}, {'op': 'at', 't': 9401000}]
    return {'id': sid, 'seed': 6100 + variant, 'hosts': ['node0', 'node1'], 'steps': steps, 'fault': {}, 'no_lookup': True, 'no_drops': True}


def short_ttl(sid: str, variant: int) -> dict:
    """A service whose records are announced with a TTL of a few seconds (a quarter of it is shorter than the browser's query
    spacing): the pointer is held at the 1125 s floor by its peers and refreshed like any other."""
    a = {'name': 'Brief-%d._http._tcp.local.' % variant, 'type': '_http._tcp.local.', 'host': 'node0', 'port': 80, 'txt': '',
         'other_ttl': [15, 30, 38][variant % 3]}
    steps = [{'op': 'at', 't': 0}, {'op': 'bstart', 'bid': 1, 'host': 'node1', 'types': ['_http._tcp.local.']},
             {'op': 'at', 't': 20000}, {'op': 'reg', 'svc': a},
             {'op': 'at', 't': 80000}, {'op': 'check', 'kind': 'after-registration'},
             {'op': 'at', 't': 400000}, {'op': 'check', 'kind': 'after-registration'},
             {'op': 'at', 't': 1400000}, {'op': 'check', 'kind': 'after-registration'}, {'op': 'at', 't': 1401000}]
    return {'id': sid, 'seed': 6200 + variant, 'hosts': ['node0', 'node1'], 'steps': steps, 'fault': {}, 'no_lookup': True, 'no_drops': True}


def raising_callback(sid: str, variant: int) -> dict:
    """Three services of one host and type; a host that joins later learns them from one reply (one batch of callbacks) and one of
    its Added callbacks raises, once.  The browser must still end up reporting all of them (it may report some twice)."""
    svcs = [{'name': '%s-%d._http._tcp.local.' % (n, variant), 'type': '_http._tcp.local.', 'host': 'node0', 'port': 80 + k, 'txt': ''}
            for k, n in enumerate(['alpha', 'beta', 'gamma'])]
    tb = [3000, 9000, 40000][variant % 3]
    steps: list = []
    for k, sv in enumerate(svcs):
        steps += [{'op': 'at', 't': 50 * k}, {'op': 'reg', 'svc': sv}]
    steps += [{'op': 'at', 't': tb}, {'op': 'host', 'name': 'node1'},
              {'op': 'bstart', 'bid': 1, 'host': 'node1', 'types': ['_http._tcp.local.'], 'raise_at': 1 + (variant // 3) % 3},
              {'op': 'at', 't': tb + 125000}, {'op': 'check', 'kind': 'after-registration'},
              {'op': 'at', 't': tb + 125500}, {'op': 'unreg', 'svc': svcs[1]},
              {'op': 'at', 't': tb + 128500}, {'op': 'check', 'kind': 'after-withdrawal'}, {'op': 'at', 't': tb + 129000}]
    return {'id': sid, 'seed': 5000 + variant, 'hosts': ['node0', 'node1'], 'late_hosts': ['node1'], 'steps': steps, 'fault': {}}


def busy_responder(sid: str, variant: int) -> dict:
    """A responder with two services of two types on a link with other queriers (not library instances: their questions arrive
    exactly when the scenario says): two questions for the first service a few milliseconds apart, the service withdrawn while
    their answers wait in the aggregation queue, a question for the second service just before the 500 ms limit of the first.
    A host that joins later must still learn the second service -- also when the unicast reply to its first question is the
    datagram that is lost (every single loss is enumerated)."""
    a = {'name': 'Copier-%d._http._tcp.local.' % variant, 'type': '_http._tcp.local.', 'host': 'node0', 'port': 80, 'txt': b'\x03a=1'.hex()}
    b = {'name': 'Flatbed-%d._ipp._tcp.local.' % variant, 'type': '_ipp._tcp.local.', 'host': 'node0', 'port': 631, 'txt': ''}
    d1 = [2, 5, 30][variant % 3]
    du = [100, 200, 300][(variant // 3) % 3]
    d3 = [470, 481, 490, 495][(variant // 9) % 4]
    t0 = 5000
    steps = [{'op': 'at', 't': 0}, {'op': 'reg', 'svc': a}, {'op': 'at', 't': 100}, {'op': 'reg', 'svc': b},
             {'op': 'at', 't': t0}, {'op': 'inject', 'host': 'node0', 'qs': [[a['type'], wire.T_PTR]], 'src': '10.0.0.98'},
             {'op': 'at', 't': t0 + d1}, {'op': 'inject', 'host': 'node0', 'qs': [[a['name'], wire.T_TXT]], 'src': '10.0.0.99'},
             {'op': 'at', 't': t0 + du}, {'op': 'unreg', 'svc': a},
             {'op': 'at', 't': t0 + d3}, {'op': 'inject', 'host': 'node0', 'qs': [[b['type'], wire.T_PTR]], 'src': '10.0.0.98'},
             {'op': 'at', 't': t0 + 4000}, {'op': 'host', 'name': 'node1'},
             {'op': 'bstart', 'bid': 1, 'host': 'node1', 'types': [b['type'], a['type']]},
             {'op': 'at', 't': t0 + 20000}, {'op': 'check', 'kind': 'after-registration'}, {'op': 'at', 't': t0 + 20500}]
    return {'id': sid, 'seed': 4000 + variant, 'hosts': ['node0', 'node1'], 'late_hosts': ['node1'], 'steps': steps, 'fault': {},
            'rand': [None, 'lo', 'hi'][(variant // 36) % 3], 'all_drops': True}


def run(ctx: Ctx) -> None:
    # the synchronous API from application threads, two blocking instances, real time (props/syncapi.py, Trace_SyncApi.tla)
    from props import syncapi
    syncapi.run(ctx, 'C07')
    rng = random.Random(ctx.seed * 7919 + 7)
    base = [late_browser('c07-late-%d' % k, k) for k in range(ctx.pick(2, 6))]
    base += [churn('c07-churn-%d' % k, k) for k in range(ctx.pick(8, 16))]
    base += [warm_browser('c07-warm-%d' % k, k) for k in range(ctx.pick(6, 12))]
    base += [raising_callback('c07-raise-%d' % k, k) for k in range(ctx.pick(6, 9))]
    base += [long_lived('c07-long-%d' % k, k) for k in range(ctx.pick(3, 9))]
    base += [relearned('c07-again-%d' % k, k) for k in range(3)] + [short_ttl('c07-brief-%d' % k, k) for k in range(3)]
    nb = ctx.pick(18, 108)
    base += [busy_responder('c07-busy-%d' % k, (k * 7) % 108 if not ctx.thorough else k) for k in range(nb)]
    base += [lf.gen_link(rng, 'c07-%d' % k, ctx.thorough) for k in range(ctx.pick(10, 300))]
    from props import linkmodel as lm
    # binding 1: the design-level model of discovery on a lossy link (one and two losses are tolerated, three are not, and one
    # is not when a single goodbye is sent)
    info = lm.check_models(ctx)
    ctx.log('Link model: %d distinct states; convergence holds for 1 and 2 lost datagrams; %s'
            % (info['model_distinct'], info['defect_config_violates']))
    # binding 2: every behaviour of its replay configuration (browser start x unregistration x lost datagram) on real instances
    mscs, predicted = lm.model_scenarios(ctx)
    traces = run_scenarios(ctx, base, ctx.pick(40, 0), ctx.pick(2, 3), mscs)
    d = lm.drift(traces, predicted)
    for x in d[:5]:
        print('MODEL-DRIFT property=C07 scenario=%s real callbacks %s, model predicts %s (evidence, not a verdict: the exhaustively '
              'checked model Link.tla no longer describes discovery between two instances)' % (x['scenario'], x['real'], x['model']))
    ctx.coverage.update(info)
    ctx.coverage.update({'model_behaviours_replayed': len(mscs), 'model_drift': len(d), 'model_drift_samples': d[:3],
                         'model_constants': '1 responder, 1 browsing host joining at 10-11 instants, unregistration at 7-8 instants or '
                                            'never, up to 1 (replay) / 2 (exhaustive) lost datagrams of any kind (announcement, answer, '
                                            'unicast reply, query, goodbye)'})
    ctx.log('model behaviours replayed on real instances: %d, drift: %d' % (len(mscs), len(d)))


def replay(ctx: Ctx, path: str) -> None:
    import json
    sc = json.load(open(path))['replay']['scenario']
    traces = trace_run.record_all('props.linkfam', 'Recorder', [sc], 1)
    verdicts, _, _ = trace_run.validate('Trace_Link', [{'id': t['id'], 'events': t['events']} for t in traces], {}, batch=10, par=1)
    trace_run.triage(ctx, 'C07', [sc], traces, verdicts, disc07)
    ctx.coverage.update({'evaluations': 1, 'distinct_nontrivial': 2, 'rule': 'replay', 'samples': [sc['id']]})
