"""The lifetime predicates of a record (expired / stale / recent / remaining TTL / percentage points / known-answer suppression)
evaluated on the real DNSRecord objects over a grid around every boundary and judged by TLC against spec/Ttl.tla
(Oracle_Ttl.tla).  Each property's check evaluates the clause that belongs to it."""
from __future__ import annotations

from typing import Any, Dict, List

from vf import tlc
from vf.core import Ctx, Machinery

TTLS = [0, 1, 2, 3, 4, 10, 30, 75, 119, 120, 150, 1125, 4500]
CS = [0, 1000, 123456]


def cases() -> List[dict]:
    from vf import simnet            # (patches the library clock; records below get explicit creation times)
    from zeroconf import DNSPointer
    out = []
    with simnet.fixed_clock(5.0):
        for ttl in TTLS:
            for c in CS:
                marks = sorted({c + (p * ttl * 1000) // 100 + d for p in (0, 25, 50, 75, 85, 95, 100) for d in (-1, 0, 1)} | {c + 250 * ttl + 500})
                for now in marks:
                    if now < 0:
                        continue
                    r = DNSPointer('_http._tcp.local.', 12, 1, ttl, 'x._http._tcp.local.', float(c) if c else 0.0)
                    if c == 0:
                        r.set_created_ttl(0.0, ttl)          # (created = 0.0 at construction means "now" to the library)
                    rem = r.get_remaining_ttl(float(now))
                    out.append({'c': c, 'ttl': ttl, 'now': now, 'expired': bool(r.is_expired(float(now))), 'stale': bool(r.is_stale(float(now))),
                                'recent': bool(r.is_recent(float(now))), 'remaining': int(round(rem * 1000)),
                                'pcts': [[p, int(round(r.get_expiration_time(p)))] for p in (50, 75, 85, 95, 100)]})
    return out


def sup_cases() -> List[dict]:
    from vf import simnet
    from zeroconf import DNSPointer
    from zeroconf._dns import DNSRRSet
    out = []
    with simnet.fixed_clock(5.0):
        for own in (1, 2, 3, 10, 75, 120, 4500):
            for known in sorted({0, 1, own // 2 - 1, own // 2, own // 2 + 1, (own + 1) // 2, own, own + 1}):
                if known < 0:
                    continue
                mine = DNSPointer('_http._tcp.local.', 12, 1, own, 'x._http._tcp.local.', 1.0)
                ka = DNSPointer('_HTTP._tcp.local.', 12, 1, known, 'X._http._tcp.local.', 1.0)
                out.append({'own': own, 'known': known, 'rec': bool(mine._suppressed_by_answer(ka)), 'rrset': bool(DNSRRSet([ka]).suppresses(mine))})
    return out


def run(ctx: Ctx, own: str) -> None:
    cs = cases()
    sp = sup_cases()
    res = tlc.run_oracle('Oracle_Ttl', 'Oracle_Ttl', {'own': own, 'cases': cs, 'sup': sp}, 'ttl')
    judged = [i for i in res['infos'] if len(i) > 2 and i[1] == 'cases']
    if not judged or judged[0][2] != len(cs):
        raise Machinery('Oracle_Ttl judged %r of %d cases' % (judged, len(cs)))
    n = 0
    for v in res['verdicts']:
        i, clause = v[1], v[3]
        x = cs[i - 1] if i <= len(cs) else sp[i - 1 - len(cs)]
        n += 1
        ctx.report('%s/boundary' % clause, '%s: the library and spec/Ttl.tla disagree on %s' % (clause, x), {'ttl_case': x})
    ctx.coverage.update({'ttl_predicate_cases': len(cs), 'ttl_suppression_cases': len(sp), 'ttl_predicate_rejections': n})
    ctx.log('lifetime predicates: %d grid cases + %d suppression pairs judged by TLC, %d rejected' % (len(cs), len(sp), n))
