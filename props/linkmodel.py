"""Bindings 1 and 2 for end-to-end discovery (C07): spec/Link.tla (one responder, one browsing host, a link that loses up to
LossBudget datagrams) is explored exhaustively -- convergence holds with one and with two lost datagrams, fails with three,
and fails with one when only a single goodbye is sent -- and every behaviour of the replay configuration (browser start
instant x unregistration instant x which datagram is lost) is replayed on two real instances; the browser callbacks
(kind, instant) are compared with the model's."""
from __future__ import annotations

import re
from typing import Any, Dict, List, Tuple

from props import schedmodel as sm
from vf import tlc
from vf.core import Ctx, Machinery

SVC = {'name': 'Model._http._tcp.local.', 'type': '_http._tcp.local.', 'host': 'node0', 'port': 80, 'txt': b'\x03a=1'.hex()}
REG_AT = 0


def behaviours(cfg: str) -> List[tuple]:
    r = tlc.model_check('Link', cfg, workers=1, coverage=False, timeout=1800)
    if not r['ok']:
        raise Machinery('Link/%s: TLC reports %s' % (cfg, r['violated']))
    res = set()
    for m in re.finditer(r'<<\s*"BEHAVIOUR",', r['out']):
        val = tlc._tla_to_py(' '.join(sm._balanced(r['out'], m.start()).split()))
        if not isinstance(val, list) or len(val) != 5:
            raise Machinery('cannot parse BEHAVIOUR value: %r' % (val,))
        res.add((val[1], val[2], tuple((d['k'], d['t']) for d in val[3]), tuple((c['k'], c['t']) for c in val[4])))
    return sorted(res)


def to_scenario(sid: str, b0: int, unreg: int, dropped: tuple, horizon: int) -> dict:
    evs: List[Tuple[int, int, dict]] = [(REG_AT, 0, {'op': 'reg', 'svc': SVC}),
                                        (b0, 1, {'op': 'host', 'name': 'node1'}),
                                        (b0, 2, {'op': 'bstart', 'bid': 1, 'host': 'node1', 'types': [SVC['type']]})]
    since = max(b0, REG_AT + 350)
    real_unreg = max(unreg, REG_AT + 850) if unreg >= 0 else -1
    if real_unreg < 0 or real_unreg > since + 16000:
        evs.append((since + 16000, 4, {'op': 'check', 'kind': 'after-registration'}))
    if real_unreg >= 0:
        evs.append((real_unreg, 3, {'op': 'unreg', 'svc': SVC}))
        evs.append((real_unreg + 3000, 4, {'op': 'check', 'kind': 'after-withdrawal'}))
    evs.sort(key=lambda x: (x[0], x[1]))
    steps: List[dict] = []
    for (t, _, st) in evs:
        steps += [{'op': 'at', 't': t}, st]
    steps.append({'op': 'at', 't': horizon})
    dm = [{'from': 'node1' if k == 'q' else 'node0', 't': t, 'kind': k} for (k, t) in dropped]
    return {'id': sid, 'seed': 1, 'hosts': ['node0', 'node1'], 'late_hosts': ['node1'], 'steps': steps, 'rand': 'lo',
            'no_lookup': True, 'fault': {'drop_match': dm}, 'model': True}


def check_models(ctx: Ctx) -> Dict[str, Any]:
    r = tlc.model_check('Link', 'MC_Link', workers=16, timeout=1200)
    r2 = tlc.model_check('Link', 'MC_Link_two_losses', workers=16, timeout=1200, coverage=False)
    if not r['ok'] or not r2['ok']:
        raise Machinery('Link model: TLC reports %s / %s violated' % (r['violated'], r2['violated']))
    d1 = tlc.model_check('Link', 'MC_Link_one_goodbye', workers=16, timeout=600, coverage=False)
    d3 = tlc.model_check('Link', 'MC_Link_three_losses', workers=16, timeout=600, coverage=False)
    if d1['ok'] or d1['violated'] != 'RemovedInTime' or d3['ok']:
        raise Machinery('Link model: the one-goodbye and the three-losses configurations must violate the contract '
                        '(got %s / %s)' % (d1['violated'], d3['violated']))
    never = sorted(a for a in ('Announce', 'Join', 'Query', 'Answer', 'Unregister', 'Bye', 'Tick') if r['actions'].get(a, 0) == 0)
    if never:
        raise Machinery('Link model: actions never taken: %s' % never)
    return {'model': 'Link', 'model_states': r['states'] + r2['states'], 'model_distinct': r['distinct'] + r2['distinct'],
            'model_depth': r['depth'], 'model_actions': r['actions'],
            'defect_config_violates': 'one goodbye: %s; three losses: %s' % (d1['violated'], d3['violated'])}


def model_scenarios(ctx: Ctx) -> Tuple[List[dict], Dict[str, Any]]:
    predicted: Dict[str, Any] = {}
    scs: List[dict] = []
    by_env: Dict[tuple, List[tuple]] = {}
    for b0, unreg, dropped, cbs in behaviours('MC_Link_replay'):
        by_env.setdefault((b0, unreg, dropped), []).append(cbs)
    items = sorted(by_env.items())
    if not ctx.thorough:
        items = items[::3]
    for k, ((b0, unreg, dropped), outs) in enumerate(items):
        sid = 'c07-model-%d' % k
        scs.append(to_scenario(sid, b0, unreg, dropped, 30000))
        predicted[sid] = [[list(c) for c in cbs] for cbs in outs]
    return scs, predicted


def drift(traces: List[dict], predicted: Dict[str, Any]) -> List[dict]:
    out = []
    for tr in traces:
        want = predicted.get(tr['id'])
        if want is None:
            continue
        real = [[e['kind'], e['t']] for e in tr['events'] if e['ev'] == 'cb' and e['kind'] in ('add', 'rem')]
        if real not in want:
            out.append({'scenario': tr['id'], 'real': real, 'model': want[0]})
    return out
