"""C16 -- back-to-back duplicate datagrams change nothing (metamorphic: reference run vs duplicated run,
stepped through in lockstep by Trace_Dup.tla)."""
from __future__ import annotations

import json
import multiprocessing as mp
import random
from typing import Any, Dict, List, Tuple

from props import respfam as rf
from props import trace_run
from vf import wire
from vf.core import Ctx, Machinery

REMOTE = {'type': '_http._tcp.local.', 'name': 'Remote._http._tcp.local.', 'host': 'remote.local.'}


def remote_recs(rng: random.Random) -> List[dict]:
    ttl_p = rng.choice([4500, 4500, 120, 0, 1125])
    ttl_h = rng.choice([120, 120, 0, 60])
    pool = [
        {'rec': [REMOTE['type'], wire.T_PTR, 1, REMOTE['name']], 'ttl': ttl_p},
        {'rec': [REMOTE['name'], wire.T_SRV, 1, [0, 0, rng.choice([80, 81]), REMOTE['host']]], 'ttl': ttl_h, 'fl': rng.random() < 0.8},
        {'rec': [REMOTE['name'], wire.T_TXT, 1, rng.choice([b'\x03a=1', b'\x03a=2']).hex()], 'ttl': ttl_p, 'fl': rng.random() < 0.8},
        {'rec': [REMOTE['host'], wire.T_A, 1, rng.choice(['0a000032', '0a000033'])], 'ttl': ttl_h, 'fl': rng.random() < 0.8},
    ]
    k = rng.choice([1, 2, 4, 4])
    return rng.sample(pool, k) if k < 4 else pool


def gen_c16(rng: random.Random, sid: str, thorough: bool) -> dict:
    sc = rf.gen_resp(rng, sid, rng.choice(['c11', 'c12', 'c03']), thorough)
    # (no raising listeners here: which of two listeners is called first depends on the iteration order of a set of objects,
    # which differs between the two runs that are compared)
    steps = [st for st in sc['steps'] if not (st['op'] == 'ladd' and st.get('raise_every'))]
    out: List[dict] = []
    placed = False
    for st in steps:
        out.append(st)
        if not placed and st['op'] == 'at' and st['t'] >= 400:
            out += [{'op': 'ladd'}, {'op': 'bstart', 'types': ['_http._tcp.local.'], 'delay': 10000}]
            placed = True
        if st['op'] == 'at' and rng.random() < 0.08:
            # a truncated query with a QU question (exempt from the duplicate guard): its copy meets the hold of the first
            regs = [x['svc'] for x in steps if x['op'] == 'reg']
            if regs:
                sp = rng.choice(regs)
                out.append({'op': 'query', 'qs': [{'name': sp['type'], 'type': wire.T_PTR, 'sp': rng.randint(0, 2), 'qu': True}], 'tc': True,
                            'qid': rng.randint(0, 65535), 'src': rng.choice(['10.0.0.9', '10.0.0.23']), 'known': []})
        if st['op'] == 'at' and rng.random() < 0.08:
            # a query that mixes a QU question with one QM question of a type that is answered at once when asked alone
            regs = [x['svc'] for x in steps if x['op'] == 'reg']
            if regs:
                sp = rng.choice(regs)
                qm = rng.choice([{'name': sp['host'], 'type': wire.T_A}, {'name': sp['name'], 'type': wire.T_SRV}, {'name': sp['host'], 'type': wire.T_AAAA}])
                out.append({'op': 'query', 'qs': [{'name': sp['type'], 'type': wire.T_PTR, 'sp': 0, 'qu': True}, dict(qm, sp=rng.randint(0, 2), qu=False)],
                            'qid': 0, 'src': rng.choice(['10.0.0.9', '10.0.0.23']), 'known': []})
        if st['op'] == 'at' and rng.random() < 0.25:
            out.append({'op': 'resp', 'recs': remote_recs(rng)})
            if rng.random() < 0.2:
                out[-1]['echo_qu'] = True        # a response that echoes a question with the unicast-response bit
    # the very same datagram again after the one-second window (a client polling with an identical query, a periodic
    # identical announcement): the later steps move back by the gap
    rep: List[dict] = []
    shift = 0
    tcur = 0
    for st in out:
        if st['op'] == 'at':
            tcur = st['t'] + shift
            rep.append({'op': 'at', 't': tcur})
            continue
        rep.append(st)
        if st['op'] in ('query', 'resp') and not st.get('tc') and rng.random() < 0.2:
            for _ in range(rng.choice([1, 2])):
                gap = rng.choice([1001, 1200, 2000, 5000])
                shift += gap
                tcur += gap
                rep += [{'op': 'at', 't': tcur}, json.loads(json.dumps(st))]
    regs = [x['svc'] for x in rep if x['op'] == 'reg' and not x.get('refused')]
    gone = {x.get('sid') for x in rep if x['op'] in ('unreg',)}
    closed = any(x['op'] in ('close', 'unreg_all') for x in rep)
    live = [sp for sp in regs if sp['sid'] not in gone]
    if live and not closed and rng.random() < 0.35:
        # long after registration (the records of the description are older than a quarter of their TTL), a record is multicast in
        # answer to a QM question and, a few seconds later, asked for with a QU question from port 5353: recently multicast, so the
        # answer is unicast alone -- for the copy as well
        sp = rng.choice(live)
        tend = max([x['t'] for x in rep if x['op'] == 'at'] or [0]) + rng.choice([35000, 130000])
        what = rng.choice([(sp['name'], wire.T_SRV), (sp['type'], wire.T_PTR), (sp['name'], wire.T_TXT)])
        rep += [{'op': 'at', 't': tend}, {'op': 'query', 'qs': [{'name': what[0], 'type': what[1], 'sp': 0, 'qu': False}], 'qid': 0, 'src': '10.0.0.9', 'known': []},
                {'op': 'at', 't': tend + rng.choice([1500, 3000, 6000])},
                {'op': 'query', 'qs': [{'name': what[0], 'type': what[1], 'sp': rng.randint(0, 2), 'qu': True}], 'qid': 0, 'src': '10.0.0.23', 'known': []},
                {'op': 'at', 't': tend + 9000}]
    sc['steps'] = rep
    for s in sc['steps']:
        s.pop('copies', None)
        # question classes other than IN (the library answers them like IN): only here, where two executions are compared and
        # no contract has to say what the answer should be
        if s['op'] == 'query' and rng.random() < 0.15:
            for q in s['qs']:
                if not q.get('qu') and rng.random() < 0.7:
                    q['cls'] = rng.choice([255, 255, 3, 254])
    # socket layouts: one IPv4 socket, listen + respond sockets, or the dual-stack set (IPv6 listen socket reporting 4-tuple
    # addresses; peers then are IPv6 hosts or IPv4 hosts seen as v4-mapped addresses)
    sc['layout'] = rng.choice(['single', 'split', 'dual', 'dual'])
    sc['v6src'] = sc['layout'] == 'dual' and rng.random() < 0.7
    # the copy follows in the same instant or a few milliseconds later (nothing else is delivered in between)
    sc['dup_gap'] = rng.choice([0, 0, 1, 3, 40])
    sc['debug_log'] = rng.random() < 0.3
    return sc


RAND_SITES = ('tc',)          # (the copy of a query with a QU question is answered again -- finding D9 -- and draws at 'resp' for it)


def obs(tr: dict, sigs: Dict[str, int]) -> List[dict]:
    out = []
    for e in tr['events']:
        if e['ev'] == 'send':
            body = json.dumps([e.get('bad'), e.get('dst'), e.get('port'), e.get('sock'), e.get('id'), e.get('flags'), e.get('qs'),
                               e.get('an'), e.get('ns'), e.get('ar'), e.get('len')])
            body2 = json.dumps([e.get('bad'), e.get('dst'), e.get('port'), e.get('sock'), e.get('flags'), e.get('qs'),
                                e.get('an'), e.get('ns'), e.get('ar'), e.get('len')])          # the same without the message id
            out.append({'k': 'send', 't': e['t'], 'mc': bool(e.get('mc')), 'sig': sigs.setdefault(body, len(sigs) + 1),
                        'sig2': sigs.setdefault(body2, len(sigs) + 1)})
        elif e['ev'] == 'cb':
            body = json.dumps(['cb', e['kind'], e['ty'], e['name']])
            out.append({'k': 'cb', 't': e['t'], 'mc': False, 'sig': sigs.setdefault(body, len(sigs) + 1), 'sig2': 0})
        elif e['ev'] == 'lcall':
            out.append({'k': 'lc', 't': e['t'], 'mc': False, 'sig': e['n'], 'sig2': 0})
        elif e['ev'] == 'exc':
            out.append({'k': 'exc', 't': e['t'], 'mc': False, 'sig': 0, 'sig2': 0})
        elif e['ev'] == 'rand' and e.get('site') in RAND_SITES:
            # a draw from the process-wide random generator: it decides every later delay, so consuming one is an effect
            out.append({'k': 'rand', 't': e['t'], 'mc': False, 'sig': 1 if e['site'] == 'tc' else 2, 'sig2': 0})
    return out


def record_pair(job: Tuple[dict, Any]) -> dict:
    sc, mode = job
    it = rf.Interner()
    ref_sc = dict(sc)
    ref_sc['_interner'] = it
    ref = rf.Recorder(ref_sc).run()
    dup_sc = dict(sc)
    dup_sc['_interner'] = it
    dup_sc['dup'] = mode
    dup = rf.Recorder(dup_sc).run()
    sigs: Dict[str, int] = {}
    mcs = [[e['t'], [[a[0], a[1], a[2] if len(a) > 2 else 0] for a in e.get('an', [])]] for e in dup['events']
           if e['ev'] == 'send' and e.get('mc') and e.get('resp') and not e.get('bad')]
    echo = [e['t'] for e in dup['events'] if e['ev'] == 'recv' and e.get('resp') and not e.get('bad') and any(q[2] for q in e.get('qs', []))]
    return {'id': '%s/%s' % (sc['id'], mode), 'ref': obs(ref, sigs), 'dup': obs(dup, sigs), 'mcs': mcs, 'echo': echo,
            'qudups': [{'t': t, 'tc': tc} for (t, tc) in sorted({(d['t'], d['tc']) for d in dup['dups'] if d['qu']})],
            'quprobes': sorted({d['t'] for d in dup['dups'] if d['qu'] and (d.get('legacy') or d.get('probe'))}),
            # (AAAA records heard on an IPv6 socket never equal the host's own: no recency for them, finding D22)
            'norecency': sorted({x['id'] for x in it.table if x['type'] == 28}) if sc.get('layout') == 'dual' else [],
            'rrof': {str(x['id']): x['rr'] for x in it.table},
            # mixed queries (QU and QM questions, no authority section, from port 5353): their QM answers go through the aggregation
            # queue, which holds each record once -- a multicast of them at the instant of the copy is not what D9 doubles
            'mixed': [{'t': d['t'], 'qm': [[q[0], q[1]] for q in d.get('qs', []) if not q[2]], 'quq': [[q[0], q[1]] for q in d.get('qs', []) if q[2]]}
                      for d in dup['dups'] if d['qu'] and not d.get('legacy') and not d.get('tc') and len(d.get('qs', [])) >= 2 and any(not q[2] for q in d['qs'])],
            'recinfo': {str(x['id']): [x['nb'], x['type']] for x in it.table},
            'ndups': len(dup['dups']),
            'n_inj': ref.get('events') and sum(1 for e in ref['events'] if e['ev'] == 'recv' and e.get('inj')) or 0,
            'sc': sc['id'], 'mode': mode}


def run_pairs(ctx: Ctx, jobs: List[Tuple[dict, Any]]) -> None:
    if len(jobs) >= 32:
        with mp.get_context('fork').Pool(16 if ctx.thorough else 8) as pool:
            pairs = pool.map(record_pair, jobs, chunksize=4)
    else:
        pairs = [record_pair(j) for j in jobs]
    ctx.log('recorded %d pairs of executions' % len(pairs))
    slim = [{'id': p['id'], 'ref': p['ref'], 'dup': p['dup'], 'qudups': p['qudups']} for p in pairs]
    # Trace_Dup uses field names ref/dup instead of events: validate() only needs 'traces'
    from concurrent.futures import ThreadPoolExecutor
    from vf import tlc
    batches = [slim[k:k + 300] for k in range(0, len(slim), 300)]
    with ThreadPoolExecutor(max_workers=4) as ex:
        results = list(ex.map(lambda b: tlc.run_oracle('Trace_Dup', 'Trace_Dup', {'traces': b}, 'dup'), batches))
    verdicts = [v for r in results for v in r['verdicts']]
    if len(verdicts) != len(pairs):
        raise Machinery('TLC returned %d verdicts for %d pairs' % (len(verdicts), len(pairs)))
    by_id = {p['id']: p for p in pairs}
    sc_by = {j[0]['id']: j[0] for j in jobs}
    accepted = 0
    clause_counts: Dict[str, int] = {}
    for v in verdicts:
        _, pid, ok, clause, pos = v[:5]
        if ok:
            accepted += 1
            continue
        clause_counts[clause] = clause_counts.get(clause, 0) + 1
        p = by_id[pid]
        d = p['dup'][pos - 1] if 0 < pos <= len(p['dup']) else None
        disc = 'plain'
        tdiv = d['t'] if d is not None else None
        if clause == 'C16_NoExtraMulticast' and d is not None and d['t'] in [q['t'] for q in p['qudups']]:
            disc = 'extra-multicast-at-duplicated-qu-query'
            # finding D9 is about answers that were *due* by multicast and went out twice.  When every record of the doubled
            # multicast had been multicast within a quarter of its TTL before that instant, the QU question should have been
            # answered by unicast alone -- twice, which is permitted -- and there is nothing D9 could have doubled
            here = [m for m in p['mcs'] if m[0] == d['t']]
            rids = {a[0]: a[1] for m in here for a in m[1] if a[1] > 0}
            # (a quarter of the TTL the record has *now* -- an update may have shortened it; a second of margin: the cache may have missed
            # a sighting that was byte-identical to the one before it, finding D17)
            # (... since the record was last withdrawn: a goodbye takes it out of the cache, and with it the memory of its sightings)
            bye = {r: max([m[0] for m in p['mcs'] for a in m[1] if a[0] == r and a[1] == 0 and m[0] < d['t']] or [-1]) for r in rids}
            recent = {r for r in rids if any(bye[r] < m[0] < d['t'] and d['t'] - m[0] < 250 * rids[r] - 1000
                                             for m in p['mcs'] for a in m[1] if a[0] == r and a[1] > 0)}
            # (... and since it was last flushed out of the host's own cache: a sibling of its rrset multicast alone with the
            # cache-flush bit, more than a second after the record's own last sighting, makes the record expire a second later)
            rrof = p.get('rrof', {})
            for r in list(recent):
                last = max(m[0] for m in p['mcs'] for a in m[1] if a[0] == r and a[1] > 0 and bye[r] < m[0] < d['t'])
                if any(m[0] > last + 1000 and m[0] + 1000 < d['t'] and any(a[0] != r and a[2] and rrof.get(str(a[0])) == rrof.get(str(r)) for a in m[1])
                       and not any(a[0] == r for a in m[1]) for m in p['mcs'] if m[0] < d['t']):
                    recent.discard(r)
            # (the copy of a query from another port than 5353 is answered like the original: by multicast, whatever was multicast
            # within the last quarter of the TTL, and so is the QM part of a probe that mixes QU and QM questions -- D9 again; a probe
            # from port 5353 with QU questions only is subject to the quarter rule, C11)
            # ... and so is an AAAA record on an instance that listens on an IPv6 socket: it is never found recently multicast (D22)
            if rids and recent == set(rids) and d['t'] not in p.get('quprobes', []) and not (set(rids) & set(p.get('norecency', []))):
                disc = 'extra-multicast-of-recently-multicast-records'
            else:
                info = p.get('recinfo', {})

                def answers(r: int, qq: list) -> bool:
                    ri = info.get(str(r))
                    return ri is not None and any(ri[0] == q[0] and (q[1] in (ri[1], 255)) for q in qq)
                for mq in p.get('mixed', []):
                    if mq['t'] == d['t'] and rids and all(answers(r, mq['qm']) and not answers(r, mq['quq']) for r in rids):
                        disc = 'extra-multicast-of-qm-answers'
        elif clause in ('C16_SameListenerCalls', 'C16_NothingLost') and d is not None and d['k'] == 'lc' and d['t'] in p.get('echo', []):
            clause = 'C16_SameListenerCalls'     # (at a tie with another event of the same instant the lockstep names the other side)
            # same cause as D9: a datagram with a QU question -- here a response that echoes one -- is exempt from the guard
            disc = 'response-echoing-a-qu-question-processed-twice'
        elif clause in ('C16_NoExtraMulticast', 'C16_NothingLost') and tdiv is not None and any(tdiv - 1500 <= q['t'] <= tdiv for q in p['qudups']):
            # the copy of a QU query was processed as a whole: its QM answers were queued a second time, which adds a
            # multicast or moves the flush of the aggregation queue
            disc = 'after-duplicated-qu-query'
        what = '%s: first divergence at event #%d of the duplicated run (%s), scenario %s duplicating %s' % (
            clause, pos, json.dumps(d), p['sc'], p['mode'])
        ctx.report('%s/%s' % (clause, disc), what, {'scenario': {k: x for k, x in sc_by[p['sc']].items() if k != '_interner'},
                                                    'mode': p['mode'], 'dup_tail': p['dup'][max(0, pos - 5):pos + 1]})
    cov = ctx.coverage
    cov.update({
        'states': sum(r.get('distinct', 0) for r in results), 'transitions': sum(r.get('states', 0) for r in results),
        'traces_validated_against_impl': 2 * len(pairs), 'evaluations': len(pairs),
        'distinct_nontrivial': sum(1 for p in pairs if p['ndups'] > 0 and len(p['ref']) > 5),
        'rule': 'traffic histories (queries of every kind incl. QU, probes, TC trains, legacy; responses new/refresh/goodbye/flush) '
                'against an instance with registered services, a browser and a record listener; one duplicated run with every '
                'injected datagram doubled, one with every datagram except QU queries doubled, plus one run per datagram index; non-trivial = pairs with at least one duplication and '
                'more than 5 observable events',
        'duplicated_datagrams': sum(p['ndups'] for p in pairs), 'qu_duplicates': sum(len(p['qudups']) for p in pairs),
        'accepted': accepted, 'rejections_by_clause': clause_counts,
        'samples': [{'pair': pairs[0]['id'], 'ref_head': pairs[0]['ref'][:4], 'dup_head': pairs[0]['dup'][:4]}],
    })
    ctx.assumptions += ['identical scripts for both runs: random draws keyed by (call site, virtual instant, ordinal)',
                        'verdict and signature from the first divergence only (later differences cascade)']


def run(ctx: Ctx) -> None:
    rng = random.Random(ctx.seed * 7919 + 16)
    jobs: List[Tuple[dict, Any]] = []
    for k in range(ctx.pick(80, 3000)):
        sc = gen_c16(rng, 'c16-%d' % k, ctx.thorough)
        n_inj = sum(1 for s in sc['steps'] if s['op'] in ('query', 'resp'))
        jobs.append((sc, 'all'))
        jobs.append((sc, 'allnq'))
        idxs = list(range(1, n_inj + 1))
        rng.shuffle(idxs)
        for i in idxs[:ctx.pick(4, 12)]:
            jobs.append((sc, i))
    run_pairs(ctx, jobs)
    # the datagram front end on its own: the model Listener.tla (duplicate guard, truncated trains) explored by TLC, its
    # histories delivered to a real listener and judged by TLC against ListenerContract.tla (clause C16_DuplicateEffect)
    from props import listenermodel
    listenermodel.run(ctx, 'C16')


def replay(ctx: Ctx, path: str) -> None:
    d = json.load(open(path))['replay']
    if 'listener_history' in d:
        from props import listenermodel
        listenermodel.run(ctx, 'C16', [dict(d['listener_history'], id='listener-replay')])
        return
    run_pairs(ctx, [(d['scenario'], d['mode'])])
