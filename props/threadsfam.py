"""The parts of the library that are documented as usable from several threads, under every single pre-emption (vf/preempt.py):
the thread-safe cache accessors against the event-loop thread changing the cache (C05), ServiceInfo.load_from_cache against the
same (C18), ServiceInfo.properties read by two threads (C19), two decoders running at once (C02).  Each schedule gives one history
(state before, operation B, what A and B returned); TLC (spec/Trace_Threads.tla) decides whether the results are those of some
order of the two operations (linearizable) -- an exception in A or B never is."""
from __future__ import annotations

import os
import types
from typing import Any, Callable, Dict, List, Tuple

from vf import preempt, tlc
from vf.core import Ctx, Machinery

TYPE = '_thr._tcp.local.'
INST = 'Unit.' + TYPE
HOST = 'thr-host.local.'


def _scope() -> str:
    import zeroconf
    return os.path.dirname(os.path.abspath(zeroconf.__file__))


def _addr(i: int) -> Any:
    from zeroconf import DNSAddress
    return DNSAddress(HOST, 1, 1, 120, bytes([10, 0, 0, i]), created=1000.0)


def _srv(i: int, host: str = HOST) -> Any:
    from zeroconf import DNSService
    return DNSService(INST, 33, 1, 120, 0, 0, 8000 + i, host, 1000.0)


def _txt(i: int) -> Any:
    from zeroconf import DNSText
    return DNSText(INST, 16, 1, 4500, b'\x03v=' + bytes([48 + i]), 1000.0)


def _nsec() -> Any:
    from zeroconf import DNSNsec
    return DNSNsec(INST, 47, 1, 4500, INST, [16, 33], 1000.0)


# ---------------------------------------------------------------------------------------------------------------- cache (C05)
def cache_histories(stride: int) -> List[dict]:
    """ids 1..9: address records of HOST; 20..29: SRV records of INST (target HOST); 30: NSEC of INST."""
    from zeroconf import DNSCache
    objs: Dict[int, Any] = {i: _addr(i) for i in range(1, 10)}
    objs.update({20 + i: _srv(i) for i in range(0, 5)})
    objs[30] = _nsec()
    ident = {id(o): i for i, o in objs.items()}

    def ids(recs: Any) -> List[int]:
        if recs is None:
            return []
        if not isinstance(recs, (list, tuple, set, dict)):
            recs = [recs]
        out = []
        for r in recs:
            i = ident.get(id(r))
            if i is None:
                i = next((j for j, o in objs.items() if o == r and type(o) is type(r)), -1)
            out.append(i)
        return out
    base = [1, 2, 3, 20, 21]
    addrs, srvs = {1, 2, 3, 4, 5, 6, 7, 8, 9}, {20, 21, 22, 23, 24}
    readers: List[Tuple[str, Callable[[Any], Any], List[int], str]] = [
        ('get_all_by_details(A)', lambda c: c.get_all_by_details(HOST, 1, 1), sorted(addrs), 'all'),
        ('get_all_by_details(SRV)', lambda c: c.get_all_by_details(INST.upper(), 33, 1), sorted(srvs), 'all'),
        ('entries_with_name(host)', lambda c: c.entries_with_name(HOST), sorted(addrs), 'all'),
        ('entries_with_name(inst)', lambda c: c.entries_with_name(INST), sorted(srvs | {30}), 'all'),
        ('entries_with_server', lambda c: c.entries_with_server(HOST.upper()), sorted(srvs), 'all'),
        ('get_by_details(A)', lambda c: c.get_by_details(HOST, 1, 1), sorted(addrs), 'one'),
        ('get(record 2)', lambda c: c.get(_addr(2)), [2], 'one'),
        ('get(record 4)', lambda c: c.get(_addr(4)), [4], 'one'),
    ]
    writers: List[Tuple[str, int]] = [('add', 4), ('rem', 1), ('rem', 3), ('add', 22), ('rem', 20), ('add', 30)]
    out = []
    scope = _scope()
    for rname, rfn, sel, mode in readers:
        for wop, x in writers:
            def fresh() -> Tuple[Callable[[], Any], Callable[[], Any]]:
                c = DNSCache()
                c.async_add_records([objs[i] for i in base])
                if wop == 'add':
                    b = lambda: c.async_add_records([objs[x]]) and None       # noqa: E731
                else:
                    b = lambda: c.async_remove_records([objs[x]])               # noqa: E731
                return (lambda: ids(rfn(c))), b
            for k, ra, rb in preempt.schedules(fresh, scope, stride):
                out.append({'fam': 'cache', 'what': '%s while the loop thread does %s %d' % (rname, wop, x), 'k': k, 'S': base, 'op': wop, 'x': x,
                            'sel': sel, 'mode': mode, 'ra': {'exc': ra.exc, 'val': ra.val or []}, 'selb': [], 'rb': {'exc': rb.exc, 'val': []}})
    return out


# ---------------------------------------------------------------------------------------------------------------- load_from_cache (C18)
def load_histories(stride: int) -> List[dict]:
    """ids: 1..3 addresses of HOST, 20 SRV (port 8000), 40 TXT, 30 NSEC of INST, 99 'the load succeeded'."""
    from zeroconf import DNSCache, ServiceInfo
    out = []
    scope = _scope()
    writers: List[Tuple[str, int]] = [('add', 30), ('add', 2), ('rem', 1), ('add', 3)]
    for wop, x in writers:
        base = [1, 2, 20, 40] if wop == 'rem' else [1, 20, 40]

        def fresh() -> Tuple[Callable[[], Any], Callable[[], Any]]:
            c = DNSCache()
            recs = {1: _addr(1), 2: _addr(2), 3: _addr(3), 20: _srv(0), 40: _txt(1), 30: _nsec()}
            c.async_add_records([recs[i] for i in base])
            zc = types.SimpleNamespace(cache=c)

            def a() -> List[int]:
                info = ServiceInfo(TYPE, INST)
                ok = info.load_from_cache(zc, 2000.0)     # type: ignore[arg-type]
                val = [99] if ok else []
                if info.port == 8000 and (info.server or '').lower() == HOST:
                    val.append(20)
                if info.text == b'\x03v=1':
                    val.append(40)
                val += [ad[3] for ad in info.addresses if ad[:3] == bytes([10, 0, 0])]
                return val
            if wop == 'add':
                b = lambda: c.async_add_records([recs[x]]) and None       # noqa: E731
            else:
                b = lambda: c.async_remove_records([recs[x]])               # noqa: E731
            return a, b
        for k, ra, rb in preempt.schedules(fresh, scope, stride):
            out.append({'fam': 'load', 'what': 'ServiceInfo.load_from_cache while the loop thread does %s %d' % (wop, x), 'k': k, 'S': base + [99],
                        'op': wop, 'x': x, 'sel': [1, 2, 3, 20, 40, 99], 'mode': 'all', 'ra': {'exc': ra.exc, 'val': ra.val or []},
                        'selb': [], 'rb': {'exc': rb.exc, 'val': []}})
    return out


# ---------------------------------------------------------------------------------------------------------------- properties (C19)
def props_histories(stride: int) -> List[dict]:
    from zeroconf import DNSText, ServiceInfo
    out = []
    scope = _scope()
    n = 24
    given: Dict[Any, Any] = {}
    for i in range(1, n + 1):
        given['k%02d' % i if i % 2 else b'k%02d' % i] = [b'v%d' % i, 'v%d' % i, None, b'', True][i % 5]
    want = {('k%02d' % i).encode(): [b'v%d' % i, b'v%d' % i, None, None, b'True'][i % 5] for i in range(1, n + 1)}
    # (an empty value encodes as "key=" and decodes to None in this library: what c19 checks for the round trip)
    ref = ServiceInfo(TYPE, INST, 80, properties=dict(given))
    want = dict(ref.properties)

    def seen(d: Any) -> List[int]:
        snap = dict(d)
        return [i for i in range(1, n + 1) if ('k%02d' % i).encode() in snap and snap[('k%02d' % i).encode()] == want[('k%02d' % i).encode()]] + \
               ([-1] if len(snap) > n else [])
    txt = ref.text
    makers: List[Tuple[str, Callable[[], Any]]] = [
        ('from a dictionary', lambda: ServiceInfo(TYPE, INST, 80, properties=dict(given))),
        ('from TXT bytes', lambda: ServiceInfo(TYPE, INST, 80, properties=txt)),
    ]

    def from_record() -> Any:
        info = ServiceInfo(TYPE, INST, 80)
        info.async_update_records(types.SimpleNamespace(cache=None), 2000.0, [      # type: ignore[arg-type]
            __import__('zeroconf')._record_update.RecordUpdate(DNSText(INST, 16, 1, 4500, txt, 1000.0), None)])
        return info
    makers.append(('from a received TXT record', from_record))
    for mname, mk in makers:
        for attr in ('properties', 'decoded_properties'):
            def fresh() -> Tuple[Callable[[], Any], Callable[[], Any]]:
                info = mk()
                if attr == 'properties':
                    return (lambda: seen(info.properties)), (lambda: seen(info.properties))
                dec = lambda: [i for i in seen({k.encode(): (v.encode() if v is not None else None)      # noqa: E731
                                                for k, v in dict(info.decoded_properties).items()})]
                return dec, (lambda: seen(info.properties))
            for k, ra, rb in preempt.schedules(fresh, scope, stride):
                out.append({'fam': 'props', 'what': 'ServiceInfo.%s (%s) read by two threads' % (attr, mname), 'k': k, 'S': list(range(1, n + 1)),
                            'op': 'none', 'x': 0, 'sel': list(range(1, n + 1)), 'mode': 'all', 'ra': {'exc': ra.exc, 'val': ra.val or []},
                            'selb': list(range(1, n + 1)), 'rb': {'exc': rb.exc, 'val': rb.val or []}})
    return out


# ---------------------------------------------------------------------------------------------------------------- decoders (C02)
def decode_histories(stride: int) -> List[dict]:
    from zeroconf import DNSAddress, DNSPointer, DNSService
    from zeroconf._protocol.incoming import DNSIncoming
    from zeroconf._protocol.outgoing import DNSOutgoing
    out = []
    scope = _scope()

    def message(tag: str, n: int) -> bytes:
        o = DNSOutgoing(0x8400, True, 0)
        for i in range(n):
            # (the library's own writer compresses: later names point into the middle of earlier ones)
            o.add_answer_at_time(DNSPointer('_%s._tcp.local.' % tag, 12, 1, 4500, 'i%d-%s._%s._tcp.local.' % (i, tag, tag), 1000.0), 0)
            o.add_answer_at_time(DNSService('i%d-%s._%s._tcp.local.' % (i, tag, tag), 33, 1, 120, 0, 0, 80 + i, 'h%d.%s.local.' % (i, tag), 1000.0), 0)
            o.add_answer_at_time(DNSAddress('h%d.%s.local.' % (i, tag), 1, 1, 120, bytes([10, 0, i, 1]), created=1000.0), 0)
        # (and the last name of the datagram is the first to point at its target)
        o.add_answer_at_time(DNSService('last-%s._%s._tcp.local.' % (tag, tag), 33, 1, 120, 0, 0, 99, 'x.tail-%s.example.' % tag, 1000.0), 0)
        o.add_answer_at_time(DNSAddress('y.tail-%s.example.' % tag, 1, 1, 120, bytes([10, 9, 9, 9]), created=1000.0), 0)
        pk = o.packets()
        assert len(pk) == 1
        return pk[0]
    d1, d2 = message('alpha', 3), message('be', 4)

    def parse(data: bytes) -> List[str]:
        m = DNSIncoming(data)
        return ['valid' if m.valid else 'invalid'] + [repr((r.name, r.type, r.ttl, getattr(r, 'alias', None), getattr(r, 'server', None),
                                                            getattr(r, 'address', None))) for r in m.answers()]
    seq1, seq2 = parse(d1), parse(d2)

    def same(got: List[str], want: List[str]) -> List[int]:
        return [i + 1 for i in range(len(want)) if i < len(got) and got[i] == want[i]] + ([-1] if len(got) > len(want) else [])
    # (two copies of one datagram: what two instances in one process receive from the same multicast group)
    for (da, wa, db, wb) in ((d1, seq1, d2, seq2), (d2, seq2, d1, seq1), (d1, seq1, d1, seq1), (d2, seq2, d2, seq2)):
        def fresh() -> Tuple[Callable[[], Any], Callable[[], Any]]:
            return (lambda: same(parse(da), wa)), (lambda: same(parse(db), wb))
        for k, ra, rb in preempt.schedules(fresh, scope, stride):
            out.append({'fam': 'decode', 'what': 'two datagrams decoded by two threads at once', 'k': k, 'S': list(range(1, max(len(wa), len(wb)) + 1)),
                        'op': 'none', 'x': 0, 'sel': list(range(1, len(wa) + 1)), 'mode': 'all', 'ra': {'exc': ra.exc, 'val': ra.val or []},
                        'selb': list(range(1, len(wb) + 1)), 'rb': {'exc': rb.exc, 'val': rb.val or []}})
    return out


FAMILIES = {'C05': ('cache', cache_histories, 1, 1), 'C18': ('load', load_histories, 1, 1), 'C19': ('props', props_histories, 2, 1),
            'C02': ('decode', decode_histories, 4, 1)}
CLAUSE = {'C05': 'C05_ThreadSafeLookup', 'C18': 'C18_ThreadSafeLoad', 'C19': 'C19_PropertiesAtomic', 'C02': 'C02_DecodersIndependent'}


def check_model(ctx: Ctx) -> dict:
    """spec/Threads.tla: the accessor that copies the bucket before it filters is linearizable and never raises, under every
    interleaving with up to three writes; the accessor that iterates the live dict breaks both (the unguarded configurations
    must fail: once with the RuntimeError, once -- size restored by a second write -- with a result no moment explains)."""
    r = tlc.model_check('Threads', 'MC_Threads', workers=4, timeout=600)
    if not r['ok']:
        raise Machinery('Threads model: TLC reports %s violated' % r['violated'])
    never = sorted(a for a in ('Write', 'Invoke', 'Copy', 'Visit') if r['actions'].get(a, 0) == 0)
    if never:
        raise Machinery('Threads model: actions never taken: %s' % never)
    for cfg, inv in (('MC_Threads_live_defect', 'NoError'), ('MC_Threads_live_defect2', 'Linearizable')):
        d = tlc.model_check('Threads', cfg, workers=4, timeout=600, coverage=False)
        if d['ok'] or d['violated'] != inv:
            raise Machinery('Threads/%s must violate %s (got %s)' % (cfg, inv, d['violated']))
    return {'distinct_states': r['distinct'], 'states_generated': r['states'], 'actions': r['actions'],
            'live_iteration_configs_violate': ['NoError', 'Linearizable']}


def run(ctx: Ctx, own: str) -> None:
    fam, gen, q_stride, t_stride = FAMILIES[own]
    model = check_model(ctx) if own in ('C05', 'C18') else None
    hs = gen(t_stride if ctx.thorough else q_stride)
    if not hs:
        raise Machinery('no pre-emption schedule was produced for %s' % own)
    for i, h in enumerate(hs):
        h['id'] = i + 1
    res = tlc.run_oracle('Trace_Threads', 'Trace_Threads', {'own': own, 'hs': hs}, 'thr' + own, timeout=1800)
    judged = sum(inf[2] for inf in res['infos'] if inf[1] == 'histories')
    if judged != len(hs):
        raise Machinery('TLC judged %d of %d pre-emption histories' % (judged, len(hs)))
    bad: Dict[str, int] = {}
    for v in res['verdicts']:
        i, ok, clause, who = v[1], v[2], v[3], v[4]
        if ok:
            continue
        h = hs[i - 1]
        bad[clause] = bad.get(clause, 0) + 1
        if bad[clause] > 3:
            continue
        r = h['ra'] if who == 'A' else h['rb']
        ctx.report('%s/preempted' % clause, '%s: %s, thread A pre-empted at its opcode #%d: %s returned %s' % (
            clause, h['what'], h['k'], who, r['exc'] or r['val']), {'thread_history': h})
    ctx.coverage['thread_schedules'] = {
        'design_model': model,
        'histories': len(hs), 'family': fam, 'opcode_stride': t_stride if ctx.thorough else q_stride, 'rejected': bad,
        'distinct_operations': len({h['what'] for h in hs}),
        'what': 'every schedule in which operation A (own thread, traced per opcode inside the library) is pre-empted once, at every '
                'stride-th opcode, by operation B run to completion on a second thread; results judged linearizable by TLC '
                '(Trace_Threads.tla)'}
    ctx.log('thread schedules (%s): %d histories over %d operation pairs, rejected %s' % (fam, len(hs), len({h['what'] for h in hs}), bad))
