"""Shared runner of the builder checks (C01, C14)."""
from __future__ import annotations

import multiprocessing as mp
import random
from concurrent.futures import ThreadPoolExecutor
from typing import Any, Dict, List, Tuple

from vf import tlc
from vf.core import Ctx, Machinery


class CaseTimeout(BaseException):
    pass


def _case(job: Tuple[str, dict]) -> dict:
    import resource
    import signal
    from props import wirefam as wf

    def on_alarm(signum: int, frame: Any) -> None:
        raise CaseTimeout()
    # a builder that does not terminate must not take the machine down: 10 s and 3 GB per case
    try:
        resource.setrlimit(resource.RLIMIT_AS, (3 * 1024 ** 3, resource.RLIM_INFINITY))
    except (ValueError, OSError):
        pass
    old = signal.signal(signal.SIGALRM, on_alarm)
    signal.setitimer(signal.ITIMER_REAL, 10)
    try:
        return wf.run_case(job[0], job[1])
    except (CaseTimeout, MemoryError):
        m = job[1]
        return {'id': job[0], 'query': m['query'], 'multicast': m['multicast'], 'mid': m['id'],
                'inp': {'qs': [], 'an': [], 'ns': [], 'ar': []}, 'longLabel': False, 'pkts': [], 'out': 'exc:DoesNotTerminate', 'nexp': 0}
    finally:
        signal.setitimer(signal.ITIMER_REAL, 0)
        signal.signal(signal.SIGALRM, old)


def run_family(ctx: Ctx, own: str, n_quick: int, n_thorough: int, extra: List[dict] = ()) -> List[dict]:  # type: ignore[assignment]
    from props import wirefam as wf
    rng = random.Random(ctx.seed * 7919 + int(own[1:]))
    n = ctx.pick(n_quick, n_thorough)
    msgs = [wf.gen_message(rng, big=(k % 4 == 0)) for k in range(n)] + list(extra)
    jobs = [(m.get('_id') or '%s-%d' % (own.lower(), k), m) for k, m in enumerate(msgs)]
    if len(jobs) >= 64:
        # (the library and what it loads -- ifaddr, ctypes -- are imported before the workers are forked: a worker of a parent that holds
        # hundreds of thousands of messages could not always map a shared object of its own)
        import zeroconf  # noqa: F401
        import ctypes  # noqa: F401
        with mp.get_context('fork').Pool(16 if ctx.thorough else 8) as pool:
            cases = pool.map(_case, jobs, chunksize=8)
    else:
        cases = [_case(j) for j in jobs]
    ctx.log('%d messages built, %d datagrams' % (len(cases), sum(len(c['pkts']) for c in cases)))
    # batches bounded by datagram count (JSON size)
    batches: List[List[dict]] = [[]]
    w = 0
    for c in cases:
        cw = 1 + sum(4 + len(p['qs']) + len(p['an']) + len(p['ns']) + len(p['ar']) for p in c['pkts'])
        if w + cw > 60000 and batches[-1]:
            batches.append([])
            w = 0
        batches[-1].append(c)
        w += cw

    def one(b: List[dict]) -> dict:
        return tlc.run_oracle('Trace_Wire', 'Trace_Wire', {'own': own, 'cases': b}, 'wire', timeout=1800)
    with ThreadPoolExecutor(max_workers=6) as ex:
        results = list(ex.map(one, batches))
    judged = sum(inf[2] for r in results for inf in r['infos'] if inf[1] == 'cases')
    if judged != len(cases):
        raise Machinery('TLC judged %d of %d cases' % (judged, len(cases)))
    by_id = {c['id']: c for c in cases}
    msg_by_id = {j[0]: j[1] for j in jobs}
    for r in results:
        for v in r['verdicts']:
            cid, clause = v[1], v[3]
            c = by_id[cid]
            m = msg_by_id[cid]
            disc = 'plain'
            if clause == 'C01_MustRejectTooLong':
                allnames = [q['name'] for q in m['qs']] + [x['name'] for s in ('an', 'ns', 'ar') for x in m[s]]
                for s in ('an', 'ns', 'ar'):
                    for x in m[s]:
                        if x['kind'] in ('PTR', 'CNAME'):
                            allnames.append(x['rd'])
                        elif x['kind'] == 'SRV':
                            allnames.append(x['rd'][3])
                        elif x['kind'] == 'NSEC':
                            allnames.append(x['rd'][0])
                lens = sorted({len(l.encode('utf-8')) for nm in allnames for l in nm.rstrip('.').split('.')})
                disc = 'label-of-64-bytes' if 64 in lens and not any(x > 64 for x in lens) else 'long-label'
            what = '%s: message %s (%s, %s): out=%s, %d datagrams of %s bytes' % (
                clause, cid, 'query' if c['query'] else 'response', 'multicast' if c['multicast'] else 'unicast', c['out'],
                len(c['pkts']), [p['len'] for p in c['pkts']][:8])
            ctx.report('%s/%s' % (clause, disc), what, {'message': m})
    multi = sum(1 for c in cases if len(c['pkts']) > 1)
    near = sum(1 for c in cases for p in c['pkts'] if 1440 <= p['len'] <= 1460 or 8900 <= p['len'] <= 8966)
    cov = ctx.coverage
    cov.update({
        'evaluations': len(cases), 'distinct_nontrivial': len({(len(c['pkts']), tuple(p['len'] for p in c['pkts'][:6])) for c in cases if c['pkts']}),
        'rule': 'seeded random messages: names <=253 chars with shared suffixes, mixed case, non-ASCII, labels of 1..100 bytes; all '
                'record kinds (+CNAME), rdata from empty to just under the datagram limit, TTL 0..2^32-1, 0..300 entries per '
                'section, query/response x multicast/unicast x id, known-answer mode; non-trivial = distinct datagram-size profiles',
        'multi_datagram_messages': multi, 'datagrams_within_20_bytes_of_a_limit': near,
        'rejected_too_long': sum(1 for c in cases if c['out'] == 'NamePartTooLong'),
        'pointer_hops_checked': sum(p.get('nhops', 0) for c in cases for p in c['pkts']),
        'states': sum(r.get('distinct', 1) for r in results), 'transitions': sum(r.get('states', 1) for r in results),
        'traces_validated_against_impl': len(cases),
        'samples': [{'message': {k: (v if not isinstance(v, list) else v[:2]) for k, v in msgs[0].items()}},
                    {'datagram_sizes': [p['len'] for p in cases[-1]['pkts']][:10]}],
        'explanation': 'each message built by DNSOutgoing, decoded by vf/wire.py and DNSIncoming; TLC (Trace_Wire.tla) judged the clauses',
    })
    ctx.assumptions += ['entries interned by the harness from the input description (name spelling, type, class bits, TTL, rdata)',
                        'every single entry fits one 8966-byte datagram (property domain)']
    return cases
