"""Bindings 1 and 2 for service-info lookups (C18, lookup part of C13): spec/Lookup.tla is explored exhaustively against
ReturnBy / SuccessIff / CacheFirst / QuThenQm for timeouts 3000 and 200 ms; with the strict one-second spacing of QM queries
switched on TLC finds the schedule of finding D15.  Behaviours (initial cache x records arriving while the lookup waits) are
replayed into the real AsyncServiceInfo.async_request; queries (instant, QU/QM, question set) and the return (instant,
result) are compared with the model's."""
from __future__ import annotations

import re
from typing import Any, Dict, List, Tuple

from props import lookupfam as lf
from props import schedmodel as sm
from vf import tlc
from vf.core import Ctx, Machinery

REC_ID = {'srv': 1, 'txt': 3, 'a': 5}


def _norm(c0: Any, hist: Any, sent: Any, ret: Any) -> tuple:
    return (tuple(sorted(c0)), tuple((h['t'], tuple(sorted(h['recs'])), bool(h['srvFirst'])) for h in hist),
            tuple((s['t'], bool(s['qu']), tuple(sorted(s['qs']))) for s in sent), (ret['t'], bool(ret['ok'])))


def exhaustive_behaviours(cfg: str) -> List[tuple]:
    r = tlc.model_check('Lookup', cfg, workers=1, coverage=False, timeout=1800)
    if not r['ok']:
        raise Machinery('Lookup/%s: TLC reports %s' % (cfg, r['violated']))
    res = set()
    for m in re.finditer(r'<<\s*"BEHAVIOUR",', r['out']):
        val = tlc._tla_to_py(' '.join(sm._balanced(r['out'], m.start()).split()))
        if not isinstance(val, list) or len(val) != 5:
            raise Machinery('cannot parse BEHAVIOUR value: %r' % (val,))
        res.add(_norm(val[1], val[2], val[3], val[4]))
    return sorted(res)


def simulated_behaviours(cfg: str, num: int, seed: int) -> List[tuple]:
    res = set()
    for beh in tlc.simulate('Lookup', cfg, num=num, depth=200, seed=seed, timeout=1800):
        if not beh:
            continue
        st = beh[-1]['state']
        if st.get('phase') != 'done' or st.get('bad') not in ('', None):
            continue
        res.add(_norm(st.get('c0') or [], st.get('hist') or [], st.get('sent') or [], st['ret']))
    return sorted(res)


def to_scenario(sid: str, c0: tuple, hist: tuple, timeout: int) -> dict:
    steps: List[dict] = []
    if c0:
        steps += [{'op': 'at', 't': 100}, {'op': 'recv', 'items': [{'id': REC_ID[k], 'ttl': 4500, 'sp': 0} for k in ('srv', 'a', 'txt') if k in c0]}]
    evs = [(1000, 1, {'op': 'lookup', 'timeout': timeout, 'forced': 'none', 'sp': 0})]
    for (t, recs, srv_first) in hist:
        order = [k for k in (('srv', 'a', 'txt') if srv_first else ('a', 'srv', 'txt')) if k in recs]
        evs.append((t, 0, {'op': 'recv', 'items': [{'id': REC_ID[k], 'ttl': 4500, 'sp': 0} for k in order], 'src': '10.0.0.%d' % (10 + len(evs))}))
    evs.sort(key=lambda x: (x[0], x[1]))
    for (t, _, st) in evs:
        steps += [{'op': 'at', 't': t}, st]
    steps.append({'op': 'at', 't': 1000 + timeout + 1500})
    return {'id': sid, 'seed': 1, 'steps': steps, 'rand': 'lo', 'model': True}


def check_models(ctx: Ctx) -> Dict[str, Any]:
    r = tlc.model_check('Lookup', 'MC_Lookup', workers=16, timeout=1200)
    r2 = tlc.model_check('Lookup', 'MC_Lookup_200', workers=16, timeout=1200, coverage=False)
    if not r['ok'] or not r2['ok']:
        raise Machinery('Lookup model: TLC reports %s / %s violated' % (r['violated'], r2['violated']))
    d = tlc.model_check('Lookup', 'MC_Lookup_spacing', workers=16, timeout=600, coverage=False)
    if d['ok'] or 'bad = "Spacing"' not in d['out']:
        raise Machinery('Lookup/MC_Lookup_spacing is expected to reach bad = "Spacing" (design-level schedule of finding D15)')
    never = sorted(a for a in ('Begin', 'Resume', 'Receive', 'Skip', 'Tick') if r['actions'].get(a, 0) == 0)
    if never:
        raise Machinery('Lookup model: actions never taken: %s' % never)
    return {'model': 'Lookup', 'model_states': r['states'] + r2['states'], 'model_distinct': r['distinct'] + r2['distinct'],
            'model_depth': r['depth'], 'model_actions': r['actions'],
            'strict_spacing_config_violates': 'Spacing (finding D15 reproduced in the model)'}


def model_scenarios(ctx: Ctx, tag: str) -> Tuple[List[dict], Dict[str, Any]]:
    predicted: Dict[str, Any] = {}
    scs: List[dict] = []
    n = 0
    for cfg, timeout in (('MC_Lookup_replay', 3000), ('MC_Lookup_replay_200', 200)):
        by_env: Dict[tuple, List[tuple]] = {}
        for c0, hist, sent, ret in exhaustive_behaviours(cfg):
            by_env.setdefault((c0, hist), []).append((sent, ret))
        items = sorted(by_env.items())
        if not ctx.thorough:
            items = items[::4]
        for (c0, hist), outs in items:
            sid = '%s-model-x%d' % (tag, n)
            n += 1
            scs.append(to_scenario(sid, c0, hist, timeout))
            predicted[sid] = [[[list(map(_l, s)) for s in sent], list(ret)] for sent, ret in outs]
    by_env2: Dict[tuple, List[tuple]] = {}
    for c0, hist, sent, ret in simulated_behaviours('Sim_Lookup', ctx.pick(150, 2500), ctx.seed + 14):
        by_env2.setdefault((c0, hist), []).append((sent, ret))
    for j, ((c0, hist), outs) in enumerate(sorted(by_env2.items())):
        sid = '%s-model-s%d' % (tag, j)
        scs.append(to_scenario(sid, c0, hist, 3000))
        predicted[sid] = [[[list(map(_l, s)) for s in sent], list(ret)] for sent, ret in outs]
    return scs, predicted


def _l(x: Any) -> Any:
    return list(x) if isinstance(x, tuple) else x


def drift(traces: List[dict], predicted: Dict[str, Any]) -> List[dict]:
    out = []
    for tr in traces:
        want = predicted.get(tr['id'])
        if want is None:
            continue
        sent = []
        ret = None
        for e in tr['events']:
            if e['ev'] == 'query':
                kinds = set()
                for q in e['qs']:
                    if q['q'] == 1:
                        kinds.add('srv')
                    elif q['q'] == 2:
                        kinds.add('txt')
                    elif q['q'] in (3, 4):
                        kinds.add('aI' if q['who'] == 'inst' else 'aH')
                sent.append([e['t'], any(q['qu'] for q in e['qs']), sorted(kinds)])
            elif e['ev'] == 'ret' and ret is None:
                ret = [e['t'], bool(e['ok'])]
        real = [sent, ret]
        if real not in want:
            out.append({'scenario': tr['id'], 'real': real, 'model': want[0]})
    return out
