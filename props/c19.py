"""C19 -- service-name validation and TXT round trip (oracle enumeration + generated cases,
judged by the TLA+ contract Names.tla through Oracle_C19.tla)."""
from __future__ import annotations

import itertools
import random
from concurrent.futures import ThreadPoolExecutor
from typing import Any, Dict, List, Optional, Tuple

from vf import tlc
from vf.core import Ctx, Machinery

TOKENS = ['_http', '_', '_a-b', '_a--b', '_-a', '_a-', '_1234', '_' + 'a' * 15, '_' + 'a' * 16, '_a_b', '_sub', '',
          'inst', 'in st', '\x07x', 'x' * 63, 'x' * 64, '_tcp', '_udp', 'local', '_TCP', 'é' * 31 + 'a', 'é' * 32,
          '_ab\n', '100%d', '{0}%s',
          # characters that are not printable and not ASCII control characters either (RFC 6763 4.1.1 allows them in instance names)
          'Living\xa0Room', 'a\u200db\u3000c', 'x\xady\x85\u202fz']      # (format directives: the name ends up inside an error message)
PROTO = ['_tcp', '_udp', '_TCP']


def call_validator(name: str, strict: bool) -> Tuple[str, Optional[str]]:
    from zeroconf import BadTypeInNameException
    from zeroconf._utils.name import service_type_name
    try:
        r = service_type_name(name, strict=strict)
        return 'ok', r
    except BadTypeInNameException:
        return 'bad', None
    except Exception as e:  # noqa: BLE001
        return 'exc:' + type(e).__name__, None


def name_case(cid: str, name: str, strict: bool) -> dict:
    out, ret = call_validator(name, strict)
    return {'id': cid, 'kind': 'name', 'cp': [ord(c) for c in name], 'strict': strict, 'out': out,
            'ret': [ord(c) for c in ret] if ret is not None else []}


def enum_names(ctx: Ctx, rng: random.Random) -> List[str]:
    names: Dict[str, None] = {}
    kmax = 3 if not ctx.thorough else 4
    for k in range(1, kmax + 1):
        for combo in itertools.product(TOKENS, repeat=k):
            names['.'.join(combo) + '.'] = None
    for k in (2, 3):
        for combo in itertools.product(TOKENS, repeat=k):
            for p in PROTO:
                names['.'.join(combo + (p, 'local')) + '.'] = None
    if ctx.thorough:
        combos = list(itertools.product(TOKENS, repeat=4))
        for combo in rng.sample(combos, 150000):
            names['.'.join(combo + (rng.choice(PROTO), 'local')) + '.'] = None
    # whole-name length boundary: 255, 256, 257 characters
    for total in (255, 256, 257):
        suffix = '._http._tcp.local.'
        pad = total - len(suffix)
        labels = []
        while pad > 0:
            n = min(50, pad)
            labels.append('y' * n)
            pad -= n + 1
        nm = '.'.join(labels) + suffix
        names[nm] = None
        names['a' * (total - len(suffix)) + suffix] = None
        # non-strict mode allows long service labels: otherwise valid names of exactly 255 / 256 / 257 characters
        names['i' * 63 + '._' + 'a' * (total - 64 - 2 - 11) + '._tcp.local.'] = None
        names['_' + 'a' * (total - 1 - 12) + '._udp.local.'] = None
        # ... whose instance label is outside ASCII: the limit is in characters, the UTF-8 form is longer (up to 63 octets a label)
        for inst in ('B\u00fcro Stra\u00dfe 7', '\u65e5\u672c\u8a9e' * 7, '\U0001f600' * 15, '\u00e9' * 31):
            rest = total - len(inst) - 2 - 11
            if rest > 0:
                names[inst + '._' + 'a' * rest + '._tcp.local.'] = None
    return list(names)


POOL = list('abzAZ09-_. =%{}') + ['%s', '%d', '%(x)s', '\x00', '\x1f', '\x7f', '\n', 'é', 'ß', '日', '😀', ' ', '\xa0', '\u200d', '\xad', '\x85', '\u3000']


def gen_names(ctx: Ctx, rng: random.Random, n: int) -> List[str]:
    seeds = ['_http._tcp.local.', 'My Printer._ipp._tcp.local.', 'a.b.c._x-y._udp.local.', '_printer._sub._http._tcp.local.',
             'Dotted.Name.Here._airplay._tcp.local.', 'x.local.', '_a1._tcp.local.', 'café._http._tcp.local.',
             'Disk 100% full._http._tcp.local.', '{name}._ipp._tcp.local.']
    out = []
    for _ in range(n):
        r = rng.random()
        if r < 0.7:
            s = list(rng.choice(seeds))
            for _ in range(rng.choice([1, 1, 2, 3, 5])):
                op = rng.random()
                pos = rng.randrange(len(s) + 1)
                if op < 0.4:
                    s.insert(pos, rng.choice(POOL))
                elif op < 0.7 and s:
                    del s[min(pos, len(s) - 1)]
                elif s:
                    s[min(pos, len(s) - 1)] = rng.choice(POOL)
            if rng.random() < 0.1:
                s = list(rng.choice(POOL) * rng.randint(1, 280)) + ['.'] + s
            out.append(''.join(s)[:300])
        elif r < 0.85:
            out.append(''.join(rng.choice(POOL) for _ in range(rng.randint(0, 40))) + rng.choice(
                ['._tcp.local.', '._udp.local.', '.local.', '', '.local', '._tcp.local']))
        else:
            lab = ''.join(rng.choice('abc-_19') for _ in range(rng.randint(0, 17)))
            inst = ''.join(rng.choice(POOL) for _ in range(rng.randint(0, 70)))
            out.append((inst + '.' if rng.random() < 0.7 else '') + '_' + lab + rng.choice(['._tcp.local.', '._udp.local.']))
    return out


def conv_item(k: Any, v: Any) -> dict:
    kb = k.encode('utf-8') if isinstance(k, str) else bytes(k)
    if v is None:
        return {'k': list(kb), 'hasv': False, 'v': []}
    vb = v if isinstance(v, bytes) else str(v).encode('utf-8')
    return {'k': list(kb), 'hasv': True, 'v': list(vb)}


def gen_dict(rng: random.Random) -> Dict[Any, Any]:
    d: Dict[Any, Any] = {}
    n = rng.choice([0, 1, 1, 2, 3, 5, 8])
    alphabet = 'abXY09 ._-é日'
    for _ in range(n):
        klen = rng.choice([0, 1, 1, 2, 5, 9]) if rng.random() < 0.9 else rng.randint(10, 250)
        key: Any = ''.join(rng.choice(alphabet) for _ in range(klen))
        if rng.random() < 0.4:
            key = key.encode('utf-8')
        kb = key if isinstance(key, bytes) else key.encode('utf-8')
        if len(kb) > 255:
            continue
        room = 254 - len(kb)
        r = rng.random()
        val: Any
        if r < 0.15:
            val = None
        elif r < 0.25:
            val = b'' if rng.random() < 0.5 else ''
        elif r < 0.35:
            val = rng.choice([0, 1, -5, 12345, True, False])
        else:
            vlen = rng.choice([1, 2, 3, 10]) if rng.random() < 0.85 else rng.randint(0, max(0, room))
            sv = ''.join(rng.choice(alphabet + '==') for _ in range(vlen))
            val = sv.encode('utf-8') if rng.random() < 0.5 else sv
        vb = b'' if val is None else (val if isinstance(val, bytes) else str(val).encode('utf-8'))
        if val is not None and len(vb) > room:
            continue
        if val is None and len(kb) > 255:
            continue
        d[key] = val
    return d


def txt_case(cid: str, d: Dict[Any, Any]) -> dict:
    from zeroconf import ServiceInfo
    items = [conv_item(k, v) for k, v in d.items()]
    try:
        info = ServiceInfo('_http._tcp.local.', 'x._http._tcp.local.', 80, properties=d)
        text = info.text
        back = ServiceInfo('_http._tcp.local.', 'x._http._tcp.local.', 80, properties=bytes(text))
        props = [conv_item(k, v) for k, v in back.properties.items()]
        # ... and what the description itself hands back for the dictionary it was given ("as bytes")
        own = info.properties
        oprops = [conv_item(k, v) for k, v in own.items()]
        obytes = all(isinstance(k, bytes) and (v is None or isinstance(v, bytes)) for k, v in own.items())
        # ... and every description has a dictionary of its own: the application edits the one it got from `back`; a third description
        # built from the same TXT bytes (before) and a fourth (afterwards) still read what their bytes say
        third = ServiceInfo('_http._tcp.local.', 'y._http._tcp.local.', 80, properties=bytes(text))
        third.properties
        edited = back.properties
        try:
            edited[b'zz-edited'] = b'1'
            for k in list(edited)[:1]:
                if k != b'zz-edited':
                    del edited[k]
        except TypeError:
            pass              # (a read-only mapping would be fine too)
        fourth = ServiceInfo('_http._tcp.local.', 'z._http._tcp.local.', 80, properties=bytes(text))
        aprops = [[conv_item(k, v) for k, v in x.properties.items()] for x in (third, fourth)]
        return {'id': cid, 'kind': 'txt', 'items': items, 'out': 'ok', 'text': list(text), 'props': props, 'oprops': oprops,
                'obytes': obytes, 'aprops3': aprops[0], 'aprops4': aprops[1]}
    except Exception as e:  # noqa: BLE001
        return {'id': cid, 'kind': 'txt', 'items': items, 'out': 'exc:' + type(e).__name__, 'text': [], 'props': [], 'oprops': [],
                'obytes': True, 'aprops3': [], 'aprops4': []}


def run(ctx: Ctx) -> None:
    # the operations documented as thread-safe, under every single pre-emption by the other thread (props/threadsfam.py, Trace_Threads.tla)
    from props import threadsfam
    threadsfam.run(ctx, 'C19')
    rng = random.Random(ctx.seed * 7919 + 19)
    names = enum_names(ctx, rng)
    n_enum = len(names)
    names += gen_names(ctx, rng, ctx.pick(5000, 100000))
    cases: List[dict] = []
    meta: Dict[str, Any] = {}
    for i, nm in enumerate(names):
        for strict in (True, False):
            cid = 'n%d%s' % (i, 's' if strict else 'n')
            cases.append(name_case(cid, nm, strict))
            meta[cid] = (nm, strict)
    n_txt = ctx.pick(3000, 40000)
    fixed_dicts = [{}, {'a': 'b'}, {b'a': b'b'}, {'k': None}, {'k': ''}, {'k': b''}, {'a': 'x=y'}, {'a': 'b', b'a': b'c'},
                   {'k' * 254: None}, {'k' * 100: 'v' * 154}, {'': 'v'}, {'n': 5, 't': True}]
    for j in range(n_txt):
        d = fixed_dicts[j] if j < len(fixed_dicts) else gen_dict(rng)
        cid = 't%d' % j
        cases.append(txt_case(cid, d))
        meta[cid] = d
    ctx.log('%d name cases (%d enumerated names x 2 modes), %d TXT cases' % (2 * len(names), n_enum, n_txt))
    par = 16 if ctx.thorough else 8
    size = max(2000, (len(cases) + par - 1) // par)
    slices = [cases[i:i + size] for i in range(0, len(cases), size)]

    def one(sl: List[dict]) -> dict:
        return tlc.run_oracle('Oracle_C19', 'Oracle_C19', sl, 'c19', timeout=3000)
    with ThreadPoolExecutor(max_workers=par) as ex:
        results = list(ex.map(one, slices))
    total = accepted = 0
    verdicts = []
    for r in results:
        verdicts += r['verdicts']
        for inf in r['infos']:
            if inf[1] == 'cases':
                total += inf[2]
                accepted += inf[4]
    if total != len(cases):
        raise Machinery('TLC judged %d of %d cases' % (total, len(cases)))
    for v in verdicts:
        cid, clause = v[1], v[3]
        m = meta[cid]
        case = next(c for c in cases if c['id'] == cid)
        if case['kind'] == 'name':
            nm, strict = m
            body = nm.split('.')
            disc = 'other'
            if case['out'].startswith('exc:'):
                disc = case['out'][4:] + ('-bare-underscore-service-label' if any(
                    body[k] == '_' and k + 2 < len(body) and body[k + 1] in ('_tcp', '_udp') and body[k + 2] == 'local'
                    for k in range(len(body))) else '')
            elif clause == 'C19_RejectsUndocumented' and any(l.endswith('\n') and l.startswith('_') for l in body):
                disc = 'service-label-trailing-newline'
            what = '%s: service_type_name(%r, strict=%s) -> %s %r' % (clause, nm, strict, case['out'],
                                                                      ''.join(map(chr, case['ret'])))
            ctx.report(f'{clause}/{disc}', what, {'name': nm, 'strict': strict, 'observed': case['out']})
        else:
            what = '%s: properties=%r -> text=%r props=%r (%s)' % (clause, m, bytes(case['text']), case['props'], case['out'])
            ctx.report(f'{clause}/txt', what, {'properties': repr(m)})
    ok_obs = sum(1 for c in cases if c['kind'] == 'name' and c['out'] == 'ok')
    ctx.coverage.update({
        'states': sum(r.get('distinct', 1) for r in results),
        'transitions': sum(r.get('states', 1) for r in results),
        'traces_validated_against_impl': len(cases),
        'evaluations': len(cases),
        'distinct_nontrivial': accepted + n_txt,
        'rule': 'names: every sequence of <=%d labels over a %d-token set (each token a rule boundary) plus 2-3 arbitrary '
                'labels + protocol + local, both strict modes (exhaustive), plus mutated/random strings <=300 chars; TXT: '
                'fixed and random property dictionaries; non-trivial = names the contract accepts as a documented form + '
                'TXT dictionaries' % (3 if not ctx.thorough else 4, len(TOKENS)),
        'exhaustive': True,
        'enumerated_names': n_enum,
        'observed_accepts': ok_obs,
        'contract_accepts': accepted,
        'samples': [{'name': names[5], 'strict': True}, {'name': names[n_enum + 3], 'strict': False},
                    {'properties': repr(meta['t%d' % (n_txt - 1)])}],
        'explanation': 'TLC (Oracle_C19.tla) evaluated Names!Validate / EncodeTxt / DecodeTxt on every logged case',
    })
    ctx.assumptions += ['strings without lone surrogates; property dictionaries with items <= 255 bytes and keys without "="']
