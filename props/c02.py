"""C02 -- the decoder is total, bounded and faithful (Wire.tla StrictParse + Oracle_C02.tla)."""
from __future__ import annotations

import itertools
import json
import multiprocessing as mp
import random
import signal
import sys
from concurrent.futures import ThreadPoolExecutor
from typing import Any, Dict, List, Optional, Tuple

from vf import tlc, wire
from vf.core import Ctx, Machinery

ALPHABET = [0x00, 0x01, 0x0C, 0x0D, 0x40, 0xC0, 0xFF, ord('a')]


WALL_LIMIT_S = 8.0


VERIF_DIR = __import__('os').path.dirname(__import__('os').path.dirname(__import__('os').path.abspath(__file__)))


def cps(s: str) -> List[int]:
    return [ord(c) for c in s]


def lib_decode(data: bytes) -> Dict[str, Any]:
    """Run the library decoder under a profile-event counter."""
    from zeroconf import DNSAddress, DNSHinfo, DNSNsec, DNSPointer, DNSService, DNSText
    from zeroconf._protocol.incoming import DNSIncoming
    count = [0]

    def prof(frame: Any, event: str, arg: Any) -> None:
        count[0] += 1
    res: Dict[str, Any] = {'exc': '', 'valid': False, 'qs': [], 'rrs': []}
    max_name = 0

    class WallClock(BaseException):
        pass

    def on_alarm(signum: int, frame: Any) -> None:
        raise WallClock()
    # a loop without calls is invisible to the profile counter: a wall-clock limit bounds every case as well
    old_handler = signal.signal(signal.SIGALRM, on_alarm)
    signal.setitimer(signal.ITIMER_REAL, WALL_LIMIT_S)
    sys.setprofile(prof)
    try:
        try:
            inc = DNSIncoming(data)
            answers = inc.answers()
        finally:
            sys.setprofile(None)
            signal.setitimer(signal.ITIMER_REAL, 0)
            signal.signal(signal.SIGALRM, old_handler)
        max_name = _project(inc, answers, res)
    except BaseException as ex:  # noqa: BLE001 - RecursionError and friends are exactly what is being looked for
        sys.setprofile(None)
        res['exc'] = 'DoesNotTerminate' if isinstance(ex, WallClock) else type(ex).__name__
        if isinstance(ex, WallClock):
            count[0] = 1000000000          # beyond every budget
    res['events'] = count[0]
    res['maxName'] = max_name
    return res


def _project(inc: Any, answers: Any, res: Dict[str, Any]) -> int:
    from zeroconf import DNSAddress, DNSHinfo, DNSNsec, DNSPointer, DNSService, DNSText
    max_name = 0
    if True:
        res['valid'] = bool(inc.valid)
        if inc.valid:
            for q in inc.questions:
                res['qs'].append([cps(q.name), q.type, q.class_ | (0x8000 if q.unique else 0)])
                max_name = max(max_name, len(q.name))
            for r in answers:
                cls = r.class_ | (0x8000 if r.unique else 0)
                ttl = int(r.ttl)
                if isinstance(r, DNSAddress):
                    rd: Any = ['a', list(r.address)]
                elif isinstance(r, DNSPointer):
                    rd = ['n', cps(r.alias)]
                    max_name = max(max_name, len(r.alias))
                elif isinstance(r, DNSText):
                    rd = ['t', list(r.text)]
                elif isinstance(r, DNSService):
                    rd = ['s', r.priority, r.weight, r.port, cps(r.server)]
                    max_name = max(max_name, len(r.server))
                elif isinstance(r, DNSHinfo):
                    rd = ['h', cps(r.cpu), cps(r.os)]
                elif isinstance(r, DNSNsec):
                    rd = ['x', cps(r.next_name), sorted(set(r.rdtypes))]
                    max_name = max(max_name, len(r.next_name))
                else:
                    rd = ['u']
                res['rrs'].append([cps(r.name), r.type, cls, [ttl >> 16, ttl & 0xFFFF], rd])
                max_name = max(max_name, len(r.name))
    return max_name


def interleaved_cases(group: List[Tuple[str, bytes]]) -> List[dict]:
    """Several message objects alive at once, as in the listener's list of deferred truncated queries: all of them are constructed
    first (questions are read then), their records are read afterwards.  What each one decodes to must not depend on the others."""
    from zeroconf._protocol.incoming import DNSIncoming
    objs = []
    for cid, data in group:
        res: Dict[str, Any] = {'exc': '', 'valid': False, 'qs': [], 'rrs': []}
        try:
            objs.append((cid, data, DNSIncoming(data), res))
        except BaseException as ex:  # noqa: BLE001
            res['exc'] = type(ex).__name__
            objs.append((cid, data, None, res))
    out = []
    for cid, data, inc, res in objs:
        mx = 0
        if inc is not None:
            try:
                mx = _project(inc, inc.answers(), res)
            except BaseException as ex:  # noqa: BLE001
                res['exc'] = type(ex).__name__
        out.append({'id': cid, 'b': list(data), 'lib': {'exc': res['exc'], 'valid': res['valid'], 'qs': res['qs'], 'rrs': res['rrs']},
                    'events': 0, 'maxName': mx, 'faith': len(data) <= 600 and faithful_domain(data),
                    'scoped': {'exc': '', 'valid': res['valid'], 'n': len(res['rrs']), 'nq': len(res['qs'])}, 'bigDiffers': 0})
    return out


def faithful_domain(data: bytes) -> bool:
    """TLC's StrictParse represents octets >= 0x80 inside labels / character strings by U+FFFD: that equals the library's
    'replace' decoding exactly when no multi-byte UTF-8 sequence occurs, i.e. every such octet is invalid on its own."""
    try:
        m = wire.parse(data)
    except wire.WireError:
        return True          # strict rejects: clause vacuous, cheap for TLC as well
    def ok_bytes(b: bytes) -> bool:
        if all(x < 0x80 for x in b):
            return True
        return b.decode('utf-8', 'replace') == ''.join(chr(x) if x < 0x80 else '�' for x in b)
    for e in m.entries():
        names = [e.name]
        for nm in names:
            if not all(ok_bytes(l) for l in nm.labels):
                return False
        if e.section != 'qd':
            if e.type == wire.T_HINFO and not (ok_bytes(e.rd[0]) and ok_bytes(e.rd[1])):
                return False
            if e.type in (wire.T_PTR, wire.T_CNAME, wire.T_SRV, wire.T_NSEC):
                off = e.end - e.rdlen + (6 if e.type == wire.T_SRV else 0)
                try:
                    nm = wire.read_name(data, off)
                    if not all(ok_bytes(l) for l in nm.labels):
                        return False
                except wire.WireError:
                    return False
    return True


def scoped_decode(data: bytes) -> Dict[str, Any]:
    """The same datagram as an IPv6 socket hands it over: with the scope id of the receiving interface."""
    from zeroconf._protocol.incoming import DNSIncoming

    class WallClock(BaseException):
        pass

    def on_alarm(signum: int, frame: Any) -> None:
        raise WallClock()
    old_handler = signal.signal(signal.SIGALRM, on_alarm)
    signal.setitimer(signal.ITIMER_REAL, WALL_LIMIT_S)
    try:
        try:
            inc = DNSIncoming(data, ('fe80::9', 5353), 3)
            n = len(inc.answers())
        finally:
            signal.setitimer(signal.ITIMER_REAL, 0)
            signal.signal(signal.SIGALRM, old_handler)
        return {'exc': '', 'valid': bool(inc.valid), 'n': n if inc.valid else 0, 'nq': len(inc.questions) if inc.valid else 0}
    except BaseException as ex:  # noqa: BLE001
        return {'exc': 'DoesNotTerminate' if isinstance(ex, WallClock) else type(ex).__name__, 'valid': False, 'n': 0, 'nq': 0}


def independent_agrees(data: bytes) -> int:
    """For datagrams beyond what TLC's StrictParse is given (600 octets): 1 when the independent parser (vf/wire.py) accepts the
    datagram, it uses supported types only, and the library's questions and records differ from the parser's; else 0."""
    from props import wirefam as wf
    from zeroconf._protocol.incoming import DNSIncoming
    try:
        m = wire.parse(data)
    except wire.WireError:
        return 0
    if any(e.type not in (1, 28, 12, 5, 16, 33, 13, 47) for e in m.records()):
        return 0
    if any(len(e.name.text) > 253 for e in m.entries()):
        return 0
    try:
        inc = DNSIncoming(data)
        if not inc.valid:
            return 1
        lq = [('q', q.name, q.type, q.class_ | (0x8000 if q.unique else 0)) for q in inc.questions]
        lr = [wf.key_of_lib_record(r) for r in inc.answers()]
    except Exception:  # noqa: BLE001
        return 1
    return 0 if lq == [wf.key_of_entry(e) for e in m.questions] and lr == [wf.key_of_entry(e) for e in m.records()] else 1


def make_case(job: Tuple[str, bytes]) -> dict:
    cid, data = job
    lib = lib_decode(data)
    sc = scoped_decode(data)
    return {'id': cid, 'b': list(data), 'lib': {'exc': lib['exc'], 'valid': lib['valid'], 'qs': lib['qs'], 'rrs': lib['rrs']},
            'events': lib['events'], 'maxName': lib['maxName'], 'faith': len(data) <= 600 and faithful_domain(data),
            'scoped': {'exc': sc['exc'], 'valid': sc['valid'], 'n': sc['n'], 'nq': sc['nq']},
            'bigDiffers': independent_agrees(data) if len(data) > 600 and cid.startswith('big') else 0}


# ------------------------------------------------------------------------------ generators
def enum_small(maxlen: int) -> List[bytes]:
    out = []
    for counts in ((1, 0), (0, 1), (1, 1)):
        hdr = bytes([0, 0, 0x84 if counts[0] == 0 else 0, 0, 0, counts[0], 0, counts[1], 0, 0, 0, 0])
        for n in range(0, maxlen + 1):
            for body in itertools.product(ALPHABET, repeat=n):
                out.append(hdr + bytes(body))
    return out


def valid_messages(rng: random.Random, n: int) -> List[bytes]:
    from props import wirefam as wf
    from zeroconf import DNSQuestion
    from zeroconf._protocol.outgoing import DNSOutgoing
    out: List[bytes] = []
    while len(out) < n:
        wf.ASCII_ONLY = rng.random() < 0.85       # TLC's StrictParse judges Faithful on ASCII names (see Wire.tla)
        msg = wf.gen_message(rng, big=rng.random() < 0.1, allow_long=False)
        small = rng.random() < 0.8           # most of them small enough for TLC's StrictParse (<= 600 octets)
        o = DNSOutgoing(0 if msg['query'] else 0x8400, msg['multicast'], msg['id'])
        try:
            for q in msg['qs'][:2 if small else 20]:
                o.add_question(DNSQuestion(q['name'], q['type'], q['cls']))
            for r in msg['an'][:rng.choice([1, 2, 4]) if small else 30]:
                if small and r['kind'] == 'TXT' and len(r['rd']) > 200:
                    continue
                o.add_answer_at_time(wf.make_record(r), 0)
            for r in msg['ar'][:1 if small else 10]:
                if small and r['kind'] == 'TXT' and len(r['rd']) > 200:
                    continue
                o.add_additional_answer(wf.make_record(r))
            out += o.packets()
        except Exception:  # noqa: BLE001
            continue
    wf.ASCII_ONLY = False
    return out[:n]


def mutate(rng: random.Random, data: bytes) -> bytes:
    b = bytearray(data)
    for _ in range(rng.choice([1, 1, 2, 4])):
        op = rng.random()
        if not b:
            break
        if op < 0.3:
            i = rng.randrange(len(b))
            b[i] ^= 1 << rng.randrange(8)
        elif op < 0.45:
            b = b[:rng.randrange(len(b) + 1)]
        elif op < 0.6:
            i = rng.randrange(len(b) + 1)
            b[i:i] = bytes(rng.randrange(256) for _ in range(rng.choice([1, 2, 10])))
        elif op < 0.75 and len(b) >= 12:
            i = rng.choice([4, 5, 6, 7, 8, 9, 10, 11])
            b[i] = rng.choice([0, 1, 2, 255, b[i] + 1 & 255])
        elif op < 0.9 and len(b) > 14:
            # pointer rewiring / length corruption somewhere in the body
            i = rng.randrange(12, len(b) - 1)
            b[i] = rng.choice([0xC0, 0xC0, 0x3F, 0x40, 0xFF, 0])
            b[i + 1] = rng.choice([i & 255, (i - 1) & 255, 12, 0, 0xFF, rng.randrange(256)])
        else:
            i = rng.randrange(len(b))
            b[i] = rng.randrange(256)
    return bytes(b)


def hostile(rng: random.Random) -> bytes:
    """Adversarial compression graphs up to the datagram limit."""
    kind = rng.choice(['chain', 'chain', 'cycle', 'self', 'forward', 'deepchain', 'labels', 'rdata-pointer', 'manyq', 'longrd', 'longrd',
                       'longptr', 'longptr', 'nsecmap', 'nsecmap', 'labelchain', 'labelchain'])
    hdr = bytearray([0, 0, 0x84, 0, 0, 0, 0, 1, 0, 0, 0, 0])
    if kind == 'labelchain':
        # a chain of hops that each carry one label and a pointer to the previous hop: the expanded name grows with every hop
        hops = rng.choice([5, 100, 127, 128, 129, 1000, 2000])
        body = bytearray(b'\x01z\x00')
        base = 12 + 3 + 10
        prev = base
        pos = base + len(body)
        for _ in range(hops):
            if pos >= 0x3FF0 or 12 + 3 + 10 + len(body) + 4 + 14 > 8966:
                break
            body += b'\x01a' + bytes([0xC0 | (prev >> 8), prev & 255])
            prev = pos
            pos += 4
        txt = bytes([1]) + b'x' + bytes([0]) + bytes([0, 16, 0, 1, 0, 0, 0, 120, len(body) >> 8, len(body) & 255]) + bytes(body)
        rec = bytes([0xC0 | (prev >> 8), prev & 255]) + bytes([0, 16, 0, 1, 0, 0, 0, 120, 0, 0])
        hdr[7] = 2
        if rng.random() < 0.5:
            # the same as a query: the question's name enters the chain (which sits behind it, in an additional record's rdata)
            q = bytearray([0, 0, 0, 0, 0, 1, 0, 0, 0, 0, 0, 1])
            qn = bytes([0xC0 | ((prev + 6) >> 8), (prev + 6) & 255]) + bytes([0, 12, 0, 1])
            body2 = bytearray(b'\x01z\x00')
            base2 = 12 + len(qn) + 3 + 10
            prev2, pos2 = base2, base2 + 3
            for _ in range(hops):
                if pos2 >= 0x3FF0 or base2 + len(body2) + 4 > 8966:
                    break
                body2 += b'\x01a' + bytes([0xC0 | (prev2 >> 8), prev2 & 255])
                prev2 = pos2
                pos2 += 4
            qn = bytes([0xC0 | (prev2 >> 8), prev2 & 255]) + bytes([0, 12, 0, 1])
            return bytes(q) + qn + bytes([1]) + b'x' + bytes([0]) + bytes([0, 16, 0, 1, 0, 0, 0, 120, len(body2) >> 8, len(body2) & 255]) + bytes(body2)
        return bytes(hdr) + txt + rec
    if kind == 'nsecmap':
        # the type bitmap of an NSEC record: window blocks that are empty, repeated, out of order, longer than 32 octets, or that
        # run past the end of the rdata (a block nobody advances over is a loop that never ends)
        owner = b'\x04host\x05local\x00'
        blocks = bytearray()
        for _ in range(rng.choice([1, 2, 3, 6])):
            form = rng.choice(['empty', 'empty', 'ok', 'ok', 'long', 'overrun', 'dupwin'])
            win = rng.choice([0, 0, 1, 255])
            if form == 'empty':
                blocks += bytes([win, 0])
            elif form == 'ok':
                n = rng.choice([1, 4, 32])
                blocks += bytes([win, n]) + rng.randbytes(n)
            elif form == 'long':
                n = rng.choice([33, 64, 255])
                blocks += bytes([win, n]) + rng.randbytes(n)
            elif form == 'overrun':
                blocks += bytes([win, rng.choice([5, 32, 200])]) + rng.randbytes(rng.choice([0, 1, 3]))
            else:
                blocks += bytes([0, 1, 0x40, 0, 1, 0x40])
        nxt = rng.choice([b'\xc0\x0c', owner, b'\x00'])
        rd = nxt + bytes(blocks)
        if rng.random() < 0.2:
            rd = rd[:rng.randint(0, len(rd))]
        rec = owner + bytes([0, 47, 0x80, 1, 0, 0, 0, 120, len(rd) >> 8, len(rd) & 255]) + rd
        tail = b''
        if rng.random() < 0.5:
            hdr[7] = 2
            tail = b'\xc0\x0c' + bytes([0, 1, 0, 1, 0, 0, 0, 120, 0, 4, 10, 0, 0, 1])
        if rng.random() < 0.3:
            hdr[5] = 1          # with a question: the records are read lazily by answers()
            return bytes(hdr) + owner + bytes([0, 47, 0, 1]) + rec.replace(owner, b'\xc0\x0c', 1) + tail
        return bytes(hdr) + rec + tail
    if kind == 'longptr':
        # names that are within the limit where they are spelled but end in a pointer to another name, so that what they expand
        # to lies around / beyond 253 characters: in a question, an owner name, and the name inside rdata
        def labels(total: int, ch: int) -> bytes:
            out = bytearray()
            while total > 0:
                n = min(total - 1, rng.choice([1, 7, 20, 40, 63]))
                if n <= 0:
                    break
                out += bytes([n]) + bytes([ch]) * n
                total -= n + 1
            return bytes(out)
        la = rng.choice([100, 150, 204, 240, 250])                   # characters of the first name (with its dots)
        total = rng.choice([250, 252, 253, 254, 255, 256, 300, 368, 450])
        lb = max(2, min(250, total - la))
        first = labels(la, 97) + b'\x00'
        q1 = first + bytes([0, 12, 0, 1])
        p = bytes([0xC0, 12])
        second = labels(lb, 98) + p
        where = rng.choice(['q', 'owner', 'rd'])
        if where == 'q':
            hdr2 = bytearray([0, 0, 0, 0, 0, 2, 0, 0, 0, 0, 0, 0])
            return bytes(hdr2) + q1 + second + bytes([0, 12, 0, 1])
        hdr2 = bytearray([0, 0, 0x84, 0, 0, 1, 0, 1, 0, 0, 0, 0])
        if where == 'owner':
            return bytes(hdr2) + q1 + second + bytes([0, 16, 0, 1, 0, 0, 0, 120, 0, 2, 1, 97])
        return bytes(hdr2) + q1 + b'\x01y\x00' + bytes([0, 12, 0, 1, 0, 0, 0, 120, len(second) >> 8, len(second) & 255]) + second
    if kind in ('chain', 'deepchain'):
        # pointer i points to pointer i-1 ... down to a terminating name
        hops = rng.choice([2, 10, 126, 127, 128, 129, 500]) if kind == 'chain' else rng.choice([1000, 1500, 3000, 4400])
        body = bytearray(b'\x01a\x00')
        first = 12
        pos = 12 + len(body)
        prev = first
        for _ in range(hops):
            body += bytes([0xC0 | (prev >> 8), prev & 255])
            prev = pos
            pos += 2
        name_at = prev
        rec = bytes([0xC0 | (name_at >> 8), name_at & 255]) + bytes([0, 16, 0, 1, 0, 0, 0, 120, 0, 0])
        # the chain sits inside the rdata of a TXT record so that it is skipped as data, then a record whose name enters the chain
        txt = bytes([1]) + b'x' + bytes([0]) + bytes([0, 16, 0, 1, 0, 0, 0, 120, len(body) >> 8, len(body) & 255]) + bytes(body)
        hdr[7] = 2
        data = bytes(hdr) + txt
        shift = len(bytes(hdr) + bytes([1]) + b'x' + bytes([0]) + bytes(10)) - 12
        # rebuild with correct absolute offsets
        body = bytearray(b'\x01a\x00')
        base = 12 + 3 + 10
        pos = base + len(body)
        prev = base
        for _ in range(hops):
            body += bytes([0xC0 | (prev >> 8), prev & 255])
            prev = pos
            pos += 2
        if prev >= 0x3FFF:
            prev = base
        txt = bytes([1]) + b'x' + bytes([0]) + bytes([0, 16, 0, 1, 0, 0, 0, 120, len(body) >> 8, len(body) & 255]) + bytes(body)
        rec = bytes([0xC0 | (prev >> 8), prev & 255]) + bytes([0, 16, 0, 1, 0, 0, 0, 120, 0, 0])
        return bytes(hdr) + txt + rec
    if kind == 'cycle':
        return bytes(hdr) + bytes([0xC0, 14, 0xC0, 12]) + bytes([0, 16, 0, 1, 0, 0, 0, 1, 0, 0])
    if kind == 'self':
        return bytes(hdr) + bytes([0xC0, 12]) + bytes([0, 16, 0, 1, 0, 0, 0, 1, 0, 0])
    if kind == 'forward':
        return bytes(hdr) + bytes([0xC0, 30]) + bytes([0, 16, 0, 1, 0, 0, 0, 1, 0, 4]) + b'\x01a\x00\x00' + bytes(10)
    if kind == 'labels':
        n = rng.choice([120, 127, 128, 129, 200])
        name = b''.join(bytes([1]) + b'a' for _ in range(n)) + b'\0'
        return bytes(hdr) + name + bytes([0, 16, 0, 1, 0, 0, 0, 1, 0, 0])
    if kind == 'longrd':
        # a PTR whose rdata name is around / beyond the 253 character limit, then records whose owner name (and rdata name) are
        # bare pointers to the start of that rdata name: the limit holds however a name is reached
        tail = rng.choice([1, 2, 3, 4, 9, 40])
        long_name = b''.join(bytes([49]) + bytes([97 + k]) * 49 for k in range(5)) + bytes([tail]) + b'z' * tail + b'\0'
        first = b'\x01x\x00' + bytes([0, 12, 0, 1, 0, 0, 0, 120, len(long_name) >> 8, len(long_name) & 255]) + long_name
        at = 12 + 3 + 10
        p2 = bytes([0xC0 | (at >> 8), at & 255])
        second = p2 + bytes([0, 16, 0, 1, 0, 0, 0, 120, 0, 2, 1, 97])
        third = b'\x01y\x00' + bytes([0, 12, 0, 1, 0, 0, 0, 120, 0, 2]) + p2
        recs = [first] + rng.choice([[second, third], [third, second], [second], [third]])
        hdr[7] = len(recs)
        return bytes(hdr) + b''.join(recs)
    if kind == 'rdata-pointer':
        # a PTR whose rdata name points into the rdata of an earlier TXT record
        hdr[7] = 2
        txt = b'\x01x\x00' + bytes([0, 16, 0, 1, 0, 0, 0, 120, 0, 5]) + b'\x03abc\x00'
        ptr = b'\x01y\x00' + bytes([0, 12, 0, 1, 0, 0, 0, 120, 0, 2, 0xC0, 12 + 3 + 10])
        return bytes(hdr) + txt + ptr
    # manyq: a few thousand questions that all walk the same chain of empty pointers
    hdr = bytearray([0, 0, 0, 0, 0, 0, 0, 0, 0, 0, 0, 0])
    nq = rng.choice([100, 1000, 1700])
    chain = bytearray(b'\x00')
    base = 12
    pos = base + 1
    prev = base
    for _ in range(rng.choice([10, 100, 126])):
        chain += bytes([0xC0 | (prev >> 8), prev & 255])
        prev = pos
        pos += 2
    # the chain cannot sit before the first question without being a question itself: make it question 1
    body = bytes(chain[1:]) if False else b''
    qs = bytearray()
    first_q = bytes([0]) + bytes([0, 1, 0, 1])        # root name question at offset 12
    qs += first_q
    prev = 12
    pos = 12 + len(first_q)
    for _ in range(nq):
        qs += bytes([0xC0 | (prev >> 8), prev & 255, 0, 1, 0, 1])
        prev = pos
        pos += 6
        if pos > 8900 or prev > 0x3FF0:
            break
    n_total = 1 + (len(qs) - len(first_q)) // 6
    hdr[4] = n_total >> 8
    hdr[5] = n_total & 255
    return bytes(hdr) + bytes(qs)


def soak_main() -> None:
    """Decode every datagram given on stdin (hex, JSON list), twice over, in this one process; report those that raise."""
    import zeroconf
    from zeroconf._protocol.incoming import DNSIncoming
    assert zeroconf.__file__.startswith(__import__('os').environ.get('VERIF_REPO', '/repo')), zeroconf.__file__
    datas = [bytes.fromhex(h) for h in json.load(sys.stdin)]
    bad = []
    n = 0
    signal.signal(signal.SIGALRM, lambda *_a: (_ for _ in ()).throw(TimeoutError()))
    for rnd in range(2):
        for k, d in enumerate(datas):
            n += 1
            # a second source address per round: the text of a decoder's log message may contain it
            try:
                signal.setitimer(signal.ITIMER_REAL, WALL_LIMIT_S)
                inc = DNSIncoming(d, ('10.0.%d.%d' % (rnd, k % 250), 5353))
                inc.answers()
            except BaseException as ex:  # noqa: BLE001
                if len(bad) < 20:
                    bad.append({'n': n, 'hex': d.hex(), 'exc': type(ex).__name__})
            finally:
                signal.setitimer(signal.ITIMER_REAL, 0)
    print(json.dumps({'n': n, 'bad': bad}))


def run(ctx: Ctx) -> None:
    # the operations documented as thread-safe, under every single pre-emption by the other thread (props/threadsfam.py, Trace_Threads.tla)
    from props import threadsfam
    threadsfam.run(ctx, 'C02')
    rng = random.Random(ctx.seed * 7919 + 2)
    datas: List[bytes] = []
    small = enum_small(ctx.pick(4, 6))
    n_small = len(small)
    datas += small
    valid = valid_messages(rng, ctx.pick(400, 6000))
    datas += valid
    for d in valid:
        for _ in range(ctx.pick(3, 8)):
            datas.append(mutate(rng, d))
    for _ in range(ctx.pick(150, 2000)):
        datas.append(hostile(rng))
    for _ in range(ctx.pick(300, 5000)):
        n = rng.choice([0, 1, 11, 12, 13, 20, 60, 300, 1500, 8966])
        datas.append(rng.randbytes(n))
    # responses cut off inside the rdata of an address record (every length of the last record)
    for k in range(ctx.pick(6, 40)):
        nm = b'\x04host\x05local\x00'
        full = bytes([0, 0, 0x84, 0, 0, 0, 0, 2, 0, 0, 0, 0]) + nm + bytes([0, 1, 0x80, 1, 0, 0, 0, 120, 0, 4, 10, 0, 0, k]) + \
            b'\xc0\x0c' + bytes([0, 28, 0x80, 1, 0, 0, 0, 120, 0, 16]) + rng.choice([b'\xfe\x80', b'\x20\x01']) + bytes(13) + bytes([k + 1])
        for cut in range(len(full) - 17, len(full)):
            datas.append(full[:cut])
    datas = [d for d in datas if len(d) <= 8966]
    uniq = list(dict.fromkeys(datas))
    jobs = [('b%d' % k, d) for k, d in enumerate(uniq)]
    # large well-formed responses with hundreds of compression pointers (two per record): beyond TLC's StrictParse, compared with
    # the independent parser of the harness
    for k, nrec in enumerate(ctx.pick([50, 366, 500, 640], [10, 50, 200, 365, 366, 400, 500, 600, 640])):
        first = b'\x05_bulk\x04_tcp\x05local\x00'
        body = bytearray([0, 0, 0x84, 0, 0, 0, nrec >> 8, nrec & 255, 0, 0, 0, 0])
        for i in range(nrec):
            owner = first if i == 0 else b'\xc0\x0c'
            inst = b'\x04i%03d' % i + b'\xc0\x0c'
            body += owner + bytes([0, 12, 0, 1, 0, 0, 0x11, 0x94, 0, len(inst)]) + inst
        if len(body) <= 8966:
            jobs.append(('big%d' % k, bytes(body)))
    ctx.log('%d byte strings (%d enumerated over the adversarial alphabet)' % (len(jobs), n_small))
    with mp.get_context('fork').Pool(16 if ctx.thorough else 8) as pool:
        cases = pool.map(make_case, jobs, chunksize=64)
    # the valid messages once more, three message objects alive at a time (constructed first, read afterwards)
    pool = [(k, d) for k, d in enumerate(uniq) if d in set(valid)]
    rng.shuffle(pool)
    inter = 0
    for g in range(0, len(pool) - 2, 3):
        cases += interleaved_cases([('i%d' % k, d) for k, d in pool[g:g + 3]])
        inter += 3
    # TLC batches: bounded by total octets (JSON-deserialised sequences index slowly)
    batches: List[List[dict]] = [[]]
    w = 0
    for c in cases:
        cw = 40 + len(c['b']) + 8 * (len(c['lib']['qs']) + len(c['lib']['rrs']))
        if w + cw > 1500000 and batches[-1]:
            batches.append([])
            w = 0
        if not c['faith'] and len(c['b']) > 600:
            # large datagrams outside the Faithful domain: TLC only needs the verdict fields
            c = dict(c)
            c['b'] = c['b'][:0] + [0] * 0 if False else c['b']
        batches[-1].append(c)
        w += cw

    def one(b: List[dict]) -> dict:
        return tlc.run_oracle('Oracle_C02', 'Oracle_C02', b, 'c02', timeout=3000, env={'JAVA_TOOL_OPTIONS': '-Xss1g'})
    with ThreadPoolExecutor(max_workers=8 if ctx.thorough else 6) as ex:
        results = list(ex.map(one, batches))
    judged = sum(inf[2] for r in results for inf in r['infos'] if inf[1] == 'cases')
    strict_ok = sum(inf[4] for r in results for inf in r['infos'] if inf[1] == 'cases')
    if judged != len(cases):
        raise Machinery('TLC judged %d of %d cases' % (judged, len(cases)))
    by_id = {c['id']: c for c in cases}
    for r in results:
        for v in r['verdicts']:
            cid, clause = v[1], v[3]
            c = by_id[cid]
            data = bytes(c['b'])
            disc = 'plain'
            if clause == 'C02_Total':
                disc = c['lib']['exc']
                if c['lib']['exc'] == 'RecursionError':
                    disc = 'RecursionError-deep-pointer-chain'
            what = '%s: %d-byte datagram %s... -> exc=%r valid=%s events=%d' % (clause, len(data), data[:40].hex(), c['lib']['exc'],
                                                                                c['lib']['valid'], c['events'])
            ctx.report('%s/%s' % (clause, disc), what, {'data_hex': data.hex()})
    # the same byte strings once more, one after the other in ONE process (twice): the decoder is used by a long-running
    # instance, and what it remembers from earlier datagrams (logging tables, caches) must not make a later one raise
    import subprocess
    soak = subprocess.run([sys.executable, '-c', 'import sys, os, json\nsys.path.insert(0, os.path.join(os.environ.get("VERIF_REPO", "/repo"), "src"))\nsys.path.insert(0, %r)\n'
                           'from props import c02\nc02.soak_main()' % VERIF_DIR],
                          input=json.dumps([d.hex() for d in uniq]), capture_output=True, text=True, timeout=1800)
    if soak.returncode != 0 or not soak.stdout.strip():
        raise Machinery('soak pass failed to run: %s' % soak.stderr[-1500:])
    sres = json.loads(soak.stdout.strip().splitlines()[-1])
    for bad in sres['bad'][:5]:
        ctx.report('C02_Total/%s-in-a-long-sequence' % bad['exc'], 'C02_Total: datagram %s... raised %s when decoded as number %d of a long sequence in one '
                   'process (alone it does not)' % (bad['hex'][:60], bad['exc'], bad['n']), {'data_hex': bad['hex'], 'soak': True, 'position': bad['n']})
    cov = ctx.coverage
    cov.update({
        'soak_pass': {'datagrams_in_one_process': sres['n'], 'raised': len(sres['bad'])}, 'interleaved_message_objects': inter,
        'evaluations': len(cases), 'distinct_nontrivial': strict_ok,
        'rule': 'every string header++body with body <= %d octets over {00,01,0C,0D,40,C0,FF,61} and counts (1,0),(0,1),(1,1) '
                '(exhaustive); valid messages and %d mutants each (bit flips, truncation, insertion, count / length corruption, '
                'pointer rewiring); hostile compression graphs (chains up to 4400 hops, cycles, self/forward references, pointers '
                'into rdata, 128+ labels, thousands of questions walking one chain); random bytes; non-trivial = datagrams the '
                'strict parser accepts' % (ctx.pick(4, 6), ctx.pick(3, 8)),
        'enumerated_small_strings': n_small, 'strict_accepted': strict_ok,
        'library_valid': sum(1 for c in cases if c['lib']['valid']),
        'max_profile_events': max(c['events'] for c in cases),
        'max_events_per_octet': round(max(c['events'] / max(1, len(c['b'])) for c in cases if len(c['b']) > 100), 2),
        'states': sum(r.get('distinct', 1) for r in results), 'transitions': sum(r.get('states', 1) for r in results),
        'traces_validated_against_impl': len(cases),
        'samples': [{'hex': uniq[5].hex()}, {'hex': uniq[n_small + 3].hex()[:200]}, {'hex': uniq[-1].hex()[:120]}],
        'explanation': 'TLC (Oracle_C02.tla) evaluated Wire!StrictParse on each datagram and judged Total / Budget / NamesShort / Faithful',
    })
    ctx.assumptions += ['Faithful is judged by TLC for datagrams of at most 600 octets whose non-ASCII octets are invalid UTF-8 on their own',
                        'work budget = profile events (sys.setprofile), 5000 + 1000 per octet']


def replay(ctx: Ctx, path: str) -> None:
    import json
    rep = json.load(open(path))['replay']
    if rep.get('soak'):
        run(ctx)              # the datagram raises only after the history of the whole sequence: run the sequence again
        return
    data = bytes.fromhex(rep['data_hex'])
    c = make_case(('replay', data))
    res = tlc.run_oracle('Oracle_C02', 'Oracle_C02', [c], 'c02', env={'JAVA_TOOL_OPTIONS': '-Xss1g'})
    for v in res['verdicts']:
        ctx.report('%s/replay' % v[3], 'replayed datagram rejected', {'data_hex': data.hex()})
    ctx.coverage.update({'evaluations': 1, 'distinct_nontrivial': 2, 'rule': 'replay', 'samples': [data.hex()[:100]]})
