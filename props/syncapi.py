"""The synchronous API (Zeroconf.register_service / update_service / unregister_service / get_service_info / add_service_listener /
close, called from application threads while each instance runs its own loop thread): one history on two real blocking instances
in an interpreter of their own, real threads, real time.  The two instances are joined by a link made of their async_send
(every datagram one of them sends is logged and handed to both listeners through call_soon_threadsafe), so no packet depends on
the sandbox's network.  Real time is not exact: the contract (spec/Trace_SyncApi.tla) is about order, with generous deadlines."""
from __future__ import annotations

import json
import os
import subprocess
import sys
import threading
import time
from typing import Any, Dict, List, Optional

TYPE = '_syncapi._tcp.local.'
NAME = 'Mine.' + TYPE
HOST = 'mine-host.local.'
ADDR = {'A': '10.9.0.1', 'B': '10.9.0.2'}
GHOST = 'Ghost.' + TYPE          # announced once to B by a third party with a TTL of one second: expired, not yet purged, when looked up
SHORT = 'Short.' + TYPE          # announced and withdrawn while B's listener is still busy with an earlier callback


def record(sid: str, variant: int = 0) -> Optional[dict]:
    import socket
    sys.path.insert(0, os.path.dirname(os.path.dirname(os.path.abspath(__file__))))
    from vf import wire
    from zeroconf import ServiceInfo, ServiceListener, Zeroconf, const
    t0 = time.monotonic()
    lock = threading.Lock()
    events: List[dict] = [{'ev': 'start', 't': 0}]

    def ev(_ev: str, **kw: Any) -> None:
        with lock:
            e = {'ev': _ev, 't': int((time.monotonic() - t0) * 1000)}
            e.update(kw)
            events.append(e)
    # real time is not exact: a heartbeat measures by how much this process is kept waiting for a processor; a history recorded
    # while it was starved for longer than the margins of the contract is not judged (reported as skipped in the evidence)
    lag = {'max': 0.0, 'stop': False}

    def heartbeat() -> None:
        while not lag['stop']:
            a = time.monotonic()
            time.sleep(0.02)
            lag['max'] = max(lag['max'], time.monotonic() - a - 0.02)
    threading.Thread(target=heartbeat, daemon=True).start()
    if variant == 3:
        r = record_foreign_loop(sid, ev, events)
        lag['stop'] = True
        if r is not None and lag['max'] > 0.4:
            return {'id': sid, 'events': [], 'starved_ms': int(lag['max'] * 1000)}
        return r
    try:
        zcs = {'A': Zeroconf(interfaces=['127.0.0.1']), 'B': Zeroconf(interfaces=['127.0.0.1'])}
    except Exception:  # noqa: BLE001
        return None

    def classify(data: bytes) -> dict:
        m = wire.parse(data)
        mine = lambda r: r.name.text.lower() in (TYPE, NAME.lower(), HOST)      # noqa: E731
        if not m.is_response:
            return {'kind': 'probe' if m.authorities else 'query', 'qu': any(q.cls & 0x8000 for q in m.questions), 'n': len(m.questions)}
        recs = [r for r in m.records() if mine(r)]
        ptr = [r for r in recs if r.type == wire.T_PTR and r.name.text.lower() == TYPE]
        srv = [r for r in recs if r.type == wire.T_SRV]
        kind = 'other'
        if recs and all(r.ttl == 0 for r in recs):
            kind = 'bye'
        elif ptr or srv:
            kind = 'ann'
        return {'kind': kind, 'port': srv[0].rd[2] if srv else 0, 'nrec': len(recs)}

    def make_send(who: str) -> Any:
        zc = zcs[who]

        def send(out: Any, addr: Any = None, port: int = const._MDNS_PORT, v6_flow_scope: Any = (), transport: Any = None) -> None:
            if zc.done:
                return
            try:
                packets = out.packets()
            except Exception as ex:  # noqa: BLE001
                ev('exc', what='packets:' + type(ex).__name__)
                return
            for data in packets:
                try:
                    info = classify(data)
                except Exception as ex:  # noqa: BLE001
                    info = {'kind': 'bad', 'what': type(ex).__name__}
                uc = addr is not None
                ev('send', who=who, uc=uc, **info)
                for other, ozc in zcs.items():
                    if uc and ADDR[other] != addr:
                        continue
                    if ozc.done or ozc.loop is None or not ozc.engine.protocols:
                        continue
                    try:
                        ozc.loop.call_soon_threadsafe(ozc.engine.protocols[0].datagram_received, data, (ADDR[who], const._MDNS_PORT))
                    except RuntimeError:
                        pass
        return send
    for who in zcs:
        zcs[who].async_send = make_send(who)            # type: ignore[method-assign]

    def who_is(name: str) -> str:
        return {NAME.lower(): 'mine', SHORT.lower(): 'short', GHOST.lower(): 'ghost'}.get(name.lower(), 'other')

    def inject(zc: Any, answers: list) -> None:
        data = wire.build(flags=0x8400, answers=answers)
        zc.loop.call_soon_threadsafe(zc.engine.protocols[0].datagram_received, data, ('10.9.0.3', const._MDNS_PORT))
    slow = {'armed': variant == 2}

    class L(ServiceListener):
        def add_service(self, zc: Any, type_: str, name: str) -> None:
            ev('cb', kind='add', mine=name.lower() == NAME.lower(), name=who_is(name))
            if slow['armed'] and who_is(name) == 'mine':
                # a listener that is slow (the documented get_service_info from add_service can take seconds): meanwhile another
                # instance is announced and, in a later datagram, withdrawn
                slow['armed'] = False
                inject(zc, [(TYPE, wire.T_PTR, 1, 4500, SHORT)])
                time.sleep(0.3)
                inject(zc, [(TYPE, wire.T_PTR, 1, 0, SHORT)])
                time.sleep(0.3)

        def remove_service(self, zc: Any, type_: str, name: str) -> None:
            ev('cb', kind='rem', mine=name.lower() == NAME.lower(), name=who_is(name))

        def update_service(self, zc: Any, type_: str, name: str) -> None:
            ev('cb', kind='upd', mine=name.lower() == NAME.lower(), name=who_is(name))
    a, b = zcs['A'], zcs['B']

    def settled(what: str) -> None:
        ptrs = sorted({who_is(r.alias) for r in b.cache.get_all_by_details(TYPE, const._TYPE_PTR, const._CLASS_IN)
                       if not r.is_expired(time.monotonic() * 1000)})
        ev('settled', what=what, ptrs=ptrs)

    def lookup(timeout: int, registered: bool, port: int, name: str = NAME) -> None:
        ev('api', op='lookup', timeout=timeout, registered=registered, name=who_is(name))
        try:
            info = b.get_service_info(TYPE, name, timeout)
            ev('api_ret', op='lookup', ok=info is not None, port=(info.port or 0) if info else 0, want=port,
               host=bool(info and (info.server or '').lower() == HOST), addr=bool(info and socket.inet_aton('10.9.0.1') in info.addresses))
        except Exception as ex:  # noqa: BLE001
            ev('api_ret', op='lookup', ok=False, port=0, want=port, host=False, addr=False, exc=type(ex).__name__)
    try:
        inject(b, [(GHOST, wire.T_SRV, 1 | 0x8000, 1, (0, 0, 9, HOST)), (GHOST, wire.T_TXT, 1 | 0x8000, 1, b'\x03g=1'),
                   ('ghost-host.local.', wire.T_A, 1 | 0x8000, 1, bytes([10, 9, 0, 3])), (HOST, wire.T_A, 1 | 0x8000, 1, bytes([10, 9, 0, 1]))])
        if variant % 2 == 0:
            b.add_service_listener(TYPE, L())
            ev('bstart')
            time.sleep(0.2)
        info = ServiceInfo(TYPE, NAME, 8001, properties=b'\x03a=1', server=HOST, addresses=[socket.inet_aton('10.9.0.1')])
        ev('api', op='reg')
        try:
            a.register_service(info)
            ev('api_ret', op='reg', ok=True)
        except Exception as ex:  # noqa: BLE001
            ev('api_ret', op='reg', ok=False, exc=type(ex).__name__)
        if variant % 2 == 1:
            b.add_service_listener(TYPE, L())
            ev('bstart')
        time.sleep(0.5)
        settled('registered')
        lookup(3000, True, 8001)
        # (every record of the ghost expired a second or more ago and has not been purged yet: not found, and not from those)
        lookup(500, False, 0, GHOST)
        info2 = ServiceInfo(TYPE, NAME, 8002, properties=b'\x03a=2', server=HOST, addresses=[socket.inet_aton('10.9.0.1')])
        ev('api', op='upd')
        try:
            a.update_service(info2)
            ev('api_ret', op='upd', ok=True)
        except Exception as ex:  # noqa: BLE001
            ev('api_ret', op='upd', ok=False, exc=type(ex).__name__)
        if variant != 2:
            time.sleep(1.3)
            settled('updated')
            lookup(1000, True, 8002)
        # (variant 2: unregistered straight after the update returned -- update_service is a barrier for what follows)
        ev('api', op='unreg')
        try:
            a.unregister_service(info2)
            ev('api_ret', op='unreg', ok=True)
        except Exception as ex:  # noqa: BLE001
            ev('api_ret', op='unreg', ok=False, exc=type(ex).__name__)
        time.sleep(1.5)
        settled('unregistered')
        lookup(700, False, 0)
        for who in ('A', 'B'):
            ev('api', op='close', who=who)
            try:
                zcs[who].close()
                ev('api_ret', op='close', who=who, ok=True)
            except Exception as ex:  # noqa: BLE001
                ev('api_ret', op='close', who=who, ok=False, exc=type(ex).__name__)
    except Exception as ex:  # noqa: BLE001
        ev('exc', what=type(ex).__name__, msg=str(ex)[:100])
    time.sleep(1.0)
    ev('end')
    lag['stop'] = True
    if lag['max'] > 0.4:
        return {'id': sid, 'events': [], 'starved_ms': int(lag['max'] * 1000)}
    return {'id': sid, 'events': events}


def record_foreign_loop(sid: str, ev: Any, events: List[dict]) -> Optional[dict]:
    """One blocking Zeroconf constructed inside an application's running loop (no loop thread of its own), a record listener that
    close() does not remove, an address record with a TTL of one second in the cache, close() called from another thread while
    the loop keeps running: nothing may reach the listener afterwards -- the periodic purge (first due 10 s after start) included."""
    import asyncio
    from vf import wire
    from zeroconf import RecordUpdateListener, Zeroconf, const
    out: Dict[str, Any] = {}

    class RL(RecordUpdateListener):
        def async_update_records(self, zc: Any, now: float, records: Any) -> None:
            ev('cb', kind='rec', mine=False, name='other')

        def async_update_records_complete(self) -> None:
            pass

    async def app() -> None:
        loop = asyncio.get_running_loop()
        try:
            zc = Zeroconf(interfaces=['127.0.0.1'])
        except Exception:  # noqa: BLE001
            out['skip'] = True
            return
        zc.async_send = lambda *a, **k: ev('send', who='A', uc=False, kind='other', port=0, nrec=0) if not zc.done else None   # type: ignore[method-assign]
        await zc.async_wait_for_start()
        zc.add_listener(RL(), None)
        await asyncio.sleep(0.05)          # (the synchronous add_listener hands the registration to the loop)
        data = wire.build(flags=0x8400, answers=[('solo-host.local.', wire.T_A, 1 | 0x8000, 1, bytes([10, 9, 0, 7]))])
        zc.engine.protocols[0].datagram_received(data, ('10.9.0.3', const._MDNS_PORT))
        await asyncio.sleep(0.4)
        ev('api', op='close', who='A')
        try:
            await loop.run_in_executor(None, zc.close)
            ev('api_ret', op='close', who='A', ok=True)
        except Exception as ex:  # noqa: BLE001
            ev('api_ret', op='close', who='A', ok=False, exc=type(ex).__name__)
        await asyncio.sleep(10.6)
    events[0]['solo'] = True
    try:
        asyncio.run(app())
    except Exception as ex:  # noqa: BLE001
        ev('exc', what=type(ex).__name__, msg=str(ex)[:100])
    if out.get('skip'):
        return None
    ev('end')
    return {'id': sid, 'events': events}


def record_in_subprocess(sid: str, variant: int) -> Optional[dict]:
    verif = os.path.dirname(os.path.dirname(os.path.abspath(__file__)))
    code = ('import sys, json; sys.path.insert(0, %r); sys.path.insert(0, %r); from props import syncapi; '
            'print("TRACE " + json.dumps(syncapi.record(%r, %d)))'
            % (os.path.join(os.environ.get('VERIF_REPO', '/repo'), 'src'), verif, sid, variant))
    p = subprocess.run([sys.executable, '-c', code], capture_output=True, text=True, timeout=300)
    for line in p.stdout.splitlines():
        if line.startswith('TRACE '):
            return json.loads(line[6:])
    raise RuntimeError('sync-api recorder failed: %s' % (p.stdout + p.stderr)[-800:])


VARIANTS = {'C09': (0, 1), 'C18': (0, 1), 'C08': (0, 1, 2), 'C07': (0, 1, 2), 'C17': (0, 1, 3), 'C04': (2,)}


def run(ctx: Any, own: str, variants: Any = None) -> None:
    variants = variants or VARIANTS[own]
    from props import trace_run
    from vf.core import Machinery
    traces, skipped = [], []
    from concurrent.futures import ThreadPoolExecutor
    sids = ['%s-syncapi-%d' % (own.lower(), v) for v in variants]
    with ThreadPoolExecutor(len(sids)) as ex:
        got = list(ex.map(lambda p: record_in_subprocess(p[0], p[1]), zip(sids, variants)))
    starved = []
    for sid, tr in zip(sids, got):
        if tr is None:
            skipped.append(sid)
        elif tr.get('starved_ms'):
            starved.append({'id': sid, 'max_scheduling_lag_ms': tr['starved_ms']})
        else:
            traces.append(tr)
    rejected: Dict[str, int] = {}
    if traces:
        verdicts, states, trans = trace_run.validate('Trace_SyncApi', traces, {'own': own}, batch=10, par=1)
        by_id = {t['id']: t for t in traces}
        for v in verdicts:
            _, tid, ok, clause, pos = v[:5]
            if ok:
                continue
            rejected[clause] = rejected.get(clause, 0) + 1
            if clause.startswith('Trace_') or clause == '':
                raise Machinery('malformed sync-api trace %s at event %s (%r)' % (tid, pos, clause))
            evs = by_id[tid]['events']
            e = evs[pos - 1] if 0 < pos <= len(evs) else None
            ctx.report('%s/sync-api' % clause, '%s rejected event #%d of the synchronous-API history %s: %s' % (clause, pos, tid, e),
                       {'sync_api': tid, 'clause': clause, 'trace_tail': evs[max(0, pos - 12):pos]})
    ctx.coverage['sync_api'] = {'histories': len(traces), 'skipped_no_real_socket': skipped, 'skipped_machine_starved': starved,
                                'events': sum(len(t['events']) for t in traces), 'rejections_by_clause': rejected,
                                'what': 'two blocking Zeroconf instances (own loop threads) joined by an in-process link: register (probing), lookup, thread-based '
                                        'browser, update, lookup, unregister, lookup, close -- called from the application thread, real time; order and '
                                        'generous deadlines judged by TLC (Trace_SyncApi.tla)'}
    ctx.log('synchronous API: %d histories, rejected %s' % (len(traces), rejected))
