"""Generic record -> TLC-validate -> triage pipeline shared by the trace-validation checks."""
from __future__ import annotations

import importlib
import json
import multiprocessing as mp
from concurrent.futures import ThreadPoolExecutor
from typing import Any, Callable, Dict, List, Optional, Tuple

from vf import tlc
from vf.core import Ctx, Machinery


def _record(args: Tuple[str, str, dict]) -> dict:
    import signal
    from vf import simnet
    modname, clsname, sc = args
    mod = importlib.import_module(modname)

    def on_alarm(signum: int, frame: Any) -> None:
        raise simnet.ScenarioTimeout('scenario %s exceeded the wall-clock budget' % sc.get('id'))
    old = signal.signal(signal.SIGALRM, on_alarm)
    signal.setitimer(signal.ITIMER_REAL, SCENARIO_WALL_S)
    try:
        return getattr(mod, clsname)(sc).run()
    finally:
        signal.setitimer(signal.ITIMER_REAL, 0)
        signal.signal(signal.SIGALRM, old)


SCENARIO_WALL_S = 20          # a scenario normally takes milliseconds
MAX_ABORTED = 3               # a few runaway scenarios are enough to report; do not burn hours on the rest


def _aborted(tr: dict) -> bool:
    ev = tr.get('events') or []
    return bool(ev) and ev[-1].get('ev') == 'exc' and ev[-1].get('what') == 'Runaway'


def record_all(modname: str, clsname: str, scenarios: List[dict], procs: int) -> List[dict]:
    jobs = [(modname, clsname, sc) for sc in scenarios]
    out: List[dict] = []
    bad = 0
    if procs <= 1 or len(jobs) < 32:
        for j in jobs:
            tr = _record(j)
            out.append(tr)
            bad += _aborted(tr)
            if bad >= MAX_ABORTED:
                break
        return out
    with mp.get_context('fork').Pool(procs) as pool:
        for tr in pool.imap(_record, jobs, chunksize=2):
            out.append(tr)
            bad += _aborted(tr)
            if bad >= MAX_ABORTED:
                pool.terminate()
                break
    return out


def validate(module: str, traces: List[dict], common: Dict[str, Any], batch: int = 300, par: int = 4,
             timeout: int = 1800) -> Tuple[List[list], int, int]:
    batches = [traces[i:i + batch] for i in range(0, len(traces), batch)]

    def one(b: List[dict]) -> dict:
        payload = dict(common)
        payload['traces'] = b
        return tlc.run_oracle(module, module, payload, module, timeout=timeout)
    with ThreadPoolExecutor(max_workers=par) as ex:
        results = list(ex.map(one, batches))
    verdicts: List[list] = []
    states = trans = 0
    for r in results:
        verdicts += r['verdicts']
        states += r.get('distinct', 0)
        trans += r.get('states', 0)
    if len(verdicts) != len(traces):
        raise Machinery('TLC returned %d verdicts for %d traces\n%s' % (len(verdicts), len(traces), results[0]['out'][-3000:]))
    return verdicts, states, trans


def triage(ctx: Ctx, own: str, scenarios: List[dict], traces: List[dict], verdicts: List[list],
           discriminator: Optional[Callable[[dict, dict, str, int], str]] = None) -> Dict[str, Any]:
    by_id = {t['id']: t for t in traces}
    sc_by_id = {s['id']: s for s in scenarios}
    accepted = 0
    clause_counts: Dict[str, int] = {}
    for v in verdicts:
        _, tid, ok, clause, pos = v[:5]
        if ok:
            accepted += 1
            continue
        clause_counts[clause] = clause_counts.get(clause, 0) + 1
        if clause.startswith('Trace_') or clause == '':
            raise Machinery('malformed trace %s at event %s (%r)' % (tid, pos, clause))
        tr = by_id[tid]
        ev = tr['events'][pos - 1] if 0 < pos <= len(tr['events']) else None
        disc = discriminator(sc_by_id[tid], tr, clause, pos) if discriminator else 'plain'
        what = '%s rejected event #%d of scenario %s: %s' % (clause, pos, tid, json.dumps(ev)[:300])
        ctx.report(f'{clause}/{disc}', what, {'scenario': sc_by_id[tid], 'rejected_event_index': pos, 'clause': clause,
                                              'trace_tail': tr['events'][max(0, pos - 8):pos]})
    return {'accepted': accepted, 'rejections_by_clause': clause_counts}


def event_counts(traces: List[dict]) -> Dict[str, int]:
    c: Dict[str, int] = {}
    for t in traces:
        for e in t['events']:
            k = e['ev']
            c[k] = c.get(k, 0) + 1
    return c
