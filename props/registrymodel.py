"""Bindings 1-3 for the service registry (C03): spec/Registry.tla is explored exhaustively by TLC against RegistryContract.tla
(the configurations that create the index buckets before the duplicate check, and that take the index keys from the description
handed to remove instead of the registered one, must violate it); every history of its replay configuration is performed on a
real ServiceRegistry with real ServiceInfo objects -- names, types and hosts in changing letter case, a new object or the
registered one for updates and removals -- and what the calls raise and what every lookup returns afterwards is judged by TLC
against the same contract (Trace_Registry.tla)."""
from __future__ import annotations

import re
import socket
from typing import Any, Dict, List, Tuple

from props import schedmodel as sm
from vf import tlc
from vf.core import Ctx, Machinery

NAMES = {'n1': 'Alpha._http._tcp.local.', 'n2': 'beta._http._tcp.local.', 'n3': 'Gamma Ray._http._tcp.local.'}
TYPES = {'t1': '_http._tcp.local.', 't2': '_printer._sub._http._tcp.local.'}
HOSTS = {'h1': 'ash.local.', 'h2': 'Birch.local.'}


def low(s: str) -> str:
    return ''.join(chr(ord(c) + 32) if 'A' <= c <= 'Z' else c for c in s)


def recase(s: str, k: int) -> str:
    """Another spelling of the same name; the final 'local.' stays (the library insists on that spelling)."""
    if s.endswith('local.'):
        return _recase(s[:-6], k) + 'local.'
    return _recase(s, k)


def _recase(s: str, k: int) -> str:
    if k % 3 == 1:
        return ''.join(chr(ord(c) - 32) if 'a' <= c <= 'z' else c for c in s)
    if k % 3 == 2:
        return ''.join(chr(ord(c) - 32) if 'a' <= c <= 'z' else (chr(ord(c) + 32) if 'A' <= c <= 'Z' else c) for c in s)
    return s


class RegistryRecorder:
    def __init__(self, sc: dict) -> None:
        self.sc = sc

    def run(self) -> dict:
        from zeroconf import ServiceInfo
        from zeroconf._exceptions import ServiceNameAlreadyRegistered
        from zeroconf._services.registry import ServiceRegistry
        reg = ServiceRegistry()
        ids: Dict[int, Tuple[str, str, str]] = {}          # id(ServiceInfo) -> model description
        by_name: Dict[str, Any] = {}                       # the object registered under a name (what the application holds)
        events: List[dict] = [{'ev': 'start'}]
        var = self.sc.get('variant', 0)

        def desc_of(info: Any) -> dict:
            n, t, h = ids[id(info)]
            return {'name': n, 'type': t, 'host': h}

        def observe() -> dict:
            o: Dict[str, Any] = {'byname': {}, 'bytype': {}, 'byserver': {}}
            for n, full in NAMES.items():
                if n not in self.sc['names']:
                    continue
                got = reg.async_get_info_name(low(full))
                o['byname'][n] = [desc_of(got)] if got is not None else []
            for t, full in TYPES.items():
                o['bytype'][t] = [desc_of(i) for i in reg.async_get_infos_type(low(full))]
            for h, full in HOSTS.items():
                o['byserver'][h] = [desc_of(i) for i in reg.async_get_infos_server(low(full))]
            rev_t = {low(v): k for k, v in TYPES.items()}
            o['types'] = [rev_t.get(t, '?' + t) for t in reg.async_get_types()]
            o['has'] = bool(reg.has_entries)
            o['all'] = [desc_of(i) for i in reg.async_get_service_infos()]
            return o
        for k, (op, n, t, h) in enumerate(self.sc['ops']):
            # letter case changes from call to call; an update / removal is made with the registered object or with a new one
            sp = (var + k) % 3
            same_obj = op != 'add' and n in by_name and ((var >> 2) + k) % 2 == 0 and ids[id(by_name[n])] == (n, t, h)
            if same_obj:
                info = by_name[n]
            else:
                info = ServiceInfo(recase(TYPES[t], sp), recase(NAMES[n], sp), 80 + k, properties=b'', server=recase(HOSTS[h], sp + 2),
                                   addresses=[socket.inet_aton('10.0.0.%d' % (k + 1))])
                ids[id(info)] = (n, t, h)
                self._keep = getattr(self, '_keep', []) + [info]          # keep the objects alive: ids must stay unique
            ok = True
            exc = ''
            try:
                if op == 'add':
                    reg.async_add(info)
                elif op == 'remove':
                    reg.async_remove(info)
                else:
                    reg.async_update(info)
            except ServiceNameAlreadyRegistered:
                ok = False
                exc = 'ServiceNameAlreadyRegistered'
            except Exception as ex:  # noqa: BLE001
                ok = False
                exc = type(ex).__name__
            if ok and op in ('add', 'update'):
                by_name[n] = info
            elif ok and op == 'remove':
                by_name.pop(n, None)
            try:
                obs = observe()
            except Exception as ex:  # noqa: BLE001
                events.append({'ev': 'call', 'op': op, 'd': {'name': n, 'type': t, 'host': h}, 'ok': ok, 'exc': exc,
                               'obs': {'byname': {x: [] for x in self.sc['names']}, 'bytype': {x: [] for x in TYPES}, 'byserver': {x: [] for x in HOSTS},
                                       'types': ['lookup raised ' + type(ex).__name__], 'has': False, 'all': []}})
                break
            events.append({'ev': 'call', 'op': op, 'd': {'name': n, 'type': t, 'host': h}, 'ok': ok and exc == '', 'exc': exc, 'obs': obs})
            if exc not in ('', 'ServiceNameAlreadyRegistered'):
                break
        events.append({'ev': 'end'})
        return {'id': self.sc['id'], 'events': events}


def exhaustive_histories(cfg: str) -> List[tuple]:
    r = tlc.model_check('Registry', cfg, workers=1, coverage=False, timeout=1800)
    if not r['ok']:
        raise Machinery('Registry/%s: TLC reports %s' % (cfg, r['violated']))
    res = set()
    out = r['out']
    for m in re.finditer(r'<<\s*"BEHAVIOUR",', out):
        val = tlc._tla_to_py(' '.join(sm._balanced(out, m.start()).split()))
        if not isinstance(val, list) or len(val) != 2:
            raise Machinery('cannot parse BEHAVIOUR value: %r' % (val,))
        res.add(tuple((h['op'], h['d']['name'], h['d']['type'], h['d']['host'], bool(h['ok'])) for h in val[1]))
    return sorted(res)


def inductive(ctx: Ctx) -> Dict[str, Any]:
    """Apalache (thorough tier): the contract, strengthened by the shape of the two index lists, is an inductive invariant of the
    registry model's step relation (spec/RegistryInd.tla, a typed restatement over 3 names x 2 types x 2 hosts): it holds after
    histories of any length, not only the bounded ones TLC explores.  The defect step relation must break it."""
    import os
    import shutil
    import subprocess
    import tempfile
    out = tempfile.mkdtemp(prefix='apa.', dir=tlc.WORK if os.path.isdir(tlc.WORK) else None)
    spec = os.path.join(tlc.SPEC, 'RegistryInd.tla')

    def apa(args: List[str]) -> str:
        r = subprocess.run(['apalache-mc', 'check'] + args + ['--out-dir=' + out, spec], capture_output=True, text=True, timeout=1800)
        return r.stdout + r.stderr
    try:
        a = apa(['--init=Init', '--inv=IndInv', '--length=0'])
        b = apa(['--init=IndInit', '--inv=IndInv', '--length=1'])
        c = apa(['--init=IndInit', '--next=NextDefect', '--inv=IndInv', '--length=1'])
    finally:
        shutil.rmtree(out, ignore_errors=True)
    if 'The outcome is: NoError' not in a or 'The outcome is: NoError' not in b:
        raise Machinery('Apalache: IndInv is not established / not inductive for RegistryInd.tla:\n%s\n%s' % (a[-1500:], b[-1500:]))
    if 'The outcome is: Error' not in c:
        raise Machinery('Apalache: the defect step relation NextDefect must break IndInv:\n%s' % c[-1500:])
    return {'registry_inductive_invariant': 'Apalache 0.58: Init => IndInv; IndInv /\\ Next => IndInv\' (unbounded histories, 3 names x 2 types x 2 '
                                            'hosts); NextDefect (buckets before the duplicate check) violates it'}


def run(ctx: Ctx, own: str, replay_scs: Any = None) -> None:
    from props import trace_run
    predicted: Dict[str, list] = {}
    if replay_scs is None:
        r = tlc.model_check('Registry', 'MC_Registry' if ctx.thorough else 'MC_Registry_quick', workers=16, timeout=1800)
        if not r['ok']:
            raise Machinery('Registry model: TLC reports %s violated' % r['violated'])
        never = sorted(a for a in ('Add', 'Remove', 'Update') if r['actions'].get(a, 0) == 0)
        if never:
            raise Machinery('Registry model: actions never taken: %s' % never)
        for cfg in ('MC_Registry_buckets_defect', 'MC_Registry_remove_defect'):
            d = tlc.model_check('Registry', cfg, workers=16, timeout=900, coverage=False)
            if d['ok'] or d['violated'] != 'Contract':
                raise Machinery('Registry/%s must violate Contract' % cfg)
        hs = exhaustive_histories('MC_Registry_replay_big' if ctx.thorough else 'MC_Registry_replay')
        scs = []
        for k, h in enumerate(hs):
            sid = '%s-reg-%d' % (own.lower(), k)
            scs.append({'id': sid, 'names': ['n1', 'n2'], 'ops': [list(x[:4]) for x in h], 'variant': k % 12})
            predicted[sid] = [x[4] for x in h]
        if ctx.thorough or __import__('os').environ.get('VERIF_APALACHE'):
            ctx.coverage.update(inductive(ctx))
        ctx.coverage.update({'registry_model_states': r['states'], 'registry_model_distinct': r['distinct'], 'registry_model_actions': r['actions'],
                             'registry_defect_configs_violate': ['MC_Registry_buckets_defect', 'MC_Registry_remove_defect']})
    else:
        scs = replay_scs
    traces = trace_run.record_all('props.registrymodel', 'RegistryRecorder', scs, 16 if ctx.thorough else 8)
    common = {'names': ['n1', 'n2'], 'types': sorted(TYPES), 'hosts': sorted(HOSTS)}
    verdicts, states, trans = trace_run.validate('Trace_Registry', traces, common, batch=4000, par=4)
    by_id = {t['id']: t for t in traces}
    sc_by = {s['id']: s for s in scs}
    rejected: Dict[str, int] = {}
    for v in verdicts:
        _, tid, ok, clause, pos = v[:5]
        if ok:
            continue
        rejected[clause] = rejected.get(clause, 0) + 1
        if clause.startswith('Trace_') or clause == '':
            raise Machinery('malformed registry trace %s at event %s (%r)' % (tid, pos, clause))
        tr = by_id[tid]
        e = tr['events'][pos - 1] if 0 < pos <= len(tr['events']) else None
        ctx.report('%s/registry' % clause, '%s rejected call #%d of registry history %s: %s' % (clause, pos - 1, sc_by[tid]['ops'], e),
                   {'registry_history': sc_by[tid], 'clause': clause, 'rejected_event_index': pos})
    drift = []
    for tr in traces:
        p = predicted.get(tr['id'])
        if p is None:
            continue
        got = [e['ok'] for e in tr['events'] if e['ev'] == 'call']
        if got != p:
            drift.append({'history': sc_by[tr['id']]['ops'], 'real_ok': got, 'model_ok': p})
    for x in drift[:5]:
        print('MODEL-DRIFT property=%s registry history %s: calls succeeded %s, model predicts %s (evidence, not a verdict)' % (own, x['history'], x['real_ok'], x['model_ok']))
    ctx.coverage.update({'registry_histories_replayed': len(traces), 'registry_trace_states': states, 'registry_rejections_by_clause': rejected,
                         'registry_model_drift': len(drift),
                         'registry_constants': 'exhaustive: 2 (quick) / 3 (thorough) names x 2 types (a type and its subtype) x 2 hosts, 6 calls; replay: every '
                                               'history of 3 (quick) / 4 (thorough) calls add / update / remove over 8 descriptions, names / types / '
                                               'hosts re-cased from call to call, updates and removals with the registered object or a new one'})
    ctx.log('registry model: %d histories on the real registry, %d rejected by the contract (%s), drift %d' % (len(traces), sum(rejected.values()), rejected, len(drift)))
