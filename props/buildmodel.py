"""Bindings 1 and 2 for the message builder (C01, C14): spec/Build.tla -- DNSOutgoing.packets with its compression table,
rollback and the four section loops -- is explored exhaustively
  * with scaled-down limits (70 / 110 octets) over all inputs of a small universe, against TableSound / Sizes / Partition;
    the two implementation slips it was written to exclude (rollback keeps the table entry at the rollback offset, suffix
    offsets counted in characters) must violate TableSound;
  * with the real limits (1460 / 8966) over a universe whose TXT records put a datagram exactly at and one octet over a limit.
The behaviours of the second exploration are exported (one per input: the builder is deterministic), turned into real
questions / PTR / SRV / TXT records and built by the real DNSOutgoing; the datagram sizes and entry counts are compared with
the model's (drift), and the datagrams go through the Trace_Wire contract like every other message of the C14 / C01 checks."""
from __future__ import annotations

import random
import re
from typing import Any, Dict, List, Tuple

from vf import tlc
from vf.core import Ctx, Machinery

LABELS = {1: 'local', 2: '_tcp', 3: '_http', 4: 'h1', 5: 'Inst'}          # octets: MCLabelBytes of spec/MC_Build.tla


def name_text(seq: List[int]) -> str:
    return '.'.join(LABELS[i] for i in seq) + '.'


def check_models(ctx: Ctx) -> Dict[str, Any]:
    real_cfg = 'MC_Build_real' if ctx.thorough else 'MC_Build_real_quick'
    r = tlc.model_check('MC_Build', real_cfg, workers=16, timeout=3000)
    if not r['ok']:
        raise Machinery('Build model (%s): TLC reports %s violated' % (real_cfg, r['violated']))
    info: Dict[str, Any] = {'model': 'Build', 'model_states': r['states'], 'model_distinct': r['distinct'], 'model_depth': r['depth'],
                            'model_actions': r['actions'], 'configs': [real_cfg]}
    never = sorted(a for a in ('Write', 'Finish') if r['actions'].get(a, 0) == 0)
    if never:
        raise Machinery('Build model: actions never taken: %s' % never)
    viol = {}
    for cfg in ('MC_Build_rollback_defect', 'MC_Build_offset_defect'):
        d = tlc.model_check('MC_Build', cfg, workers=16, timeout=1200, coverage=False)
        if d['ok'] or d['violated'] != 'TableSound':
            raise Machinery('Build/%s must violate TableSound, got ok=%s violated=%s' % (cfg, d['ok'], d['violated']))
        viol[cfg] = d['violated']
    info['defect_configs_violate'] = viol
    if ctx.thorough:
        s = tlc.model_check('MC_Build', 'MC_Build', workers=16, timeout=3000, coverage=False)
        if not s['ok']:
            raise Machinery('Build model (scaled limits): TLC reports %s violated' % s['violated'])
        info['model_states'] += s['states']
        info['model_distinct'] += s['distinct']
        info['configs'].append('MC_Build')
    return info


def _entry(e: dict) -> dict:
    name = name_text(e['name'])
    if e['kind'] == 'q':
        return {'name': name, 'type': 12, 'cls': 1}
    if e['rname']:
        if e['fixed'] == 6:
            return {'kind': 'SRV', 'name': name, 'ttl': 120, 'cls': 1, 'rd': [0, 0, 80, name_text(e['rname'])]}
        if e['fixed'] == 0:
            return {'kind': 'PTR', 'name': name, 'ttl': 120, 'cls': 1, 'rd': name_text(e['rname'])}
        raise Machinery('no record kind has %d octets before its name' % e['fixed'])
    return {'kind': 'TXT', 'name': name, 'ttl': 120, 'cls': 1, 'rd': (b'x' * e['fixed']).hex()}


def behaviours(ctx: Ctx) -> List[Tuple[dict, List[Tuple[int, int]]]]:
    cfg = 'MC_Build_real_replay' if ctx.thorough else 'MC_Build_real_quick_replay'
    r = tlc.model_check('MC_Build', cfg, workers=1, coverage=False, timeout=3000)
    if not r['ok']:
        raise Machinery('Build/%s: TLC reports %s' % (cfg, r['violated']))
    out = r['out']
    res = []
    for m in re.finditer(r'<<\s*"BEHAVIOUR",', out):
        val = tlc._tla_to_py(' '.join(tlc.balanced(out, m.start()).split()))
        if not isinstance(val, list) or len(val) != 3:
            raise Machinery('cannot parse BEHAVIOUR value: %r' % (val,))
        res.append((val[1], [tuple(p) for p in (val[2] or [])]))
    return res


def model_messages(ctx: Ctx, limit: int) -> Tuple[List[dict], Dict[str, List[Tuple[int, int]]], int]:
    """Messages for the real builder (wirefam format) and the model's prediction per message id."""
    behs = behaviours(ctx)
    total = len(behs)
    if len(behs) > limit:
        rng = random.Random(ctx.seed * 7919 + 114)
        # keep every input that splits, sample the rest
        split = [b for b in behs if len(b[1]) > 1]
        rest = [b for b in behs if len(b[1]) <= 1]
        rng.shuffle(split)
        rng.shuffle(rest)
        behs = split[:limit * 3 // 4] + rest[:max(0, limit - min(len(split), limit * 3 // 4))]
    msgs = []
    preds: Dict[str, List[Tuple[int, int]]] = {}
    for k, (inp, pkts) in enumerate(behs):
        mid = 'build-model-%d' % k
        msg = {'_id': mid, 'multicast': k % 3 != 0, 'query': bool(inp.get('qd')) and k % 2 == 0, 'id': 0 if k % 3 else 4660, 'now': 0,
               'qs': [_entry(e) for e in (inp.get('qd') or [])], 'an': [_entry(e) for e in (inp.get('an') or [])],
               'ns': [_entry(e) for e in (inp.get('ns') or [])], 'ar': [_entry(e) for e in (inp.get('ar') or [])]}
        msgs.append(msg)
        preds[mid] = pkts
    return msgs, preds, total


def drift(ctx: Ctx, cases: List[dict], preds: Dict[str, List[Tuple[int, int]]], total: int, info: Dict[str, Any]) -> None:
    n = bad = multi = 0
    for c in cases:
        want = preds.get(c['id'])
        if want is None:
            continue
        n += 1
        got = [(p['len'], len(p['qs']) + len(p['an']) + len(p['ns']) + len(p['ar'])) for p in c['pkts']]
        if len(want) > 1:
            multi += 1
        if c['out'] != 'ok' or got != [tuple(w) for w in want]:
            bad += 1
            if bad <= 5:
                print('MODEL-DRIFT Build: message %s: model %s, real builder %s (%s)' % (c['id'], want[:6], got[:6], c['out']))
    ctx.log('Build model: %d distinct states; %d of %d behaviours replayed into the real builder (%d with several datagrams), drift: %d'
            % (info['model_distinct'], n, total, multi, bad))
    info.update({'behaviours': total, 'behaviours_replayed': n, 'replayed_with_several_datagrams': multi, 'drift': bad})
    ctx.coverage['build_model'] = {k: v for k, v in info.items() if k != 'model_actions'}
    ctx.coverage['states'] = ctx.coverage.get('states', 0) + info['model_distinct']
    ctx.coverage['transitions'] = ctx.coverage.get('transitions', 0) + info['model_states']
