"""C08 -- responder family check (see spec/Trace_Responder.tla, clauses C08_*)."""
from __future__ import annotations

from props.resp_run import run_family
from vf.core import Ctx


def run(ctx: Ctx) -> None:
    # the synchronous API from application threads, two blocking instances, real time (props/syncapi.py, Trace_SyncApi.tla)
    from props import syncapi
    syncapi.run(ctx, 'C08')
    from props import queuemodel as qm
    # the answer-queue model (spec/Queue.tla): NoResurrection holds exhaustively with the withdrawal of queued answers and is
    # violated without it (defect D6); its behaviours with unregistrations are replayed into the real responder
    info = qm.check_models(ctx)
    mscs, predicted = qm.model_scenarios(ctx, 'c08')
    mscs = [m for m in mscs if any(st['op'] == 'unreg' for st in m['steps'])]
    # unregistrations among the calls of the lifecycle model (spec/Lifecycle.tla; GoodbyeComplete, NoResurrection)
    from props import lifecyclemodel as lm
    linfo = lm.check_models(ctx)
    lscs, lpred = lm.model_scenarios(ctx, 'c08')
    lscs = [m for m in lscs if any(st['op'] == 'unreg' for st in m['steps'])]
    scenarios, traces = run_family(ctx, 'C08', 'c08', 400, 12000, mscs + lscs)
    ld = lm.drift(traces, {k: v for k, v in lpred.items() if k in {m['id'] for m in lscs}})
    for x in ld[:5]:
        print('MODEL-DRIFT property=C08 scenario=%s real multicasts %s, model predicts %s (evidence, not a verdict)' % (x['scenario'], x['real'], x['model']))
    ctx.coverage.update(linfo)
    ctx.coverage.update({'lifecycle_behaviours_replayed': len(lscs), 'lifecycle_model_drift': len(ld)})
    d = qm.drift(traces, predicted)
    for x in d[:5]:
        print('MODEL-DRIFT property=C08 scenario=%s real multicast answers %s, model predicts %s (evidence, not a verdict)'
              % (x['scenario'], x['real'], x['model']))
    ctx.coverage.update(info)
    ctx.coverage.update({'model_behaviours_replayed': len(mscs), 'model_drift': len(d), 'model_drift_samples': d[:3]})
    ctx.log('Queue model: %d distinct states; behaviours with unregistration replayed: %d, drift: %d'
            % (info['model_distinct'], len(mscs), len(d)))


def replay(ctx: Ctx, path: str) -> None:
    import json
    sc = json.load(open(path))['replay']['scenario']
    run_family(ctx, 'C08', 'c08', 0, 0, [sc])
