"""C14 -- message builder check (Trace_Wire.tla, clauses C14_*; spec/Build.tla explored and replayed, props/buildmodel.py)."""
from __future__ import annotations

from props import buildmodel as bm
from props.wire_run import run_family
from vf.core import Ctx


def run(ctx: Ctx) -> None:
    info = bm.check_models(ctx)
    msgs, preds, total = bm.model_messages(ctx, ctx.pick(6000, 400000))
    cases = run_family(ctx, 'C14', 1500, 40000, msgs)
    bm.drift(ctx, cases, preds, total, info)


def replay(ctx: Ctx, path: str) -> None:
    import json
    run_family(ctx, 'C14', 0, 0, [json.load(open(path))['replay']['message']])
