"""Link family harness (C07): several real instances on one simulated link with per-datagram delay, reordering,
duplication and the loss of one chosen datagram."""
from __future__ import annotations

import asyncio
import hashlib
import random
import socket
from typing import Any, Dict, List, Optional, Tuple

from vf import simnet, wire

TYPES = ['_http._tcp.local.', '_ipp._tcp.local.', '_ssh._tcp.local.', '_KeynoteCtl._tcp.local.']      # (one spelled with capitals, by everybody)


def low(s: str) -> str:
    return ''.join(chr(ord(c) + 32) if 'A' <= c <= 'Z' else c for c in s)


class Names:
    def __init__(self) -> None:
        self.ids: Dict[str, int] = {}

    def nb(self, s: str) -> int:
        k = low(s)
        if k not in self.ids:
            self.ids[k] = len(self.ids) + 1
        return self.ids[k]


class Recorder:
    def __init__(self, sc: dict) -> None:
        self.sc = sc
        self.names = Names()
        self.fault = sc.get('fault', {})
        self.net = simnet.Net(seed=sc.get('seed', 0), rand=sc.get('rand'), delay=self._delay, record_bytes=False)
        self.events: List[dict] = []
        self.hosts: Dict[str, Any] = {}
        self.infos: Dict[str, Any] = {}
        self.browsers: Dict[int, Any] = {}
        self.tasks: List[Any] = []
        self.nsend = 0
        self.stopped = False

    def ev(self, _ev: str, **kw: Any) -> None:
        if self.stopped:
            return
        e = {'ev': _ev, 't': self.net.now()}
        e.update({k: v for k, v in kw.items() if v is not None})
        self.events.append(e)

    # ------------------------------------------------------------ link faults
    def _delay(self, net: Any, ssock: Any, rsock: Any, n: int, data: bytes) -> Any:
        if ssock.host is rsock.host:
            return [0]                       # kernel loopback of one's own multicast: immediate, never lost
        f = self.fault
        rname = rsock.host.name
        if f.get('drop') == n and f.get('drop_for', 'all') in ('all', rname):
            return []
        for m in f.get('drop_match', []):
            # the datagram of a given kind that a given host sends at a given instant (replay of model behaviours)
            if m['from'] == ssock.host.name and m['t'] == net.now() and m['kind'] == self.kind_of(data, net, n):
                return []
        h = hashlib.blake2b(f"{self.sc.get('seed', 0)}|{n}|{rname}".encode(), digest_size=8).digest()
        x = int.from_bytes(h, 'big')
        maxd = f.get('max_delay', 0)
        d = (x % (maxd + 1)) if maxd else 0
        d += f.get('from_delay', {}).get(ssock.host.name, 0)      # a slow path from one host (asymmetric delay)
        plan = [d]
        if f.get('dup_permille', 0) and (x >> 20) % 1000 < f['dup_permille']:
            plan.append(d + ((x >> 32) % 30))
        return plan

    @staticmethod
    def kind_of(data: bytes, net: Any, n: int) -> str:
        """q: query with a PTR question and no authority section, u: response sent by unicast, r: multicast response carrying a
        pointer with positive TTL, g: multicast goodbye of a pointer."""
        try:
            m = wire.parse(data)
        except wire.WireError:
            return '?'
        if not m.is_response:
            return 'q' if any(q.type == wire.T_PTR for q in m.questions) and not m.authorities else 'p'
        ptrs = [r for r in m.answers if r.type == wire.T_PTR]
        dst = next((e['dst'] for e in reversed(net.log) if e['ev'] == 'send' and e.get('n') == n), simnet.MDNS_ADDR)
        if dst not in (simnet.MDNS_ADDR, simnet.MDNS_ADDR6):
            return 'u'
        if ptrs and all(r.ttl == 0 for r in ptrs):
            return 'g'
        return 'r' if ptrs else 'o'

    # ------------------------------------------------------------ scenario actions
    def make_info(self, svc: dict) -> Any:
        from zeroconf import ServiceInfo
        host = self.hosts[svc['host']]
        kw = {k: svc[k] for k in ('other_ttl', 'host_ttl') if k in svc}
        return ServiceInfo(svc['type'], svc['name'], svc['port'], properties=bytes.fromhex(svc['txt']), server=svc['host'] + '.local.',
                           addresses=[socket.inet_aton(host.addr)], **kw)

    def svc_json(self, svc: dict) -> dict:
        return {'name': self.names.nb(svc['name']), 'type': self.names.nb(svc['type']), 'host': self.names.nb(svc['host'] + '.local.'),
                'port': svc['port'], 'txt': self.names.nb('txt:' + svc['txt']), 'addr': self.names.nb('addr:' + self.hosts[svc['host']].addr),
                'on': svc['host']}

    async def register(self, svc: dict) -> None:
        h = self.hosts[svc['host']]
        info = self.make_info(svc)
        self.ev('api', op='reg', svc=self.svc_json(svc))
        try:
            task = await h.aiozc.async_register_service(info)
            self.infos[low(svc['name'])] = info
            self.ev('api_ret', op='reg', name=self.names.nb(info.name), ok=True)
            await task
        except Exception as ex:  # noqa: BLE001
            self.ev('api_ret', op='reg', name=self.names.nb(svc['name']), ok=False, exc=type(ex).__name__)

    async def unregister(self, svc: dict) -> None:
        info = self.infos.pop(low(svc['name']), None)
        if info is None:
            return
        h = self.hosts[svc['host']]
        self.ev('api', op='unreg', name=self.names.nb(svc['name']))
        task = await h.aiozc.async_unregister_service(info)
        await task

    async def close_host(self, hname: str) -> None:
        h = self.hosts[hname]
        gone = [n for n, i in list(self.infos.items()) if low(i.server or '') == low(hname + '.local.')]
        self.ev('api', op='close', host=hname, names=[self.names.nb(n) for n in gone])
        for n in gone:
            self.infos.pop(n, None)
        for bid, (b, bh) in list(self.browsers.items()):
            if bh == hname:
                self.ev('bstop', bid=bid)
                self.browsers.pop(bid)
        await h.aiozc.async_close()
        self.ev('api_ret', op='close', host=hname)

    def start_browser(self, st: dict) -> None:
        from zeroconf import ServiceListener
        from zeroconf.asyncio import AsyncServiceBrowser, AsyncServiceInfo
        rec = self
        h = self.hosts[st['host']]
        bid = st['bid']

        async def lookup(type_: str, name: str) -> None:
            info = AsyncServiceInfo(type_, name)
            t0 = rec.net.now()
            try:
                ok = await info.async_request(h.zc, 3000)
            except Exception as ex:  # noqa: BLE001
                rec.ev('lookup_ret', bid=bid, name=rec.names.nb(name), ok=False, exc=type(ex).__name__, t0=t0)
                return
            addrs = sorted(rec.names.nb('addr:' + socket.inet_ntoa(a)) for a in info.addresses)
            rec.ev('lookup_ret', bid=bid, name=rec.names.nb(name), ok=bool(ok), t0=t0,
                   host=rec.names.nb(info.server) if info.server else 0, port=info.port or 0,
                   txt=rec.names.nb('txt:' + (info.text or b'').hex()), addrs=addrs)

        ncb = {'n': 0}

        class BL(ServiceListener):
            def add_service(self, zc: Any, type_: str, name: str) -> None:
                rec.ev('cb', bid=bid, kind='add', ty=rec.names.nb(type_), name=rec.names.nb(name))
                if not rec.sc.get('no_lookup'):
                    rec.tasks.append(asyncio.ensure_future(lookup(type_, name)))
                ncb['n'] += 1
                if st.get('raise_at') == ncb['n'] and not ncb.get('starting'):
                    # a faulty application: this one callback raises (once)
                    rec.ev('uexc', bid=bid)
                    raise simnet.HarnessFault('browser callback raises')

            def remove_service(self, zc: Any, type_: str, name: str) -> None:
                rec.ev('cb', bid=bid, kind='rem', ty=rec.names.nb(type_), name=rec.names.nb(name))

            def update_service(self, zc: Any, type_: str, name: str) -> None:
                rec.ev('cb', bid=bid, kind='upd', ty=rec.names.nb(type_), name=rec.names.nb(name))
        self.ev('bstart', bid=bid, host=st['host'], types=[self.names.nb(t) for t in st['types']])
        ncb['starting'] = 1          # (not while the browser is being constructed: the replay of the cache to a new listener)
        try:
            if st.get('one_shot'):
                # the application uses handlers instead of a listener object: a one-shot handler ("tell me when the first service
                # shows up") that unregisters itself from inside its callback, in front of the handler that keeps track
                from zeroconf import ServiceStateChange
                bl = BL()
                holder: Dict[str, Any] = {}

                def one_shot(zeroconf: Any, service_type: str, name: str, state_change: Any) -> None:
                    b = holder.get('b')
                    if b is not None and not holder.get('gone'):
                        holder['gone'] = True
                        b.service_state_changed.unregister_handler(one_shot)

                def tracker(zeroconf: Any, service_type: str, name: str, state_change: Any) -> None:
                    if state_change is ServiceStateChange.Added:
                        bl.add_service(zeroconf, service_type, name)
                    elif state_change is ServiceStateChange.Removed:
                        bl.remove_service(zeroconf, service_type, name)
                    else:
                        bl.update_service(zeroconf, service_type, name)
                br = AsyncServiceBrowser(h.zc, list(st['types']), handlers=[one_shot, tracker])
                holder['b'] = br
                self.browsers[bid] = (br, st['host'])
            else:
                self.browsers[bid] = (AsyncServiceBrowser(h.zc, list(st['types']), listener=BL()), st['host'])
        finally:
            ncb['starting'] = 0

    async def main(self) -> None:
        net = self.net
        late = set(self.sc.get('late_hosts', []))
        for k, hn in enumerate(self.sc['hosts']):
            if hn not in late:
                self.hosts[hn] = await net.add_host(hn, '10.0.0.%d' % (k + 1))
        self.ev('start')
        net.on_send_hook = lambda e, data: None
        for st in self.sc['steps']:
            op = st['op']
            if op == 'at':
                await net.sleep_until(st['t'])
            elif op == 'host':
                # a machine that joins the link now (it has heard nothing so far)
                k = self.sc['hosts'].index(st['name'])
                self.hosts[st['name']] = await net.add_host(st['name'], '10.0.0.%d' % (k + 1))
            elif op == 'reg':
                self.tasks.append(asyncio.ensure_future(self.register(st['svc'])))
            elif op == 'unreg':
                self.tasks.append(asyncio.ensure_future(self.unregister(st['svc'])))
            elif op == 'close':
                self.tasks.append(asyncio.ensure_future(self.close_host(st['host'])))
            elif op == 'bstart':
                self.start_browser(st)
            elif op == 'check':
                self.ev('check', kind=st['kind'])
            elif op == 'inject':
                # a querier on the link that is not a library instance (its questions arrive exactly when the scenario says)
                qs = [(q[0], q[1], 1) for q in st['qs']]
                self.hosts[st['host']].inject(wire.build(id_=0, flags=0, questions=qs), src=st.get('src', '10.0.0.99'))
            else:
                raise ValueError(op)
            await asyncio.sleep(0)
        self.ev('end')
        self.stopped = True
        for (b, _) in self.browsers.values():
            await simnet.quiet(b.async_cancel())
        for t in self.tasks:
            if not t.done():
                t.cancel()
        for h in self.hosts.values():
            if not h.zc.done:
                await simnet.quiet(h.aiozc.async_close())

    def run(self) -> dict:
        self.net.run(self.main(), limit_ms=6 * 3600 * 1000)
        nsend = sum(1 for e in self.net.log if e['ev'] == 'send')
        excs = [e for e in self.net.log if e['ev'] == 'exc']
        evs = self.events
        last_t = evs[-1]['t'] if evs else 0
        for x in excs:
            if x.get('cls') == 'HarnessFault':
                continue             # the harness's own fault (logged as 'uexc')
            if x['t'] <= last_t:
                evs.append({'ev': 'exc', 't': x['t'], 'what': str(x.get('cls')), 'msg': str(x.get('msg'))[:100]})
        evs.sort(key=lambda e: e['t'])
        if self.net.aborted:
            evs = evs[:400] + [{'ev': 'exc', 't': evs[min(len(evs), 400) - 1]['t'] if evs else 0, 'what': 'Runaway'}]
        return {'id': self.sc['id'], 'events': evs, 'nsend': nsend}


# ------------------------------------------------------------------------------ generation
def gen_link(rng: random.Random, sid: str, thorough: bool = False) -> dict:
    nh = rng.choice([2, 2, 3, 4, 5] if thorough else [2, 2, 3, 4])
    hosts = ['node%d' % k for k in range(nh)]
    ntypes = rng.choice([1, 1, 2, 3])
    types = rng.sample(TYPES, ntypes)
    nsvc = rng.choice([1, 2, 3, 4, 6] if thorough else [1, 2, 3, 4])
    svcs = []
    for k in range(nsvc):
        svcs.append({'name': '%s-%d.%s' % (rng.choice(['Alpha', 'beta', 'Gamma Ray']), k, rng.choice(types)), 'type': None,
                     'host': rng.choice(hosts), 'port': rng.choice([80, 631, 8080, 128]), 'txt': rng.choice([b'\x03a=1', b'', b'\x04k=vv', b'\x7fk=' + b'x' * 125]).hex()})
        svcs[-1]['type'] = svcs[-1]['name'].split('.', 1)[1]
    evs: List[Tuple[int, int, dict]] = []
    k = 0
    t_reg = {}
    for s in svcs:
        t = rng.choice([0, 100, 500, 1500, 3000, 6000])
        t_reg[s['name']] = t
        evs.append((t, k, {'op': 'reg', 'svc': s}))
        k += 1
    nb = rng.choice([1, 1, 2, 3])
    for b in range(nb):
        t = rng.choice([0, 50, 400, 1000, 2500, 5000, 9000])
        bst = {'op': 'bstart', 'bid': b + 1, 'host': rng.choice(hosts), 'types': rng.sample(types, rng.randint(1, len(types)))}
        if rng.random() < 0.25:
            bst['one_shot'] = True
        if rng.random() < 0.3:
            bst['raise_at'] = rng.choice([1, 1, 2, 3])
        evs.append((t, k, bst))
        k += 1
    t_last = max(e[0] for e in evs)
    c1 = t_last + 16000
    evs.append((c1, k, {'op': 'check', 'kind': 'after-registration'}))
    k += 1
    t = c1 + 500
    # withdraw: unregister some services and / or close a host that only runs services
    gone = rng.sample(svcs, rng.randint(0, len(svcs)))
    for s in gone:
        evs.append((t + rng.choice([0, 10, 300]), k, {'op': 'unreg', 'svc': s}))
        k += 1
    closing = None
    bh = {e[2]['host'] for e in evs if e[2]['op'] == 'bstart'}
    cand = [h for h in hosts if h not in bh]
    if cand and rng.random() < 0.5:
        closing = rng.choice(cand)
        evs.append((t + rng.choice([0, 200, 600]), k, {'op': 'close', 'host': closing}))
        k += 1
    c2 = t + 600 + 2500
    evs.append((c2, k, {'op': 'check', 'kind': 'after-withdrawal'}))
    k += 1
    evs.sort(key=lambda x: (x[0], x[1]))
    steps: List[dict] = []
    for (tt, _, st) in evs:
        steps += [{'op': 'at', 't': tt}, st]
    steps.append({'op': 'at', 't': c2 + 500})
    return {'id': sid, 'seed': rng.randint(0, 10 ** 9), 'hosts': hosts, 'steps': steps, 'fault': {}}
