"""C17 -- shutdown is complete and quiet (clauses C17_* of Trace_Responder.tla)."""
from __future__ import annotations

import random

from props import respfam as rf
from props import trace_run
from props.resp_run import disc
from vf.core import Ctx


def disc17(sc: dict, tr: dict, clause: str, pos: int) -> str:
    if clause == 'C17_AnnouncedNotWithdrawn':
        evs = tr['events']
        tc = next((e['t'] for e in evs if e['ev'] == 'api' and e['op'] == 'close'), None)
        te = evs[pos - 1]['t'] if 0 < pos <= len(evs) else None
        if tc is not None and te is not None and any(e['ev'] == 'api_ret' and e['op'] == 'reg' and e.get('ok') and tc <= e['t'] <= te
                                                     for e in evs):
            return 'registration-completed-during-close'
    if clause == 'C17_GoodbyesBeforeClose':
        # finding D27: close requested while the goodbye sequence of an unregistration (of one service or of all) is still running
        evs = tr['events']
        tc = next((e['t'] for e in evs if e['ev'] == 'api' and e['op'] == 'close'), None)
        if tc is not None and any(e['ev'] == 'api' and e['op'] in ('unreg', 'unreg_all') and 0 <= tc - e['t'] < 250 for e in evs):
            return 'close-cuts-goodbyes-of-unregister'
    return disc(sc, tr, clause, pos)


def run_scenarios(ctx: Ctx, scenarios: list) -> list:
    # close() from a non-loop thread with a backlog of slow listener callbacks: real threads in real time, recorded while the
    # virtual-time scenarios run (props/c17sync.py)
    import threading
    from props import c17sync
    sync_scs = [sc for sc in scenarios if sc.get('sync')]
    scenarios = [sc for sc in scenarios if not sc.get('sync')]
    sync_traces: list = []

    errs: list = []

    def rec_sync() -> None:
        for sc in sync_scs:
            try:
                sync_traces.append(c17sync.record_in_subprocess(sc['sync']['n'], sc['sync']['cb'], sc['id'], sc['sync'].get('mode', 'backlog')))
            except Exception as ex:  # noqa: BLE001
                errs.append(ex)
    th = threading.Thread(target=rec_sync)
    th.start()
    traces = trace_run.record_all('props.respfam', 'Recorder', scenarios, 16 if ctx.thorough else 8) if scenarios else []
    th.join()
    if errs:
        from vf.core import Machinery
        raise Machinery('sync-close recorder: %s' % errs[0])
    skipped = [sc['id'] for sc, t in zip(sync_scs, sync_traces) if t is None]
    got = [(sc, t) for sc, t in zip(sync_scs, sync_traces) if t is not None]
    if got:
        # real time is not exact: these traces have their own, order-only contract (spec/Trace_SyncClose.tla)
        sv, sst, strn = trace_run.validate('Trace_SyncClose', [t for _, t in got], {'own': 'C17'}, batch=50, par=1)
        trace_run.triage(ctx, 'C17', [sc for sc, _ in got], [t for _, t in got], sv, lambda sc, tr, clause, pos: 'sync-' + sc['sync'].get('mode', 'backlog'))
    ctx.coverage['sync_close'] = {'histories': len(got), 'skipped_no_real_socket': skipped,
                                  'events': sum(len(t['events']) for _, t in got),
                                  'what': 'Zeroconf.close() from a non-loop thread (a) while the thread-based ServiceBrowser has a backlog of '
                                          'slow listener callbacks, (b) from a coroutine of another asyncio loop with a service registered; real '
                                          'threads, real time; Trace_SyncClose.tla: nothing fires or is sent after close returned, everything '
                                          'announced has been withdrawn'}
    ctx.log('recorded %d traces, %d events' % (len(traces), sum(len(t['events']) for t in traces)))
    verdicts, states, trans = trace_run.validate('Trace_Responder', traces, {'own': 'C17', 'slack': 5}, batch=250, par=4)
    res = trace_run.triage(ctx, 'C17', scenarios, traces, verdicts, disc17)
    inflight = {'queued_answers': 0, 'probing': 0, 'browser': 0, 'lookup': 0, 'tc_hold': 0, 'post_close_traffic': 0}
    nontrivial = set()
    for t in traces:
        tc = next((e['t'] for e in t['events'] if e['ev'] == 'api' and e['op'] == 'close'), None)
        if tc is None:
            continue
        evs = t['events']
        if any(e['ev'] == 'rand' and e['site'] == 'resp' and tc - 1200 <= e['t'] <= tc for e in evs):
            inflight['queued_answers'] += 1
        if any(e['ev'] == 'rand' and e['site'] == 'tc' and tc - 500 <= e['t'] <= tc for e in evs):
            inflight['tc_hold'] += 1
        if any(e['ev'] == 'api' and e['op'] == 'reg' and not e['coop'] and tc - 800 <= e['t'] <= tc for e in evs):
            inflight['probing'] += 1
        if any(e['ev'] == 'bstart' and e['t'] <= tc for e in evs):
            inflight['browser'] += 1
        if any(e['ev'] == 'lookup' and e['t'] <= tc for e in evs):
            inflight['lookup'] += 1
        if any(e['ev'] in ('recv',) and e['t'] > tc for e in evs):
            inflight['post_close_traffic'] += 1
        nontrivial.add(hash((tc, len(evs))))
    cov = ctx.coverage
    cov.update({'states': states, 'transitions': trans, 'traces_validated_against_impl': len(traces), 'evaluations': len(traces),
                'distinct_nontrivial': len(nontrivial),
                'rule': 'mixed scenarios (registered services, queued and rate-limited answers, held TC queries, a browser the user '
                        'never cancels, lookups and a probing registration in flight) closed at a random instant or a grid offset '
                        'after an event; then traffic 0 ms .. 4 h later and a second close; non-trivial = distinct (close instant, '
                        'trace length)',
                'in_flight_at_close': inflight, 'event_counts': trace_run.event_counts(traces),
                'samples': [{'scenario': scenarios[0]['id'], 'steps': scenarios[0]['steps'][-10:]}]})
    cov.update(res)
    ctx.assumptions += ['the link does not deliver to closed transports (as no socket would)',
                        'close() from a non-loop thread is exercised in real time by two directed histories only (props/c17sync.py)']
    return traces


def run(ctx: Ctx) -> None:
    # the synchronous API from application threads, two blocking instances, real time (props/syncapi.py, Trace_SyncApi.tla)
    from props import syncapi
    syncapi.run(ctx, 'C17')
    rng = random.Random(ctx.seed * 7919 + 17)
    # (the backlog must outlast any bounded wait a close might be given: 6 callbacks of 2.3 s, thorough also 8 of 2.6 s)
    sync = [{'id': 'c17-sync-0', 'sync': {'n': 6, 'cb': 2.3}}, {'id': 'c17-sync-fl', 'sync': {'n': 0, 'cb': 0, 'mode': 'foreign-loop'}},
            {'id': 'c17-sync-ac', 'sync': {'n': 4, 'cb': 0.5, 'mode': 'async-close'}}] + (
        [{'id': 'c17-sync-1', 'sync': {'n': 8, 'cb': 2.6}}] if ctx.thorough else [])
    # what is in flight when the application calls in: Lifecycle.tla explored by TLC (the unguarded configurations reproduce
    # findings D20 and D27 in the design), every behaviour of its replay configuration run on a real instance
    from props import lifecyclemodel as lm
    info = lm.check_models(ctx)
    mscs, predicted = lm.model_scenarios(ctx, 'c17')
    early = [rf.gen_c17_early(rng, 'c17e-%d' % k) for k in range(ctx.pick(24, 300))]
    traces = run_scenarios(ctx, [rf.gen_c17(rng, 'c17-%d' % k, ctx.thorough) for k in range(ctx.pick(400, 12000))] + early + mscs + sync)
    d = lm.drift(traces, predicted)
    for x in d[:5]:
        print('MODEL-DRIFT property=C17 scenario=%s real multicasts %s, model predicts %s (evidence, not a verdict: the exhaustively '
              'checked model Lifecycle.tla no longer describes what an instance has in flight)' % (x['scenario'], x['real'], x['model']))
    ctx.coverage.update(info)
    ctx.coverage.update({'lifecycle_behaviours_replayed': len(mscs), 'lifecycle_model_drift': len(d), 'lifecycle_model_drift_samples': d[:3]})
    ctx.log('Lifecycle model: %d distinct states; behaviours replayed on a real instance: %d, drift: %d' % (info['lifecycle_model_distinct'], len(mscs), len(d)))


def replay(ctx: Ctx, path: str) -> None:
    import json
    run_scenarios(ctx, [json.load(open(path))['replay']['scenario']])
