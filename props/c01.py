"""C01 -- message builder check (Trace_Wire.tla, clauses C01_*; behaviours of spec/Build.tla among the messages)."""
from __future__ import annotations

from props import buildmodel as bm
from props.wire_run import run_family
from vf.core import Ctx


def run(ctx: Ctx) -> None:
    # the Build model itself is checked by C14; here a sample of its behaviours (inputs that split over several datagrams
    # first) goes through the round-trip contract with the other messages
    msgs, preds, total = bm.model_messages(ctx, ctx.pick(1500, 60000))
    cases = run_family(ctx, 'C01', 1500, 40000, msgs)
    bm.drift(ctx, cases, preds, total, {'model': 'Build', 'model_distinct': 0, 'model_states': 0})


def replay(ctx: Ctx, path: str) -> None:
    import json
    run_family(ctx, 'C01', 0, 0, [json.load(open(path))['replay']['message']])
