"""C01 -- message builder check (Trace_Wire.tla, clauses C01_*)."""
from __future__ import annotations

from props.wire_run import run_family
from vf.core import Ctx


def run(ctx: Ctx) -> None:
    run_family(ctx, 'C01', 1500, 40000)


def replay(ctx: Ctx, path: str) -> None:
    import json
    run_family(ctx, 'C01', 0, 0, [json.load(open(path))['replay']['message']])
