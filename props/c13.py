"""C13 -- queries carry known answers and are not needlessly repeated (browser part; the lookup part is
validated together with C18)."""
from __future__ import annotations

import random

from props import querierfam as qf
from props.c10 import run_traces
from vf.core import Ctx

OWN = 'C13'


def run(ctx: Ctx) -> None:
    # the lifetime predicates the contracts rest on, at every boundary (spec/Ttl.tla, Oracle_Ttl.tla)
    from props import ttloracle
    ttloracle.run(ctx, 'C13')
    rng = random.Random(ctx.seed * 7919 + 13)
    scs = []
    for k in range(ctx.pick(60, 1000)):
        scs.append(qf.gen_c13_bigcache(rng, 'c13b-%d' % k, ctx.thorough))
    for k in range(ctx.pick(200, 4000)):
        scs.append(qf.gen_c13_suppress(rng, 'c13s-%d' % k, ctx.thorough))
    for k in range(ctx.pick(12, 200)):
        scs.append(qf.gen_c13_history(rng, 'c13h-%d' % k, ctx.thorough))
    for k in range(ctx.pick(100, 1500)):
        scs.append(qf.gen_c10(rng, 'c13r-%d' % k, ctx.thorough))
    for k in range(ctx.pick(6, 60)):
        scs.append(qf.gen_c13_unwritable(rng, 'c13u-%d' % k, ctx.thorough))
    for k in range(ctx.pick(24, 300)):
        scs.append(qf.gen_c13_late(rng, 'c13l-%d' % k, ctx.thorough))
    run_traces(ctx, OWN, scs)
    # the question history on its own: History.tla explored by TLC, its histories performed on a real QuestionHistory and every
    # answer of suppresses() judged by TLC against HistoryContract.tla (clause C13_HistorySuppresses)
    from props import historymodel
    historymodel.run(ctx, OWN)
    # the lookup part of the property: QU-then-QM, omitted questions, known answers, 1 s spacing (Trace_Lookup.tla, C13_* clauses)
    from props import c18, lookupfam as lf
    lscs = [lf.gen_lookup(rng, 'c13l-%d' % k, ctx.thorough) for k in range(ctx.pick(300, 5000))]
    c18.run_scenarios(ctx, OWN, lscs)


def replay(ctx: Ctx, path: str) -> None:
    import json
    rep = json.load(open(path))['replay']
    if 'question_history' in rep:
        from props import historymodel
        historymodel.run(ctx, OWN, [dict(rep['question_history'], id='history-replay')])
        return
    sc = rep['scenario']
    run_traces(ctx, OWN, [sc])
