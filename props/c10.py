"""C10 -- browser keeps learned services alive: refresh queries, rate limit, scheduler liveness."""
from __future__ import annotations

import random
from typing import Any, Dict, List

from props import querierfam as qf
from props import trace_run
from vf.core import Ctx

OWN = 'C10'


def disc(sc: dict, tr: dict, clause: str, pos: int) -> str:
    return 'plain'


def run_traces(ctx: Ctx, own: str, scenarios: List[dict]) -> List[dict]:
    traces = trace_run.record_all('props.querierfam', 'Recorder', scenarios, 16 if ctx.thorough else 8)
    by_voc: Dict[int, List[dict]] = {}
    for t in traces:
        by_voc.setdefault(len(t['voc']), []).append(t)
    verdicts: List[list] = []
    states = trans = 0
    for n, group in sorted(by_voc.items()):
        voc = group[0]['voc']
        slim = [{'id': t['id'], 'events': t['events']} for t in group]
        v, s1, t1 = trace_run.validate('Trace_Querier', slim, {'vocab': voc, 'own': own},
                                       batch=300 if n < 50 else 40, par=4 if ctx.thorough else 3)
        verdicts += v
        states += s1
        trans += t1
    res = trace_run.triage(ctx, own, scenarios, traces, verdicts, disc)
    nq = sum(1 for t in traces for e in t['events'] if e['ev'] == 'query')
    steady = 0
    seen = set()
    for t in traces:
        qs = [e['t'] for e in t['events'] if e['ev'] == 'query']
        key = hash(tuple(qs))
        bs = [e['t'] for e in t['events'] if e['ev'] == 'bstart']
        if bs and any(q > bs[0] + 14200 for q in qs) and key not in seen:
            seen.add(key)
            steady += 1
    multi = sum(1 for t in traces if any(e['ev'] == 'query' and e['tc'] for e in t['events']))
    supp = sum(1 for t in traces if any(e['ev'] == 'recv' and e.get('hq') and not e.get('items') and e.get('hka') is not None
                                        and any(not h['qu'] for h in e['hq']) for e in t['events']))
    cov = ctx.coverage
    cov.update({
        'states': cov.get('states', 0) + states, 'transitions': cov.get('transitions', 0) + trans,
        'traces_validated_against_impl': len(traces), 'evaluations': len(traces),
        'distinct_nontrivial': steady if own == 'C10' else len({hash(str([e for e in t['events'] if e['ev'] == 'query'])) for t in traces}),
        'rule': 'seeded scenarios of one browsing instance whose pointer world (learn / refresh / re-case / goodbye / expiry, '
                'TTL 1125..12000 s, delay 1..60 s, 1-2 types) is scripted; non-trivial = distinct query timelines '
                + ('that contain refresh queries after the start-up phase' if own == 'C10' else ''),
        'queries_observed': nq, 'traces_with_tc_trains': multi, 'traces_with_heard_queries': supp,
        'event_counts': trace_run.event_counts(traces),
        'samples': [{'scenario': scenarios[0]['id'], 'steps': scenarios[0]['steps'][:10]},
                    {'queries': [[e['t'], e['qs'], e['ka'][:4]] for e in traces[-1]['events'] if e['ev'] == 'query'][:6]}],
    })
    cov.update(res)
    ctx.assumptions += ['virtual-time simulator (no timer lateness)', 'TTL >= 1125 s (floor) and delay <= 60 s as in the property',
                        'obligations counted for records whose 75 % point falls after the four start-up queries']
    return traces


def run(ctx: Ctx) -> None:
    # the lifetime predicates the contracts rest on, at every boundary (spec/Ttl.tla, Oracle_Ttl.tla)
    from props import ttloracle
    ttloracle.run(ctx, 'C10')
    from props import schedmodel as sm
    rng = random.Random(ctx.seed * 7919 + 10)
    n = ctx.pick(400, 15000)
    scenarios = [qf.gen_c10(rng, 'c10-%d' % k, ctx.thorough) for k in range(n)]
    scenarios += [qf.gen_c10_partial(rng, 'c10p-%d' % k, ctx.thorough) for k in range(max(8, n // 12))]
    scenarios += [qf.gen_c10_long(rng, 'c10l-%d' % k, ctx.thorough) for k in range(ctx.pick(60, 400))]
    # binding 1: the implementation-shaped scheduler model against the contract, exhaustively
    info = sm.check_models(ctx)
    ctx.log('Sched model: %d distinct states, depth %s, contract invariants hold; defect configuration violates %s'
            % (info['model_distinct'], info['model_depth'], info['defect_config_violates']))
    # binding 2: behaviours of the model replayed into the real scheduler (validated like every other scenario)
    mscs, predicted = sm.model_scenarios(ctx)
    traces = run_traces(ctx, OWN, scenarios + mscs + qf.d26_scenarios())
    d = sm.drift(traces, predicted)
    for x in d[:5]:
        print('MODEL-DRIFT property=C10 scenario=%s real query instants %s, model predicts %s (evidence, not a verdict: the '
              'exhaustively checked model Sched.tla no longer describes the scheduler)' % (x['scenario'], x['real'], x['model']))
    ctx.coverage.update(info)
    ctx.coverage.update({'model_behaviours_replayed': len(mscs), 'model_drift': len(d),
                         'model_drift_samples': d[:3],
                         'model_constants': 'exhaustive: 2-3 aliases, TTL {1125,1200,4500} s, delay 10 s, 6-9 environment instants, '
                                            'horizon 6000 s; replay: every environment history of 3 (quick) / 5 (thorough) instants '
                                            'x 2 aliases x {1200, 4500, goodbye} plus random walks over 16 instants x 3 aliases x 4 TTLs'})
    ctx.log('model behaviours replayed into the real scheduler: %d, drift: %d' % (len(mscs), len(d)))


def replay(ctx: Ctx, path: str) -> None:
    import json
    sc = json.load(open(path))['replay']['scenario']
    run_traces(ctx, OWN, [sc])
