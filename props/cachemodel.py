"""Binding 2 for the cache family (C04, C05, C06): random walks of spec/CacheImpl.tla (tlc -simulate: datagrams of 1-2 records
over two pointer identities of one type and one SRV record, TTL 0 / 1 / 120, cache-flush bit, clock steps of 1000 / 1001 /
10000 ms, the 10 s purge) are replayed into a real instance with a browser; the final cache as the by-name paths (key objects)
and the by-record path (value objects) show it, and the set of instances the browser reports, are compared with the model's."""
from __future__ import annotations

from typing import Any, Dict, List, Tuple

from vf import tlc
from vf.core import Ctx

# model identity -> identity of the harness vocabulary (props/cachefam.py): two pointers of T1, the SRV record of the first
VOC = {1: 1, 2: 2, 3: 4}
BACK = {v: k for k, v in VOC.items()}


def behaviours(ctx: Ctx, num: int) -> List[dict]:
    res = []
    seen = set()
    for beh in tlc.simulate('MC_CacheImpl', 'Sim_CacheImpl', num=num, depth=14, seed=ctx.seed + 404, timeout=1800):
        if not beh:
            continue
        st = beh[-1]['state']
        hist = st.get('hist') or []
        if not hist:
            continue
        # a datagram in the very millisecond of a purge: the model explores both orders, the trace does not say which
        if any(h[0] % 10000 == 0 and h[0] > 0 for h in hist):
            continue
        key = repr(hist) + repr(st['now'])
        if key in seen:
            continue
        seen.add(key)
        res.append({'hist': hist, 'now': st['now'], 'kobj': st['kobj'], 'vobj': st['vobj'], 'live': sorted(st.get('live') or [])})
    return res


def to_scenario(sid: str, b: dict) -> dict:
    from props import cachefam as cf
    steps: List[dict] = [{'op': 'at', 't': 0}, {'op': 'ladd', 'lid': 1, 'script': {}, 'snap': False},
                         {'op': 'bstart', 'bid': 1, 'types': [cf.T1], 'guard': False}]
    for k, (t, items) in enumerate(b['hist']):
        steps.append({'op': 'at', 't': t})
        # consecutive datagrams differ in spelling: the listener's duplicate guard is not part of this model
        steps.append({'op': 'recv', 'items': [{'id': VOC[it['id']], 'ttl': it['ttl'], 'fl': bool(it['fl']), 'sp': k % 2, 'rsp': k % 2} for it in items]})
    steps += [{'op': 'at', 't': b['now']}, {'op': 'snap'}]
    return {'id': sid, 'steps': steps, 'model': True}


def compare(tr: dict, b: dict) -> List[str]:
    """Differences between the final state of the real run and of the model behaviour."""
    snaps = [e for e in tr['events'] if e['ev'] == 'snap']
    if not snaps:
        return ['no snapshot']
    p = snaps[-1]['paths']
    out = []

    def as_map(triples: List[List[int]]) -> Dict[int, Tuple[int, int]]:
        return {BACK[x[0]]: (x[1], x[2]) for x in triples if x[0] in BACK}
    for path, obj in (('name', b['kobj']), ('uniq', b['vobj'])):
        want = {i + 1: (o['c'], o['ttl']) for i, o in enumerate(obj) if o['c'] >= 0}
        got = as_map(p[path])
        if got != want:
            out.append('%s: real %s, model %s' % (path, sorted(got.items()), sorted(want.items())))
    live = set()
    for e in tr['events']:
        if e['ev'] == 'cb' and e.get('bid') == 1:
            # alias ids of the harness are name ids; the two pointers of T1 point at names 3 (IA) and 4 (IB)
            i = {3: 1, 4: 2}.get(e['alias'])
            if i is None:
                continue
            if e['kind'] == 'add':
                live.add(i)
            elif e['kind'] == 'rem':
                live.discard(i)
    if sorted(live) != b['live']:
        out.append('browser: real %s, model %s' % (sorted(live), b['live']))
    return out


def scenarios(ctx: Ctx, num: int, tag: str) -> Tuple[List[dict], Dict[str, dict]]:
    behs = behaviours(ctx, num)
    scs = []
    by_id = {}
    for k, b in enumerate(behs):
        sid = '%s-model-%d' % (tag, k)
        scs.append(to_scenario(sid, b))
        by_id[sid] = b
    return scs, by_id


def drift(ctx: Ctx, traces: List[dict], by_id: Dict[str, dict]) -> None:
    n = bad = 0
    for tr in traces:
        b = by_id.get(tr['id'])
        if b is None:
            continue
        n += 1
        d = compare(tr, b)
        if d:
            bad += 1
            if bad <= 5:
                print('MODEL-DRIFT CacheImpl: behaviour %s %s: %s' % (tr['id'], b['hist'], '; '.join(d)[:400]))
    ctx.log('CacheImpl behaviours replayed into a real instance with a browser: %d, drift: %d' % (n, bad))
    ctx.coverage['model_replay'] = {'model': 'CacheImpl (with browser)', 'behaviours_replayed': n, 'drift': bad,
                                    'compared': 'final cache by name (key objects) and by record (value objects), instances the browser reports'}
