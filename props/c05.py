"""C05 -- record cache: all lookup paths agree with the RFC 6762 section 10 contract."""
from __future__ import annotations

import random

from props import cachefam as cf
from props.cache_run import model_check_cache, run_family
from vf.core import Ctx


def scenarios(ctx: Ctx) -> list:
    rng = random.Random(ctx.seed * 7919 + 5)
    n = ctx.pick(300, 12000)
    out = []
    for k in range(n):
        nd = rng.choice([5, 8, 12, 20]) if not ctx.thorough else rng.choice([5, 12, 30, 60])
        out.append(cf.gen_scenario(rng, 'c05-%d' % k, nd, with_dups=True, listeners=rng.choice([1, 1, 2]), lscripts='purge', browsers=0,
                                   thorough=ctx.thorough))
    return out


def run(ctx: Ctx) -> None:
    # the operations documented as thread-safe, under every single pre-emption by the other thread (props/threadsfam.py, Trace_Threads.tla)
    from props import threadsfam
    threadsfam.run(ctx, 'C05')
    # the lifetime predicates the contracts rest on, at every boundary (spec/Ttl.tla, Oracle_Ttl.tla)
    from props import ttloracle
    ttloracle.run(ctx, 'C05')
    from props import cachemodel as cm
    model_check_cache(ctx)
    mscs, by_id = cm.scenarios(ctx, ctx.pick(400, 6000), 'c05')
    traces = run_family(ctx, 'C05', scenarios(ctx) + mscs, {})
    cm.drift(ctx, traces, by_id)


def replay(ctx: Ctx, path: str) -> None:
    import json
    sc = json.load(open(path))['replay']['scenario']
    run_family(ctx, 'C05', [sc, sc], {})
