"""C12 -- responder family check (see spec/Trace_Responder.tla, clauses C12_*)."""
from __future__ import annotations

from props.resp_run import run_family
from vf.core import Ctx


def run(ctx: Ctx) -> None:
    from props import queuemodel as qm
    from props import routemodel
    from props.resp_run import strict_sighting_pass
    routemodel.run(ctx, 'C12')
    # binding 1: the implementation-shaped model of the two answer queues against the timing contract, exhaustively
    info = qm.check_models(ctx)
    ctx.log('Queue model: %d distinct states, contract invariants hold; defect configuration violates %s; strict sighting '
            'configuration reaches the schedule of finding D17' % (info['model_distinct'], info['defect_config_violates']))
    # binding 2: behaviours of the model replayed into the real responder
    mscs, predicted = qm.model_scenarios(ctx, 'c12')
    from props.respfam import d22_scenarios
    from props import listenermodel
    lfull = listenermodel.responder_scenarios(ctx, 'c12', ctx.pick(150, 3000))
    scenarios, traces = run_family(ctx, 'C12', 'c12', 400, 12000, mscs + lfull + d22_scenarios('C12'))
    ctx.coverage['listener_histories_full_stack'] = len(lfull)
    d = qm.drift(traces, predicted)
    for x in d[:5]:
        print('MODEL-DRIFT property=C12 scenario=%s real multicast answers %s, model predicts %s (evidence, not a verdict: the '
              'exhaustively checked model Queue.tla no longer describes the answer queues)' % (x['scenario'], x['real'], x['model']))
    ctx.coverage.update(info)
    ctx.coverage.update({'model_behaviours_replayed': len(mscs), 'model_drift': len(d), 'model_drift_samples': d[:3],
                         'model_constants': 'exhaustive: 2 records, jitter {20,120} ms, 6-7 environment instants (queries for any subset '
                                            '/ unregister / nothing); replay: every history of 3 (quick) / 4 (thorough) instants plus '
                                            'random walks over 14 instants x 3 records x 4 jitter values'})
    ctx.log('model behaviours replayed into the real responder: %d, drift: %d' % (len(mscs), len(d)))
    strict_sighting_pass(ctx, scenarios, traces)
    from props.resp_run import additional_pass
    additional_pass(ctx, scenarios, traces)
    # the datagram front end on its own (Listener.tla / ListenerContract.tla): clauses C12_TrainAssembly, C12_HoldWindow
    listenermodel.run(ctx, 'C12')


def replay(ctx: Ctx, path: str) -> None:
    import json
    rep = json.load(open(path))['replay']
    if 'listener_history' in rep:
        from props import listenermodel
        listenermodel.run(ctx, 'C12', [dict(rep['listener_history'], id='listener-replay')])
        return
    if 'route_case' in rep:
        from props import routemodel
        routemodel.run(ctx, 'C12', [dict(rep['route_case'], id='route-replay')])
        return
    sc = rep['scenario']
    from props.resp_run import strict_sighting_pass
    scenarios, traces = run_family(ctx, 'C12', 'c12', 0, 0, [sc])
    strict_sighting_pass(ctx, scenarios, traces)
    from props.resp_run import additional_pass
    additional_pass(ctx, scenarios, traces)
