"""C09 -- registration probes first, detects conflicts, then announces completely (clauses C09_* of Trace_Responder.tla)."""
from __future__ import annotations

import random

from props import respfam as rf
from props import trace_run
from props.resp_run import disc
from vf.core import Ctx


def run_scenarios(ctx: Ctx, scenarios: list) -> list:
    traces = trace_run.record_all('props.respfam', 'Recorder', scenarios, 16 if ctx.thorough else 8)
    ctx.log('recorded %d traces, %d events' % (len(traces), sum(len(t['events']) for t in traces)))
    verdicts, states, trans = trace_run.validate('Trace_Responder', traces, {'own': 'C09'}, batch=250, par=4)
    res = trace_run.triage(ctx, 'C09', scenarios, traces, verdicts, disc)
    outcomes = {'registered': 0, 'renamed': 0, 'refused': 0, 'probes': 0}
    nontrivial = set()
    for t in traces:
        first = None
        for e in t['events']:
            if e['ev'] == 'api' and e['op'] == 'reg' and not e['coop'] and first is None:
                first = e['cands'][0]['name']
            if e['ev'] == 'api_ret' and e['op'] == 'reg' and first is not None:
                if not e['ok']:
                    outcomes['refused'] += 1
                elif e['final'] != first:
                    outcomes['renamed'] += 1
                else:
                    outcomes['registered'] += 1
                first = None
            if e['ev'] == 'send' and not e.get('bad') and not e['resp'] and e['ns']:
                outcomes['probes'] += 1
        sig = tuple((e['t'], e['ev'], e.get('op', ''), e.get('ok', '')) for e in t['events'] if e['ev'] in ('api_ret',) or
                    (e['ev'] == 'recv' and e.get('tag') == 'conflict'))
        if any(e['ev'] == 'recv' and e.get('tag') == 'conflict' for e in t['events']):
            nontrivial.add(hash(sig))
    cov = ctx.coverage
    cov.update({'states': states, 'transitions': trans, 'traces_validated_against_impl': len(traces), 'evaluations': len(traces),
                'distinct_nontrivial': len(nontrivial),
                'rule': 'registrations with probing; conflicting pointer records (same / different spelling, live / expired) for the '
                        'name and its -2, -3 successors arrive at offsets -3000,-1,0,1,100,174,175,176,300,349,350,351,400,600 ms '
                        'relative to the (re)started probe sequence; rename allowed or not; then queries for every candidate name '
                        'and a second registration of the same name; non-trivial = distinct timelines with a conflict injected',
                'outcomes': outcomes, 'event_counts': trace_run.event_counts(traces),
                'samples': [{'scenario': scenarios[0]['id'], 'steps': scenarios[0]['steps'][:8]}]})
    cov.update(res)
    ctx.assumptions += ['a conflict that is ingested before the third probe is sent (trace order) must be detected; later ones are unconstrained',
                        'conflicting record injected as a response datagram by the harness (a second real owner instance is exercised in C07)']
    return traces


def run(ctx: Ctx) -> None:
    # the synchronous API from application threads, two blocking instances, real time (props/syncapi.py, Trace_SyncApi.tla)
    from props import syncapi
    syncapi.run(ctx, 'C09')
    from props import regmodel as rm
    rng = random.Random(ctx.seed * 7919 + 9)
    scenarios = [rf.gen_c09(rng, 'c09-%d' % k, ctx.thorough) for k in range(ctx.pick(300, 12000))]
    # binding 1: the implementation-shaped model of the probing coroutine against the schedule / conflict contract
    info = rm.check_models(ctx)
    ctx.log('Register model: %d distinct states, contract invariants hold; variant without the re-check after a wait violates %s'
            % (info['model_distinct'], info['defect_config_violates']))
    # binding 2: its behaviours replayed into the real registration
    mscs, predicted = rm.model_scenarios(ctx)
    traces = run_scenarios(ctx, scenarios + mscs)
    d = rm.drift(traces, predicted)
    for x in d[:5]:
        print('MODEL-DRIFT property=C09 scenario=%s real probes / outcome %s, model predicts %s (evidence, not a verdict: the '
              'exhaustively checked model Register.tla no longer describes the registration)' % (x['scenario'], x['real'], x['model']))
    ctx.coverage.update(info)
    ctx.coverage.update({'model_behaviours_replayed': len(mscs), 'model_drift': len(d), 'model_drift_samples': d[:3],
                         'model_constants': 'exhaustive: conflicts for 3 candidate names at 13 instants around the probe times '
                                            '(-500 .. +500 ms), rename allowed / not; replay: every history over 5 instants, both '
                                            'rename settings, plus random walks over 19 instants'})
    ctx.log('model behaviours replayed into the real registration: %d, drift: %d' % (len(mscs), len(d)))


def replay(ctx: Ctx, path: str) -> None:
    import json
    run_scenarios(ctx, [json.load(open(path))['replay']['scenario']])
