"""Wire family harness (C01, C14): random messages through DNSOutgoing.packets(), decoded by the independent parser
(vf/wire.py) and by the library's own DNSIncoming; the abstract layout goes to TLC (Trace_Wire.tla)."""
from __future__ import annotations

import random
from typing import Any, Dict, List, Optional, Tuple

from vf import wire

LABEL_POOL = ['local', 'Local', '_tcp', '_udp', '_http', '_HTTP', '_ipp', 'host', 'Host-1', 'a', 'b', 'Kitchen Printer', 'café',
              '日本', 'x' * 20, 'y' * 40, 'z' * 62, 'w' * 63, 'My', 'Printer', '_sub', '_printer', 'example', 'com']


ASCII_ONLY = False


def rand_label(rng: random.Random, allow_long: bool) -> str:
    r = rng.random()
    if r < 0.75:
        lab = rng.choice(LABEL_POOL)
        return lab if (lab.isascii() or not ASCII_ONLY) else 'ascii'
    if r < 0.9:
        n = rng.choice([1, 2, 5, 30, 61, 62, 63])
        return ''.join(rng.choice('abcXYZ019-_ ') for _ in range(n))
    if allow_long and r < 0.93:
        n = rng.choice([64, 64, 65, 100])
        return 'L' * n
    if ASCII_ONLY:
        return 'q' * rng.choice([1, 7, 63])
    # multi-byte characters at the 63 octet limit: 60-63 octets in 31-33 characters, and (in messages that may carry over-long
    # labels) labels of fewer than 64 characters but more than 63 octets
    if allow_long and rng.random() < 0.5:
        return rng.choice(['é' * 32, 'é' * 40, '日' * 22, 'é' * 31 + 'ab'])
    n = rng.choice([10, 30, 30, 31])
    return 'é' * n + rng.choice(['', 'a'] if n == 31 else ['', 'a', 'ab', 'abc'])


def rand_name(rng: random.Random, suffixes: List[str], allow_long: bool) -> str:
    if suffixes and rng.random() < 0.7:
        base = rng.choice(suffixes)
        k = rng.choice([0, 1, 1, 2])
        labels = [rand_label(rng, allow_long) for _ in range(k)]
        name = '.'.join(labels + [base]) if labels else base
    else:
        k = rng.choice([1, 2, 3, 4, 6])
        name = '.'.join(rand_label(rng, allow_long) for _ in range(k)) + '.'
    if len(name) > 253:
        name = name[-253:]
        name = name[name.index('.') + 1:] if '.' in name[:-1] else 'a.'
    if name.startswith('.') or '..' in name:
        name = 'a.' + name.lstrip('.').replace('..', '.')
    return name


def label_too_long(name: str) -> bool:
    return any(len(l.encode('utf-8')) > 63 for l in name.rstrip('.').split('.'))


def gen_exact(rng: random.Random) -> dict:
    """One TXT record (optionally behind a question, optionally followed by a small record) whose rdata is sized so that the first
    datagram comes out one octet under, exactly at, or one octet over a size limit (1460 / 8966)."""
    limit = rng.choice([1460, 8966, 8966])
    delta = rng.choice([-1, 0, 0, 1])
    if limit == 8966 and delta > 0:
        delta = 0            # (an entry that fits no datagram at all is outside the property's domain)
    owner = rng.choice(['big._http._tcp.local.', 'a.local.', 'Kitchen Printer._ipp._tcp.local.'])
    with_q = rng.random() < 0.4
    qname = rng.choice(['_http._tcp.local.', 'x.local.'])
    size = 12 + (len(qname.encode()) + 1 + 4 if with_q else 0) + len(owner.encode()) + 1 + 10
    # (no compression between the two names: different suffixes are chosen when a question is present)
    if with_q:
        owner = 'big.example.'
        size = 12 + len(qname.encode()) + 1 + 4 + len(owner.encode()) + 1 + 10
    n = limit + delta - size
    is_query = with_q and rng.random() < 0.5
    msg: Dict[str, Any] = {'multicast': rng.random() < 0.7, 'query': is_query, 'id': rng.choice([0, 4660]), 'now': 0,
                           'qs': [{'name': qname, 'type': 12, 'cls': 1}] if with_q else [], 'an': [], 'ns': [], 'ar': []}
    msg['an'].append({'kind': 'TXT', 'name': owner, 'ttl': 120, 'cls': 1, 'rd': rng.randbytes(max(0, n)).hex()})
    if rng.random() < 0.5:
        msg['an'].append({'kind': 'A', 'name': 'a.local.', 'ttl': 120, 'cls': 1, 'rd': '0a000001'})
    return msg


def gen_qflood(rng: random.Random) -> dict:
    """A query of many short questions that share no suffix (single labels, or each under a domain of its own), spelled with or
    without the trailing dot, sized around the 1460-octet limit: nothing compresses, so the split falls where the plain sizes say."""
    stem = rng.choice(['device-', 'n', 'printer-%d-' % rng.randint(0, 9), 'x'])
    dot = rng.choice(['', '', '.', 'mixed'])
    per = len(stem) + 3 + 2 + 4
    n = max(2, (1460 - 12) // per + rng.randint(-4, 8))
    qs = []
    for k in range(n):
        name = '%s%03d' % (stem, k)
        if rng.random() < 0.3 and dot != 'mixed':
            name += '.d%03d' % k
        qs.append({'name': name + ('.' if dot == '.' or (dot == 'mixed' and k % 2) else ''), 'type': rng.choice([1, 28, 12, 255]), 'cls': 1})
    return {'multicast': rng.random() < 0.7, 'query': True, 'id': rng.choice([0, 4660]), 'now': 0, 'qs': qs, 'an': [], 'ns': [], 'ar': []}


def gen_message(rng: random.Random, big: bool = False, allow_long: bool = True) -> dict:
    """A message description: JSON-able, independent of library objects.
    Message-level options read by run_case: `again` (the datagrams are requested that many more times from the same builder: what
    the library does with the goodbye of unregister_all_services) and `reuse` (every record object has been written before, by
    another builder, with another TTL, and was then changed in place: what a responder does with the records of a service)."""
    msg = _gen_message(rng, big, allow_long)
    if rng.random() < 0.15:
        msg['again'] = rng.choice([1, 2])
    if rng.random() < 0.12 and not msg['now']:
        msg['reuse'] = rng.choice([1, 2, 3])
    return msg


def _gen_message(rng: random.Random, big: bool = False, allow_long: bool = True) -> dict:
    if rng.random() < 0.03:
        return gen_exact(rng)
    if rng.random() < 0.02:
        return gen_qflood(rng)
    allow_long = allow_long and rng.random() < 0.12       # labels over 63 bytes only in some messages
    suffixes: List[str] = []
    for _ in range(rng.choice([1, 2, 3])):
        suffixes.append(rand_name(rng, suffixes, False))
    multicast = rng.random() < 0.7
    is_query = rng.random() < 0.4
    size_mode = rng.choice(['small', 'small', 'medium', 'boundary', 'large', 'huge', 'tail'] if big else ['small', 'small', 'medium', 'boundary', 'tail'])
    if size_mode == 'tail':
        # a short head and a long authority / additional section of records of very different sizes that spills over several
        # datagrams: where a datagram is full, the record that does not fit is often followed by one that would
        counts = [rng.choice([0, 1]), rng.choice([0, 1, 3]), rng.choice([0, 0, 25, 60]), rng.choice([20, 45, 72, 110])]
    elif size_mode == 'small':
        counts = [rng.choice([0, 1, 2]), rng.choice([0, 1, 3, 6]), rng.choice([0, 0, 1]), rng.choice([0, 0, 2, 5])]
    elif size_mode == 'medium':
        counts = [rng.choice([0, 1, 5]), rng.choice([5, 20, 40]), rng.choice([0, 3]), rng.choice([0, 10])]
    elif size_mode == 'boundary':
        counts = [rng.choice([0, 1]), rng.choice([10, 25, 40]), 0, rng.choice([0, 5])]
    elif size_mode == 'large':
        counts = [rng.choice([0, 2, 50, 300]), rng.choice([50, 150, 300]), rng.choice([0, 10, 60]), rng.choice([0, 30, 200])]
    else:
        counts = [rng.choice([0, 1]), rng.choice([1, 2, 3]), 0, rng.choice([0, 1])]
    if not is_query and rng.random() < 0.7:
        counts[0] = 0
    msg: Dict[str, Any] = {'multicast': multicast, 'query': is_query, 'id': rng.choice([0, 1, 4660, 65535]), 'now': 0,
                           'qs': [], 'an': [], 'ns': [], 'ar': []}

    def rdata_budget() -> int:
        if size_mode == 'huge':
            return rng.choice([1400, 1440, 1447, 1460, 3000, 8000, 8800, 8900, 8930])
        if size_mode == 'boundary':
            return rng.choice([0, 10, 100, 200, 400])
        if size_mode == 'tail':
            return rng.choice([0, 0, 4, 30, 250, 250, 420])
        return rng.choice([0, 1, 10, 60, 255])

    def rec(section: str) -> dict:
        kind = rng.choice(['A', 'AAAA', 'PTR', 'CNAME', 'TXT', 'SRV', 'HINFO', 'NSEC']) if section != 'ns' else 'PTR'
        if size_mode == 'tail' and section == 'ar':
            kind = rng.choice(['TXT', 'TXT', 'A', 'SRV', 'AAAA'])
        name = rand_name(rng, suffixes, allow_long)
        ttl = rng.choice([0, 1, 120, 4500, 4500, 2 ** 31 - 1, 2 ** 31, 2 ** 32 - 1, rng.randint(0, 2 ** 32 - 1)])
        cls = rng.choice([1, 1, 1, 0x8001, 0x8001, 3, 255])
        r: Dict[str, Any] = {'kind': kind, 'name': name, 'ttl': ttl, 'cls': cls}
        if kind == 'A':
            r['rd'] = bytes(rng.randrange(256) for _ in range(4)).hex()
        elif kind == 'AAAA':
            r['rd'] = bytes(rng.randrange(256) for _ in range(16)).hex()
        elif kind in ('PTR', 'CNAME'):
            r['rd'] = rand_name(rng, suffixes, allow_long)
        elif kind == 'TXT':
            n = min(rdata_budget(), 8966 - 12 - 10 - (len(name.encode('utf-8')) + 2))      # must fit one datagram (domain)
            r['rd'] = rng.randbytes(n).hex()
        elif kind == 'SRV':
            r['rd'] = [rng.choice([0, 1, 65535]), rng.choice([0, 7, 65535]), rng.choice([0, 80, 65535]), rand_name(rng, suffixes, allow_long)]
        elif kind == 'HINFO':
            a = rng.choice([0, 1, 10, 255])
            b = rng.choice([0, 3, 255])
            r['rd'] = ['c' * a, 'o' * b]
        else:
            r['rd'] = [rand_name(rng, suffixes, allow_long), sorted(rng.sample([1, 12, 16, 28, 33, 47, 255], rng.choice([1, 2, 3])))]
        return r

    for _ in range(counts[0]):
        msg['qs'].append({'name': rand_name(rng, suffixes, allow_long), 'type': rng.choice([1, 12, 16, 28, 33, 255, 47]),
                          'cls': rng.choice([1, 0x8001, 3])})
    for sec, n in (('an', counts[1]), ('ns', counts[2]), ('ar', counts[3])):
        for _ in range(n):
            msg[sec].append(rec(sec))
    if rng.random() < 0.15 and msg['an']:
        # known answers of a query are written with their remaining TTL
        msg['now'] = 1
        for r in msg['an']:
            r['ttl'] = rng.choice([120, 4500, 10])
            r['created'] = rng.choice([0.0, -30000.0, -119000.0, -4499000.0])
            if rng.random() < 0.3:
                # in its last second: alive, written with a remaining TTL of 0 (a millisecond before, at, after the edges)
                r['created'] = -1000.0 * r['ttl'] + rng.choice([1, 500, 999, 1000, 1001])
    if rng.random() < 0.06:
        # names as applications give them: without the trailing dot (several labels, sharing suffixes with the names around them)
        def undot(n: str) -> str:
            return n[:-1] if n.endswith('.') and len(n) > 1 and rng.random() < 0.7 else n
        for q in msg['qs']:
            q['name'] = undot(q['name'])
        for sec in ('an', 'ns', 'ar'):
            for r in msg[sec]:
                r['name'] = undot(r['name'])
                if r['kind'] in ('PTR', 'CNAME'):
                    r['rd'] = undot(r['rd'])
                elif r['kind'] == 'SRV':
                    r['rd'][3] = undot(r['rd'][3])
                elif r['kind'] == 'NSEC':
                    r['rd'][0] = undot(r['rd'][0])
    return msg


def make_record(r: dict) -> Any:
    from zeroconf import DNSAddress, DNSHinfo, DNSNsec, DNSPointer, DNSService, DNSText
    k = r['kind']
    created = r.get('created', 1.0)
    base = 1000000.0
    c = base + created if 'created' in r else 1.0
    if k == 'A':
        return DNSAddress(r['name'], 1, r['cls'], r['ttl'], bytes.fromhex(r['rd']), created=c)
    if k == 'AAAA':
        return DNSAddress(r['name'], 28, r['cls'], r['ttl'], bytes.fromhex(r['rd']), created=c)
    if k == 'PTR':
        return DNSPointer(r['name'], 12, r['cls'], r['ttl'], r['rd'], c)
    if k == 'CNAME':
        return DNSPointer(r['name'], 5, r['cls'], r['ttl'], r['rd'], c)
    if k == 'TXT':
        return DNSText(r['name'], 16, r['cls'], r['ttl'], bytes.fromhex(r['rd']), c)
    if k == 'SRV':
        return DNSService(r['name'], 33, r['cls'], r['ttl'], r['rd'][0], r['rd'][1], r['rd'][2], r['rd'][3], c)
    if k == 'HINFO':
        return DNSHinfo(r['name'], 13, r['cls'], r['ttl'], r['rd'][0], r['rd'][1], c)
    return DNSNsec(r['name'], 47, r['cls'], r['ttl'], r['rd'][0], list(r['rd'][1]), c)


TYPE_OF = {'A': 1, 'AAAA': 28, 'PTR': 12, 'CNAME': 5, 'TXT': 16, 'SRV': 33, 'HINFO': 13, 'NSEC': 47}


def expected_key_record(r: dict, multicast: bool, now_flag: int) -> tuple:
    """What any decoder must recover for this input record (computed from the description, not from library objects)."""
    t = TYPE_OF[r['kind']]
    cls = r['cls']
    wire_cls = (cls & 0x7FFF) | (0x8000 if (cls & 0x8000) and multicast else 0)
    if now_flag:
        remain = (1000000.0 + r.get('created', 0.0) + 1000 * r['ttl'] - 1000000.0) / 1000.0
        ttl = 0 if remain < 0 else int(remain)
    else:
        ttl = r['ttl']
    k = r['kind']
    if k in ('A', 'AAAA', 'TXT'):
        rd: Any = bytes.fromhex(r['rd'])
    elif k in ('PTR', 'CNAME'):
        rd = norm_name(r['rd'])
    elif k == 'SRV':
        rd = (r['rd'][0], r['rd'][1], r['rd'][2], norm_name(r['rd'][3]))
    elif k == 'HINFO':
        rd = (r['rd'][0].encode(), r['rd'][1].encode())
    else:
        rd = (norm_name(r['rd'][0]), tuple(sorted(r['rd'][1])))
    return ('r', norm_name(r['name']), t, wire_cls, ttl, rd)


def norm_name(n: str) -> str:
    return n if n.endswith('.') else n + '.'


def expected_key_question(q: dict, multicast: bool) -> tuple:
    cls = q['cls']
    wire_cls = (cls & 0x7FFF) | (0x8000 if (cls & 0x8000) and multicast else 0)
    return ('q', norm_name(q['name']), q['type'], wire_cls)


def key_of_entry(e: wire.Entry) -> tuple:
    if e.section == 'qd':
        return ('q', e.name.text, e.type, e.cls)
    rd = e.rd
    if e.type == wire.T_NSEC:
        rd = (rd[0], tuple(rd[1]))
    elif e.type == wire.T_HINFO:
        rd = (bytes(rd[0]), bytes(rd[1]))
    elif isinstance(rd, (bytes, bytearray)):
        rd = bytes(rd)
    return ('r', e.name.text, e.type, e.cls, e.ttl, rd)


def key_of_lib_record(rec: Any, flush_seen: bool = True) -> tuple:
    from zeroconf import DNSAddress, DNSHinfo, DNSNsec, DNSPointer, DNSService, DNSText
    cls = rec.class_ | (0x8000 if rec.unique else 0)
    if isinstance(rec, DNSAddress):
        rd: Any = bytes(rec.address)
    elif isinstance(rec, DNSPointer):
        rd = rec.alias
    elif isinstance(rec, DNSText):
        rd = bytes(rec.text)
    elif isinstance(rec, DNSService):
        rd = (rec.priority, rec.weight, rec.port, rec.server)
    elif isinstance(rec, DNSHinfo):
        rd = (rec.cpu.encode(), rec.os.encode())
    elif isinstance(rec, DNSNsec):
        rd = (rec.next_name, tuple(rec.rdtypes))
    else:
        rd = None
    return ('r', rec.name, rec.type, cls, int(rec.ttl), rd)


def run_case(cid: str, msg: dict) -> dict:
    """Build the message with the library, decode the datagrams twice, return the abstract case for TLC."""
    from zeroconf import DNSQuestion
    from zeroconf._exceptions import NamePartTooLongException
    from zeroconf._protocol.incoming import DNSIncoming
    from zeroconf._protocol.outgoing import DNSOutgoing
    multicast = msg['multicast']
    flags = 0 if msg['query'] else 0x8400
    table: Dict[tuple, int] = {}

    def intern(k: tuple) -> int:
        return table.setdefault(k, len(table) + 1)
    def live(r: dict) -> bool:
        # add_answer_at_time(record, now) drops records that have expired by `now` (known answers of a query)
        return not msg['now'] or r.get('created', 0.0) + 1000 * r['ttl'] > 0
    inp = {'qs': [intern(expected_key_question(q, multicast)) for q in msg['qs']],
           'an': [intern(expected_key_record(r, multicast, msg['now'])) for r in msg['an'] if live(r)],
           'ns': [intern(expected_key_record(r, multicast, 0)) for r in msg['ns']],
           'ar': [intern(expected_key_record(r, multicast, 0)) for r in msg['ar']]}
    n_expected = len(table)
    written = {'an': [r for r in msg['an'] if live(r)], 'ns': msg['ns'], 'ar': msg['ar']}
    names_in = [q['name'] for q in msg['qs']] + [r['name'] for s in ('an', 'ns', 'ar') for r in written[s]]
    for s in ('an', 'ns', 'ar'):
        for r in written[s]:
            if r['kind'] in ('PTR', 'CNAME'):
                names_in.append(r['rd'])
            elif r['kind'] == 'SRV':
                names_in.append(r['rd'][3])
            elif r['kind'] == 'NSEC':
                names_in.append(r['rd'][0])
    long_label = any(label_too_long(n) for n in names_in)
    case: Dict[str, Any] = {'id': cid, 'query': msg['query'], 'multicast': multicast, 'mid': msg['id'], 'inp': inp,
                            'longLabel': long_label, 'pkts': [], 'out': 'ok'}
    out = DNSOutgoing(flags, multicast, msg['id'])
    reuse = msg.get('reuse', 0)

    def obj(r: dict, k: int) -> Any:
        if not reuse:
            return make_record(r)
        # the object was written before with another TTL, which was then changed in place through the public API
        first = dict(r, ttl=[4500, 120, 0, 75][(k + reuse) % 4])
        rec = make_record(first)
        try:
            prev = DNSOutgoing(0x8400, True, 0)
            prev.add_answer_at_time(rec, 0)
            prev.packets()
        except NamePartTooLongException:
            pass
        if (k + reuse) % 3 == 0:
            rec.ttl = r['ttl']
        elif (k + reuse) % 3 == 1:
            rec.set_created_ttl(rec.created, r['ttl'])
        else:
            rec.reset_ttl(make_record(r))
        return rec
    try:
        for q in msg['qs']:
            out.add_question(DNSQuestion(q['name'], q['type'], q['cls']))
        for k, r in enumerate(msg['an']):
            out.add_answer_at_time(obj(r, k), 1000000.0 if msg['now'] else 0)
        for k, r in enumerate(msg['ns']):
            out.add_authorative_answer(obj(r, k + 1))
        for k, r in enumerate(msg['ar']):
            out.add_additional_answer(obj(r, k + 2))
        packets = out.packets()
        for _ in range(msg.get('again', 0)):
            packets = out.packets()
    except NamePartTooLongException:
        case['out'] = 'NamePartTooLong'
        return case
    except Exception as ex:  # noqa: BLE001
        case['out'] = 'exc:' + type(ex).__name__
        return case
    for data in packets:
        p: Dict[str, Any] = {'len': len(data), 'ok': True, 'hopsBad': 0, 'nhops': 0, 'hdrTotal': 0, 'present': 0}
        try:
            m = wire.parse(data)
            p.update({'id': m.id, 'flags': m.flags, 'tc': m.tc, 'counts': list(m.counts),
                      'qs': [table.get(key_of_entry(e), 0) for e in m.questions],
                      'an': [table.get(key_of_entry(e), 0) for e in m.answers],
                      'ns': [table.get(key_of_entry(e), 0) for e in m.authorities],
                      'ar': [table.get(key_of_entry(e), 0) for e in m.additionals]})
            # every pointer hop must go strictly backward to an offset where a label sequence starts in this datagram
            starts = set()
            allnames = []
            for e in m.entries():
                allnames.append(e.name)
            for e in m.records():
                if e.type in (wire.T_PTR, wire.T_CNAME, wire.T_SRV, wire.T_NSEC):
                    off = e.end - e.rdlen + (6 if e.type == wire.T_SRV else 0)
                    try:
                        allnames.append(wire.read_name(data, off))
                    except wire.WireError:
                        p['hopsBad'] += 1
            for nm in allnames:
                starts.update(nm.label_offsets)
            for nm in allnames:
                for (pos, target) in nm.hops:
                    p['nhops'] += 1
                    if target >= pos or target not in starts or target < 12:
                        p['hopsBad'] += 1
        except wire.WireError as ex:
            p['ok'] = False
            p['err'] = str(ex)[:80]
            p.update({'id': 0, 'flags': 0, 'tc': False, 'counts': [0, 0, 0, 0], 'qs': [], 'an': [], 'ns': [], 'ar': []})
            # header counts against the entries that are actually there: parse with the header's question count and then
            # as many records as the remaining bytes hold
            p['hdrTotal'] = -1
            p['present'] = -1
            if len(data) >= 12:
                hdr = [(data[4 + 2 * k] << 8) | data[5 + 2 * k] for k in range(4)]
                for total in range(sum(hdr[1:]) + 3, -1, -1):
                    fake = bytearray(data)
                    fake[6:12] = bytes([total >> 8, total & 255, 0, 0, 0, 0])
                    try:
                        wire.parse(bytes(fake))
                        p['hdrTotal'] = sum(hdr)
                        p['present'] = hdr[0] + total
                        break
                    except wire.WireError:
                        continue
        # the library's own decoder
        try:
            inc = DNSIncoming(data)
            lq = [table.get(('q', q.name, q.type, q.class_ | (0x8000 if q.unique else 0)), 0) for q in inc.questions]
            lr = [table.get(key_of_lib_record(r), 0) for r in inc.answers()]
            p['lib'] = {'valid': bool(inc.valid), 'qs': lq, 'rr': lr, 'exc': ''}
        except Exception as ex:  # noqa: BLE001
            p['lib'] = {'valid': False, 'qs': [], 'rr': [], 'exc': type(ex).__name__}
        case['pkts'].append(p)
    case['nexp'] = n_expected
    return case
