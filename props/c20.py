"""C20 -- record identity.  Oracle enumeration: TLC evaluates Records!Same on every ordered
pair of a bounded universe and compares with what the real objects did."""
from __future__ import annotations

import itertools
import random
from typing import Any, Dict, List, Tuple

from vf import tlc
from vf.core import Ctx


class Interner:
    def __init__(self) -> None:
        self.ids: Dict[Any, int] = {}

    def __call__(self, v: Any) -> int:
        if v not in self.ids:
            self.ids[v] = len(self.ids) + 1
        return self.ids[v]


def ascii_lower(s: str) -> str:
    return ''.join(chr(ord(c) + 32) if 'A' <= c <= 'Z' else c for c in s)


def build_universe(ctx: Ctx, rng: random.Random) -> Tuple[List[dict], List[Any]]:
    """Returns (abstract universe, constructor specs)."""
    names = [['svc._http._tcp.local.', 'SVC._http._tcp.local.', 'Svc._HTTP._tcp.LOCAL.'],
             ['host.local.', 'HOST.local.', 'Host.Local.'],
             ['_http._tcp.local.', '_HTTP._tcp.local.', '_Http._Tcp.Local.'],
             # a letter whose lower() and casefold() differ: 'stra\u00dfe' and 'strasse' are two names
             ['stra\u00dfe.local.', 'strasse.local.', 'STRASSE.local.']]
    if ctx.thorough:
        names.append(['café büro._ipp._tcp.local.'])   # non-ASCII: identical spelling only
    targets = ['a.local.', 'A.local.', 'b.local.', 'wei\u00df.local.', 'weiss.local.']
    classes = [1, 0x8001, 3]
    ttls = [0, 120] if not ctx.thorough else [0, 120, 4500]
    createds = [1.0, 5000.0]
    specs: List[tuple] = []

    def add(kind: str, name: str, type_: int, cls: int, ttl: int, created: float, rd: tuple) -> None:
        specs.append((kind, name, type_, cls, ttl, created, rd))

    rdvariants: Dict[str, List[Tuple[int, tuple]]] = {
        # (type code, rdata) -- the first is the base, the others differ in one field
        'A': [(1, (b'\x0a\x00\x00\x01', None)), (1, (b'\x0a\x00\x00\x02', None)),
              (28, (b'\xfe\x80' + b'\0' * 13 + b'\x01', None)), (28, (b'\xfe\x80' + b'\0' * 13 + b'\x01', 3)),
              (28, (b'\xfe\x80' + b'\0' * 13 + b'\x01', 4)), (28, (b'\x0a\x00\x00\x01', None)),
              # scope 0 (what an IPv6 socket reports for a non-link-local source) is not "no scope"
              (28, (b'\xfe\x80' + b'\0' * 13 + b'\x01', 0)), (28, (b'\xfd\x00' + b'\0' * 13 + b'\x02', 0)),
              (28, (b'\xfd\x00' + b'\0' * 13 + b'\x02', None))],
        'PTR': [(12, (targets[0],)), (12, (targets[1],)), (12, (targets[2],)), (5, (targets[0],)), (12, (targets[3],)), (12, (targets[4],))],
        'TXT': [(16, (b'\x03a=b',)), (16, (b'\x03A=b',)), (16, (b'',)), (12, (b'\x03a=b',)), (16, (b'\x00',))],
        'SRV': [(33, (0, 0, 80, targets[0])), (33, (1, 0, 80, targets[0])), (33, (0, 1, 80, targets[0])),
                (33, (0, 0, 81, targets[0])), (33, (0, 0, 80, targets[1])), (33, (0, 0, 80, targets[2])),
                (33, (0, 0, 80, targets[3])), (33, (0, 0, 80, targets[4]))],
        'HINFO': [(13, ('cpu', 'os')), (13, ('CPU', 'os')), (13, ('cpu', 'os2')), (13, ('os', 'cpu'))],
        'NSEC': [(47, (targets[0], (1, 28))), (47, (targets[1], (1, 28))), (47, (targets[0], (28, 1))),
                 (47, (targets[0], (1,))), (47, (targets[0], (1, 1, 28)))],
    }
    for group in names:
        for name in group:
            for cls in classes:
                add('Q', name, 12, cls, 0, 0.0, ())
                add('Q', name, 255, cls, 0, 0.0, ())
            for kind, variants in rdvariants.items():
                for vi, (type_, rd) in enumerate(variants):
                    for cls in classes:
                        for ttl in ttls:
                            if vi > 0 and (cls != 1 or ttl != ttls[-1]):
                                # variants differ from the base in exactly one field
                                continue
                            created = createds[(len(specs)) % 2]
                            add(kind, name, type_, cls, ttl, created, rd)
    # the same records as the decoder builds them: read from a datagram that arrived on an IPv4 socket (no scope) and on an
    # IPv6 socket (scope id 3 of the receiving interface).  An AAAA record takes the scope of its socket, an A record has none.
    for name in names[1][:2]:
        for kind, variants in rdvariants.items():
            if kind == 'HINFO':
                continue
            for type_, rd in variants[:3]:
                if (kind == 'TXT' and type_ != 16) or (kind == 'A' and rd[1] is not None) or (kind == 'A' and type_ == 28 and len(rd[0]) != 16):
                    continue
                for scope in (None, 3):
                    rd2 = (rd[0], scope) if (kind == 'A' and type_ == 28) else rd
                    specs.append((kind, name, type_, 1, 120, createds[0], rd2, ('wire', scope)))
    # a few random extras (thorough): random field mixes
    if ctx.thorough:
        kinds = list(rdvariants)
        for _ in range(150):
            kind = rng.choice(kinds)
            type_, rd = rng.choice(rdvariants[kind])
            add(kind, rng.choice(rng.choice(names)), rng.choice([type_, 16, 12]), rng.choice(classes),
                rng.choice([0, 1, 120, 4500]), rng.choice(createds), rd)
    return specs


def make_object(spec: tuple) -> Any:
    from zeroconf import DNSAddress, DNSHinfo, DNSNsec, DNSPointer, DNSQuestion, DNSService, DNSText
    kind, name, type_, cls, ttl, created, rd = spec[:7]
    if len(spec) > 7:
        # through the decoder: one response datagram with this record, as received on a socket with the given scope
        from vf import wire
        from zeroconf._protocol.incoming import DNSIncoming
        wrd = {'A': lambda: rd[0], 'PTR': lambda: rd[0], 'TXT': lambda: rd[0], 'SRV': lambda: rd, 'NSEC': lambda: (rd[0], list(rd[1]))}[kind]()
        data = wire.build(flags=0x8400, answers=[(name, type_, cls, ttl, wrd)])
        scope = spec[7][1]
        msg = DNSIncoming(data, ('fe80::9', 5353) if scope is not None else ('10.0.0.9', 5353), scope, created)
        recs = msg.answers()
        assert len(recs) == 1, (spec, recs)
        return recs[0]
    if kind == 'Q':
        return DNSQuestion(name, type_, cls)
    if kind == 'A':
        return DNSAddress(name, type_, cls, ttl, rd[0], scope_id=rd[1], created=created)
    if kind == 'PTR':
        return DNSPointer(name, type_, cls, ttl, rd[0], created)
    if kind == 'TXT':
        return DNSText(name, type_, cls, ttl, rd[0], created)
    if kind == 'SRV':
        return DNSService(name, type_, cls, ttl, rd[0], rd[1], rd[2], rd[3], created)
    if kind == 'HINFO':
        return DNSHinfo(name, type_, cls, ttl, rd[0], rd[1], created)
    if kind == 'NSEC':
        # the caller goes on using the list it built the record from (a record must not be changed by that)
        work = list(rd[1])
        rec = DNSNsec(name, type_, cls, ttl, rd[0], work, created)
        work.append(99)
        work.reverse()
        return rec
    raise ValueError(kind)


def abstract(spec: tuple, base: Interner, exact: Interner, raw: Interner) -> dict:
    kind, name, type_, cls, ttl, created, rd = spec[:7]
    # interning cross-check: the base id is computed with our own ASCII folding and must
    # agree with str.lower() on ASCII names
    low = ascii_lower(name)
    if name.isascii():
        assert low == name.lower()
    a: Dict[str, Any] = {'kind': kind, 'nb': base(low), 'ns': exact(name), 'type': type_, 'class': cls,
                         'ttl': ttl, 'created': int(created)}
    if kind == 'A':
        a['rd'] = {'addr': raw(rd[0]), 'scope': -1 if rd[1] is None else rd[1]}
    elif kind == 'PTR':
        a['rd'] = {'aliasBase': base(ascii_lower(rd[0])), 'aliasExact': exact(rd[0])}
    elif kind == 'TXT':
        a['rd'] = {'text': raw(rd[0])}
    elif kind == 'SRV':
        a['rd'] = {'prio': rd[0], 'weight': rd[1], 'port': rd[2], 'serverBase': base(ascii_lower(rd[3]))}
    elif kind == 'HINFO':
        a['rd'] = {'cpu': raw(rd[0]), 'os': raw(rd[1])}
    elif kind == 'NSEC':
        a['rd'] = {'nextExact': exact(rd[0]), 'types': sorted(rd[1])}
    else:
        a['rd'] = {}
    return a


def observe(objs: List[Any], specs: List[tuple]) -> List[dict]:
    from zeroconf import DNSCache
    from zeroconf._dns import DNSRRSet
    n = len(objs)
    hashes = Interner()
    last: Dict[Any, int] = {}
    for i, o in enumerate(objs):
        last[o] = i + 1
    obs = []
    for i, a in enumerate(objs):
        is_rec = specs[i][0] != 'Q'
        eq = [j + 1 for j in range(n) if a == objs[j]]
        neq_consistent = all((a != objs[j]) == (not (a == objs[j])) for j in range(0, n, 7))
        o: Dict[str, Any] = {'eq': eq, 'hash': hashes(hash(a)), 'dictlast': last[a], 'neq_ok': neq_consistent}
        if is_rec:
            rrset = DNSRRSet([a])
            o['suppresses'] = [j + 1 for j in range(n) if specs[j][0] != 'Q' and rrset.suppresses(objs[j])]
            cache = DNSCache()
            cache.async_add_records([a])
            hits = []
            for j in range(n):
                if specs[j][0] == 'Q':
                    continue
                got = cache.get(objs[j])
                g2 = cache.async_get_unique(objs[j]) if specs[j][0] != 'NSEC' else got
                if (got is not None) != (g2 is not None):
                    hits.append(-(j + 1))          # the two lookup paths disagree: force a mismatch
                elif got is not None:
                    hits.append(j + 1)
            o['cachehit'] = hits
            # what adding says: "not in the cache yet" exactly for a different record, and the cache then holds one entry per identity
            # (NSEC records are always reported as already known: documented in _async_add)
            known = []
            for j in range(n):
                if specs[j][0] in ('Q', 'NSEC'):
                    continue
                c2 = DNSCache()
                c2.async_add_records([a])
                was_new = c2.async_add_records([objs[j]])
                held = sum(len(v) for v in c2.cache.values())
                if bool(was_new) != (held == 2):
                    known.append(-(j + 1))
                elif not was_new:
                    known.append(j + 1)
            o['cacheknown'] = known
        else:
            o['suppresses'] = []
            o['cachehit'] = []
            o['cacheknown'] = []
        obs.append(o)
    return obs


def run(ctx: Ctx) -> None:
    rng = random.Random(ctx.seed)
    specs = build_universe(ctx, rng)
    base, exact, raw = Interner(), Interner(), Interner()
    universe = [abstract(s, base, exact, raw) for s in specs]
    objs = [make_object(s) for s in specs]
    ctx.log('universe: %d entries, %d ordered pairs' % (len(specs), len(specs) ** 2))
    obs = observe(objs, specs)
    for i, o in enumerate(obs):
        if not o['neq_ok']:
            ctx.report('C20_EqIffSameKey/neq-inconsistent', '!= disagrees with == for entry %d %r' % (i, specs[i]),
                       {'entry': repr(specs[i])})
    res = tlc.run_oracle('Oracle_C20', 'Oracle_C20', {'universe': universe, 'observed': obs}, 'C20')
    infos = [x for x in res['infos']]
    classes = None
    for inf in infos:
        if len(inf) >= 5 and inf[1] == 'pairs':
            classes = inf[4]
    nbad = 0
    for v in res['verdicts']:
        # ["VERDICT", i, False, clause, detail]
        i, ok, clause, detail = v[1], v[2], v[3], v[4]
        if ok:
            continue
        nbad += 1
        spec_i = specs[i - 1]
        others = detail if isinstance(detail, list) else [detail]
        what = '%s: entry %r vs %s' % (clause, spec_i, [repr(specs[j - 1]) for j in others[:3] if isinstance(j, int) and 0 < j <= len(specs)])
        ctx.report(f'{clause}/{spec_i[0]}', what, {'i': i, 'spec': repr(spec_i), 'detail': detail})
    n = len(specs)
    nontrivial_pairs = sum(len(o['eq']) - 1 for o in obs)   # equal pairs of distinct entries
    ctx.coverage.update({
        'states': max(1, res.get('distinct', 1)),
        'transitions': max(1, res.get('states', 1)),
        'traces_validated_against_impl': n,
        'evaluations': n * n,
        'distinct_nontrivial': nontrivial_pairs,
        'rule': 'every ordered pair of the bounded universe (kinds x names x spellings x classes x TTLs x '
                'one-field rdata variants [+ random mixes in thorough]); non-trivial = ordered pairs of '
                'distinct entries that the contract calls the same record',
        'exhaustive': True,
        'identity_classes': classes,
        'clauses': ['C20_EqIffSameKey', 'C20_EqualHashEqual', 'C20_DictMembership', 'C20_RRSetLookup',
                    'C20_CacheLookup', 'C20_CacheAddReportsNew'],
        'samples': [repr(specs[0]), repr(specs[len(specs) // 2]), repr(specs[-1])],
        'explanation': 'TLC (Oracle_C20.tla) evaluated Records!Same on all pairs and compared with ==, hash, dict, '
                       'DNSRRSet.suppresses and DNSCache.get/async_get_unique of the real objects',
    })
    ctx.assumptions += ['interning of names/bytes by the harness (cross-checked against str.lower on ASCII)',
                        'non-ASCII names only with identical spelling (property Reading)']
