"""Responder family harness (C03, C08, C11, C12; also used by C09/C16/C17): a real instance with
registered services; the harness plays every querier on the link and records every datagram the
instance sends, projected with the independent parser (vf/wire.py) onto interned record ids."""
from __future__ import annotations

import asyncio
import random
import socket
from typing import Any, Dict, List, Optional, Tuple

from vf import simnet, wire

ENUM = '_services._dns-sd._udp.local.'
TYPES = ['_http._tcp.local.', '_ipp._tcp.local.', '_printer._sub._http._tcp.local.', '_IPPprinter._tcp.local.']
HOSTS = ['ash.local.', 'Birch.local.', 'cedar.local.', 'gro\u00df.local.']      # (sharp s: lower() keeps it, casefold() does not)
TXT_128 = b'\x7fk=' + b'x' * 125                                                # a TXT rdata of exactly 128 octets
ADDR_SETS = {
    'v4': (['10.0.0.1'], []),
    'v6': ([], ['fe80::1']),
    'dual': (['10.0.0.1'], ['fe80::1']),
    'two4': (['10.0.0.1', '10.0.0.2'], []),
    'other4': (['10.0.0.7'], []),
    'none': ([], []),
}


# IPv6 peers standing in for the IPv4 ones when a scenario asks for IPv6 sources (layout 'dual')
V6SRC = {'10.0.0.9': 'fe80::9', '10.0.0.23': 'fe80::23', '192.168.1.77': 'fd00::77', '10.0.0.44': 'fe80::44', '10.0.0.77': 'fe80::77'}


def low(s: str) -> str:
    return ''.join(chr(ord(c) + 32) if 'A' <= c <= 'Z' else c for c in s)


def recase(s: str, variant: int) -> str:
    """Another spelling of the same DNS name: only the ASCII letters change case (RFC 6762 section 16)."""
    if variant % 3 == 1:
        return ''.join(chr(ord(c) - 32) if 'a' <= c <= 'z' else c for c in s)
    if variant % 3 == 2:
        return ''.join(chr(ord(c) - 32) if 'a' <= c <= 'z' else (chr(ord(c) + 32) if 'A' <= c <= 'Z' else c) for c in s)
    return s


class Interner:
    """names -> nb ids ; records (wire key) -> rid with a descriptor table."""

    def __init__(self) -> None:
        self.names: Dict[str, int] = {}
        self.recs: Dict[tuple, int] = {}
        self.rr: Dict[tuple, int] = {}
        self.table: List[dict] = []

    def nb(self, name: str) -> int:
        k = low(name)
        if k not in self.names:
            self.names[k] = len(self.names) + 1
        return self.names[k]

    def rid(self, name: str, type_: int, cls: int, rdkey: Any) -> int:
        key = (low(name), type_, cls & 0x7FFF, rdkey)
        if key not in self.recs:
            self.recs[key] = len(self.recs) + 1
            rrk = (low(name), type_, cls & 0x7FFF)
            if rrk not in self.rr:
                self.rr[rrk] = len(self.rr) + 1
            self.table.append({'id': self.recs[key], 'rr': self.rr[rrk], 'type': type_, 'nb': self.nb(name),
                               'ptr': type_ == wire.T_PTR})
        return self.recs[key]

    def rid_of_entry(self, e: wire.Entry) -> int:
        return self.rid(e.name.text, e.type, e.cls, wire.rd_key(e.type, e.rd))


def service_spec(k: int, type_i: int, host_i: int, addrs: str, name_variant: int = 0, port: int = 80, txt: bytes = b'\x03a=1',
                 host_ttl: int = 120, other_ttl: int = 4500) -> dict:
    type_ = TYPES[type_i]
    base = '_http._tcp.local.' if type_i == 2 else type_
    inst = (['Alpha', 'beta', 'Gamma Ray', 'delta'][k % 4] if name_variant == 0 else ['Stra\u00dfe 7', 'Fu\u00dfball'][k % 2]) + '.' + base
    return {'sid': k, 'type': type_, 'name': inst, 'host': HOSTS[host_i], 'addrs': addrs, 'port': port, 'txt': txt.hex(),
            'host_ttl': host_ttl, 'other_ttl': other_ttl}


def expected_records(it: Interner, sp: dict) -> dict:
    """Record ids of a service computed by the harness from the parameters it registered
    (RFC 6763: PTR type->instance, SRV/TXT at the instance, A/AAAA at the host, NSEC for the missing
    address family) -- not read back from the library."""
    a4, a6 = ADDR_SETS[sp['addrs']]
    txt = bytes.fromhex(sp['txt'])
    if sp['host'] is None:
        # no host name given: the instance name of the service -- the one it ends up with -- serves as its host name
        sp = dict(sp, host=sp['name'])
    d: Dict[str, Any] = {
        'sid': sp['sid'], 'name': it.nb(sp['name']), 'type': it.nb(sp['type']), 'host': it.nb(sp['host']),
        'ptr': it.rid(sp['type'], wire.T_PTR, 1, low(sp['name'])),
        'srv': it.rid(sp['name'], wire.T_SRV, 1, (0, 0, sp['port'], low(sp['host']))),
        'txt': it.rid(sp['name'], wire.T_TXT, 1, txt),
        'a4': [it.rid(sp['host'], wire.T_A, 1, socket.inet_aton(a)) for a in a4],
        'a6': [it.rid(sp['host'], wire.T_AAAA, 1, socket.inet_pton(socket.AF_INET6, a)) for a in a6],
        'enum': it.rid(ENUM, wire.T_PTR, 1, low(sp['type'])),
        'httl': sp['host_ttl'], 'ottl': sp['other_ttl'],
    }
    missing = ([] if a4 else [1]) + ([] if a6 else [28])
    d['nsec'] = 0
    d['nsecAlt'] = 0
    if missing:
        # owner of the NSEC record: RFC 6762 6.1 puts it at the name whose types are missing (the host);
        # the library uses the instance name.  Either is accepted by the contract.
        d['nsec'] = it.rid(sp['name'], wire.T_NSEC, 1, (sp['name'], tuple(missing)))
        d['nsecAlt'] = it.rid(sp['host'], wire.T_NSEC, 1, (sp['host'], tuple(missing)))
    return d


class Recorder:
    def __init__(self, sc: dict) -> None:
        self.sc = sc
        self.it = sc.get('_interner') or Interner()
        self.net = simnet.Net(seed=sc.get('seed', 0), rand=sc.get('rand'), record_bytes=False)
        self.events: List[dict] = []
        self._keys: List[tuple] = []
        self.did: Dict[bytes, int] = {}
        self.host: Any = None
        self.infos: Dict[int, Any] = {}
        self.specs: Dict[int, dict] = {}
        self.net.on_recv_hook = self._on_recv
        self.net.on_recv_done_hook = lambda e: self.ev('recv_done')
        self.net.on_send_hook = self._on_send
        self.pending_tasks: List[Any] = []
        self.closed = False
        self.bg: List[Any] = []
        self.browsers: List[Any] = []
        self.inj_count = 0
        self.dup_log: List[dict] = []
        self.sent_count = 0
        self.recv_counts: Dict[int, int] = {}
        self.gone_infos: Dict[int, Any] = {}

    def ev(self, _ev: str, **kw: Any) -> dict:
        if getattr(self, 'stopped', False):
            return {}
        e = {'ev': _ev, 't': self.net.now()}
        e.update({k: v for k, v in kw.items() if v is not None})
        self._keys.append((self.net._seq, 1, len(self.events)))
        self.events.append(e)
        return e

    # ------------------------------------------------------------ projection
    def proj_records(self, entries: List[wire.Entry]) -> List[List[int]]:
        out = []
        for e in entries:
            # TLC integers are 32-bit: TTLs are clamped to 2,000,000 s (23 days), which never expires within a trace
            ttl = min(e.ttl if e.ttl is not None else 0, 2000000)
            out.append([self.it.rid_of_entry(e), ttl, 1 if e.flush else 0])
        return out

    def proj_msg(self, data: bytes) -> Optional[dict]:
        try:
            m = wire.parse(data)
        except wire.WireError as ex:
            return None
        return {'id': m.id, 'flags': m.flags, 'resp': m.is_response, 'tc': m.tc,
                'qs': [[self.it.nb(q.name.text), q.type, 1 if q.cls & 0x8000 else 0, q.cls & 0x7FFF,
                        1 if any(len(l.decode('utf-8', 'replace').encode('utf-8')) > 63 for l in q.name.labels) else 0] for q in m.questions],
                'an': self.proj_records(m.answers), 'ns': self.proj_records(m.authorities),
                'ar': self.proj_records(m.additionals), 'len': len(data)}

    def _on_recv(self, e: dict, data: bytes) -> None:
        self.recv_counts[e['sock']] = self.recv_counts.get(e['sock'], 0) + 1
        did = self.did.setdefault(data, len(self.did) + 1)
        p = self.proj_msg(data)
        libvalid = True
        if p is None and len(data) <= 8966:
            # what the library's own decoder makes of a datagram the strict parser rejects (separate instance, no side effects)
            try:
                from zeroconf._protocol.incoming import DNSIncoming
                libvalid = bool(DNSIncoming(data).valid)
            except BaseException:  # noqa: BLE001
                libvalid = False
        if p is None:
            self.ev('recv', did=did, bad=True, libvalid=libvalid, sock=e['sock'], src=self.it.nb(e['src']), port=e['port'], inj=bool(e.get('inj')),
                    len=len(data))
            return
        self.ev('recv', did=did, bad=False, sock=e['sock'], src=self.it.nb(e['src']), port=e['port'], inj=bool(e.get('inj')),
                tag=e.get('tag'), **p)

    def _on_send(self, e: dict, data: bytes) -> None:
        self.sent_count += 1
        mc = e['dst'] in (simnet.MDNS_ADDR, simnet.MDNS_ADDR6)
        if mc:
            # one multicast goes out once per respond socket (IPv4 and IPv6 group on a dual-stack instance): the copies of one
            # transmission -- same octets, same instant, another socket -- are one event of the trace
            key = (self.net.now(), data)
            if getattr(self, '_last_mc', None) is not None and self._last_mc[0] == key and e['sock'] not in self._last_mc[1]:
                self._last_mc[1].add(e['sock'])
                self.mc_copies = getattr(self, 'mc_copies', 0) + 1
                return
            self._last_mc = (key, {e['sock']})
        p = self.proj_msg(data)
        if p is None:
            self.ev('send', bad=True, sock=e['sock'], mc=mc, dst=self.it.nb(e['dst']), port=e['port'], raw=data.hex()[:400])
            return
        self.ev('send', bad=False, sock=e['sock'], mc=mc, dst=self.it.nb(e['dst']), port=e['port'], v6=':' in e['dst'], **p)

    # ------------------------------------------------------------ API steps
    def make_info(self, sp: dict) -> Any:
        from zeroconf import ServiceInfo
        a4, a6 = ADDR_SETS[sp['addrs']]
        addrs = [socket.inet_aton(a) for a in a4] + [socket.inet_pton(socket.AF_INET6, a) for a in a6]
        return ServiceInfo(sp['type'], sp['name'], sp['port'], properties=bytes.fromhex(sp['txt']), server=sp['host'],
                           host_ttl=sp['host_ttl'], other_ttl=sp['other_ttl'], addresses=addrs)

    async def api(self, st: dict) -> None:
        op = st['op']
        aio = self.host.aiozc
        if op == 'reg':
            sp = st['svc']
            gone = self.gone_infos.get(sp['sid'])
            if (st.get('same_object') and gone is not None
                    and all(gone[1][k] == sp[k] for k in ('type', 'host', 'addrs', 'txt'))
                    and (gone[1]['name'] == sp['name'] or st.get('new_name'))):
                # the application registers the object it had unregistered again, after changing port and / or TTLs on it -- or its
                # name (ServiceInfo.name is assignable; the library itself assigns it when it renames)
                info = gone[0]
                if gone[1]['name'] != sp['name']:
                    info.name = sp['name']
                info.port = sp['port']
                info.host_ttl = sp['host_ttl']
                info.other_ttl = sp['other_ttl']
            else:
                info = self.make_info(sp)
            coop = st.get('coop', True)
            cands = []
            if not coop:
                # candidate names the library may end up with: name, name-2, name-3, ... (first free suffix)
                inst, _, rest = sp['name'].partition('.')
                for n in range(1, 7):
                    c = dict(sp)
                    c['name'] = sp['name'] if n == 1 else '%s-%d.%s' % (inst, n, sp['type'])
                    cands.append(expected_records(self.it, c))
            if st.get('again') and not cands:
                cands = [expected_records(self.it, sp)]
            self.ev('api', op='reg', svc=expected_records(self.it, sp), coop=coop, rename=bool(st.get('rename', False)),
                    cands=cands, exact=st.get('exact', []), again=bool(st.get('again', False)))
            try:
                task = await aio.async_register_service(info, cooperating_responders=coop,
                                                        allow_name_change=st.get('rename', False), **({} if sp.get('strict', True) else {'strict': False}))
                self.infos[sp['sid']] = info
                sp2 = dict(sp)
                sp2['name'] = info.name
                self.specs[sp['sid']] = sp2
                self.pending_tasks.append(task)
                self.ev('api_ret', op='reg', sid=sp['sid'], ok=True, final=self.it.nb(info.name))
            except Exception as ex:  # noqa: BLE001
                self.ev('api_ret', op='reg', sid=sp['sid'], ok=False, exc=type(ex).__name__)
        elif op == 'upd':
            sp = st['svc']
            old = self.infos.get(sp['sid'])
            oldsp = self.specs.get(sp['sid'])
            if (old is not None and oldsp is not None and st.get('same_object')
                    and all(oldsp[k] == sp[k] for k in ('type', 'name', 'host', 'addrs', 'txt'))):
                # the application mutates the object it registered and calls update (port and / or TTLs changed)
                info = old
                info.port = sp['port']
                info.host_ttl = sp['host_ttl']
                info.other_ttl = sp['other_ttl']
            else:
                info = self.make_info(sp)
            self.ev('api', op='upd', svc=expected_records(self.it, sp))
            try:
                task = await aio.async_update_service(info)
                self.infos[sp['sid']] = info
                self.specs[sp['sid']] = sp
                self.pending_tasks.append(task)
                self.ev('api_ret', op='upd', sid=sp['sid'], ok=True)
            except Exception as ex:  # noqa: BLE001
                self.ev('api_ret', op='upd', sid=sp['sid'], ok=False, exc=type(ex).__name__)
        elif op == 'mut':
            # the application assigns new addresses to the description it registered, without telling the library (no update)
            sp = st['svc']
            info = self.infos.get(sp['sid'])
            if info is None:
                return
            a4, a6 = ADDR_SETS[sp['addrs']]
            self.ev('api', op='mut', svc=expected_records(self.it, sp))
            info.addresses = [socket.inet_aton(a) for a in a4] + [socket.inet_pton(socket.AF_INET6, a) for a in a6]
            self.specs[sp['sid']] = sp
        elif op == 'peek':
            # the application reads the records of a description it registered (read-only accessors: nothing changes)
            from zeroconf import IPVersion
            info = self.infos.get(st['sid'])
            if info is not None:
                ver = {'v4': IPVersion.V4Only, 'v6': IPVersion.V6Only, 'all': IPVersion.All}[st.get('ver', 'all')]
                try:
                    info.dns_addresses(version=ver)
                    info.dns_addresses(override_ttl=st.get('ttl'), version=ver) if st.get('ttl') else None
                    info.addresses_by_version(ver)
                    info.dns_pointer(), info.dns_service(), info.dns_text()
                    info.dns_pointer(override_ttl=7), info.dns_service(override_ttl=7), info.dns_text(override_ttl=7)
                    info.properties, info.get_name()
                except Exception as ex:  # noqa: BLE001
                    self.ev('exc', what='peek:' + type(ex).__name__, msg=str(ex)[:100])
        elif op == 'unreg':
            info = self.infos.pop(st['sid'], None)
            if info is None:
                return
            oldsp = self.specs.pop(st['sid'], None)
            if oldsp is not None:
                self.gone_infos[st['sid']] = (info, oldsp)
            self.ev('api', op='unreg', sid=st['sid'])
            if st.get('fresh') and oldsp is not None:
                # the application describes the service again instead of keeping the object it registered (the registry removes by name)
                try:
                    info = self.make_info(dict(oldsp, name=info.name))
                except Exception:  # noqa: BLE001
                    pass
            try:
                task = await aio.async_unregister_service(info)
            except Exception as ex:  # noqa: BLE001
                # unregistering a registered service does not raise: whatever escapes here is an exception the application gets
                self.ev('exc', what='unregister:' + type(ex).__name__, msg=str(ex)[:100])
                return
            self.pending_tasks.append(task)
            self.ev('api_ret', op='unreg', sid=st['sid'], ok=True)
        elif op == 'unreg_all':
            # every service is withdrawn at once, the instance stays open
            for sid in list(self.infos):
                info = self.infos.pop(sid)
                oldsp = self.specs.pop(sid, None)
                if oldsp is not None:
                    self.gone_infos[sid] = (info, oldsp)
            self.ev('api', op='unreg_all')
            self.bg.append(asyncio.ensure_future(aio.zeroconf.async_unregister_all_services()))
        elif op == 'close':
            self.ev('api', op='close', again=self.closed)
            try:
                if st.get('deadline_ms'):
                    # the application gives close a deadline (asyncio.wait_for): the call is cancelled half way
                    try:
                        await asyncio.wait_for(aio.async_close(), st['deadline_ms'] / 1000.0)
                    except asyncio.TimeoutError:
                        self.ev('api_ret', op='close', ok=False, cut=True, exc='TimeoutError')
                        return
                else:
                    await aio.async_close()
                self.closed = True
                self.ev('api_ret', op='close', ok=True)
                if st.get('cancel_bg'):
                    # the application drops what it had in flight (a registration still probing) as soon as close has returned
                    for fut in self.bg:
                        if not fut.done():
                            fut.cancel()
            except Exception as ex:  # noqa: BLE001
                self.ev('api_ret', op='close', ok=False, exc=type(ex).__name__)

    # ------------------------------------------------------------ duplication (C16), browser, listener
    def dup_factor(self, data: bytes, port: int = 5353) -> int:
        """2 when this injected datagram is to be delivered twice back to back (scenario key 'dup': 'all' or an index)."""
        self.inj_count += 1
        mode = self.sc.get('dup')
        if mode in ('all', 'allnq') or mode == self.inj_count:
            try:
                m = wire.parse(data)
                qu = (not m.is_response) and any(q.cls & 0x8000 for q in m.questions)
                tc = bool(m.tc)
                # a probe with a QM question among its questions: that part is answered by multicast at once, whatever was multicast before
                probe = bool(m.authorities) and any(not (q.cls & 0x8000) for q in m.questions)
                qlist = [[self.it.nb(q.name.text), q.type, 1 if q.cls & 0x8000 else 0] for q in m.questions] if not m.authorities else []
            except wire.WireError:
                qu = tc = probe = False
                qlist = []
            if qu and mode == 'allnq':
                return 1             # every datagram except queries with a QU question (whose copies are answered, finding D9)
            self.dup_log.append({'t': self.net.now(), 'qu': qu, 'tc': tc, 'probe': probe, 'legacy': port != 5353, 'n': self.inj_count, 'qs': qlist})
            return 2
        return 1

    def inject_copy(self, k: int, data: bytes, **kw: Any) -> None:
        """The k-th copy of a datagram: the first one now, further ones 'dup_gap' ms later (0 = in the same instant).
        A later copy is only delivered when it is still back to back, i.e. nothing else (not even the loopback of the
        host's own answer) was delivered to that socket in between; otherwise the duplication is dropped from the run."""
        gap = self.sc.get('dup_gap', 0)
        if k == 0 or not gap:
            self.host.inject(data, **kw)
            return
        loop = self.net.loop
        entry = self.dup_log[-1] if self.dup_log else None
        sock = kw.get('sock', 0)
        mark = self.recv_counts.get(sock, 0)            # the first copy has been delivered already
        sent = self.sent_count

        def later() -> None:
            # (immediate succession: nothing else was delivered to the socket in between, and no timer of the instance has sent
            # anything meanwhile -- a truncated query whose hold ran out between the two copies is a new query, not a copy)
            if self.recv_counts.get(sock, 0) == mark and (self.sent_count == sent or not entry or not entry.get('tc')):
                if entry is not None:
                    entry['t'] = self.net.now()
                self.host.inject(data, **kw)
            elif entry is not None and entry in self.dup_log:
                self.dup_log.remove(entry)
        loop.call_at(loop.time() + k * gap / 1000.0, later)

    def build_response(self, st: dict) -> bytes:
        ans = []
        for r in st['recs']:
            ans.append((r['rec'][0], r['rec'][1], r['rec'][2] | (0x8000 if r.get('fl') else 0), r['ttl'], self._rd(r['rec'])))
        qs = []
        if st.get('echo_qu') and ans:
            # a responder that echoes the question it answers, unicast-response bit included
            qs = [(ans[0][0], ans[0][1], 1 | 0x8000)]
        return wire.build(flags=0x8400, questions=qs, answers=ans)

    def start_browser(self, st: dict) -> None:
        from zeroconf import ServiceListener
        from zeroconf.asyncio import AsyncServiceBrowser
        rec = self

        class BL(ServiceListener):
            def add_service(self, zc: Any, type_: str, name: str) -> None:
                rec.ev('cb', kind='add', ty=rec.it.nb(type_), name=rec.it.nb(name))

            def remove_service(self, zc: Any, type_: str, name: str) -> None:
                rec.ev('cb', kind='rem', ty=rec.it.nb(type_), name=rec.it.nb(name))

            def update_service(self, zc: Any, type_: str, name: str) -> None:
                rec.ev('cb', kind='upd', ty=rec.it.nb(type_), name=rec.it.nb(name))
        self.ev('bstart', types=[self.it.nb(t) for t in st['types']])
        self.browsers.append(AsyncServiceBrowser(self.host.zc, list(st['types']), listener=BL(), delay=st.get('delay', 10000)))

    async def lookup(self, st: dict) -> None:
        from zeroconf.asyncio import AsyncServiceInfo
        info = AsyncServiceInfo(st['type'], st['name'])
        self.ev('lookup', name=self.it.nb(st['name']), timeout=st.get('timeout', 3000))
        try:
            ok = await info.async_request(self.host.zc, st.get('timeout', 3000))
            self.ev('lookup_ret', name=self.it.nb(st['name']), ok=bool(ok))
        except Exception as ex:  # noqa: BLE001
            self.ev('lookup_ret', name=self.it.nb(st['name']), ok=False, exc=type(ex).__name__)

    def add_listener(self, raise_every: int = 0) -> None:
        from zeroconf import RecordUpdateListener
        rec = self
        count = {'n': 0}

        class L(RecordUpdateListener):
            def async_update_records(self, zc: Any, now: float, records: list) -> None:
                if records:
                    rec.ev('lcall', n=len(records))
                    # a faulty application: the listener raises, but only on datagrams that add and remove nothing (every
                    # record refreshes a cached one), so that the library has by then done all there is to do with it
                    if raise_every and all(ru.old is not None and ru.new.ttl > 0 for ru in records):
                        count['n'] += 1
                        if count['n'] % raise_every == 0:
                            rec.ev('uexc')
                            raise simnet.HarnessFault('listener raises')

            def async_update_records_complete(self) -> None:
                pass
        self.host.zc.async_add_listener(L(), None)

    def build_query(self, st: dict) -> bytes:
        qs = []
        for q in st['qs']:
            qs.append((recase(q['name'], q.get('sp', 0)), q['type'], q.get('cls', 1) | (0x8000 if q.get('qu') else 0)))
        ans = []
        for k in st.get('known', []):
            ans.append(tuple(k['rec'][:3]) + (k['ttl'], self._rd(k['rec'])))
        auth = []
        for k in st.get('auth', []):
            auth.append(tuple(k['rec'][:3]) + (k['ttl'], self._rd(k['rec'])))
        flags = 0x0200 if st.get('tc') else 0
        data = wire.build(id_=st.get('qid', 0), flags=flags, questions=qs, answers=ans, authorities=auth)
        if st.get('badq'):
            # one more question, for a name with a label that is not UTF-8: 30 octets on the wire, 90 when decoded with replacement
            # characters and encoded again -- it cannot be echoed in a legacy unicast reply
            qlen = sum(len(wire.enc_name(n)) + 4 for n, _, _ in qs)
            extra = bytes([30]) + b'\xff' * 30 + b'\x05local\x00' + bytes([0, 1, 0, 1])
            at = 12 + (qlen if st['badq'] == 2 else 0)
            data = data[:4] + (len(qs) + 1).to_bytes(2, 'big') + data[6:at] + extra + data[at:]
        return data

    @staticmethod
    def _rd(rec: list) -> Any:
        t = rec[1]
        rd = rec[3]
        if t in (wire.T_A, wire.T_AAAA, wire.T_TXT):
            return bytes.fromhex(rd)
        if t == wire.T_SRV:
            return tuple(rd)
        if t == wire.T_NSEC:
            return (rd[0], list(rd[1]))
        return rd

    async def main(self) -> None:
        net = self.net
        early = self.sc.get('early_close')
        self.host = await net.add_host('h', '10.0.0.1', addr6='fe80::1', layout=self.sc.get('layout', 'single'), wait_start=early is None)
        net.unreachable = set(self.sc.get('unreachable', []))
        net.on_send_failed_hook = lambda sock, data, addr: self._on_send({'dst': addr[0], 'port': addr[1], 'sock': sock.index, 'failed': True}, data)
        self.ev('start', layout=self.sc.get('layout', 'single'), nsock=len(self.host.sockets))
        if early is not None:
            # the application gives up during its own set-up: the instance is closed while it is still starting (its sockets are
            # being set up by a task of the loop), `early` iterations of the loop after it was constructed
            self.add_listener(0)
            for _ in range(early):
                await asyncio.sleep(0)
            await self.api({'op': 'close'})
        for st in self.sc['steps']:
            op = st['op']
            if op == 'at':
                await net.sleep_until(st['t'])
            elif op == 'query':
                data = self.build_query(st)
                src = st.get('src', '10.0.0.9')
                if self.sc.get('v6src'):
                    src = V6SRC.get(src, src)
                for k in range(st.get('copies', 1) * self.dup_factor(data, st.get('port', 5353))):
                    self.inject_copy(k, data, src=src, port=st.get('port', 5353), sock=st.get('sock', 0), tag=st.get('tag'))
            elif op == 'resp':
                data = self.build_response(st)
                src = st.get('src', '10.0.0.44')
                if self.sc.get('v6src'):
                    src = V6SRC.get(src, src)
                for k in range(self.dup_factor(data)):
                    self.inject_copy(k, data, src=src, tag='resp')
            elif op == 'lookup':
                self.bg.append(asyncio.ensure_future(self.lookup(st)))
                self.last_lookup = (self.bg[-1], st)
            elif op == 'lookup_cancel':
                # the application gives up a lookup that is still waiting; in the same iteration of the loop a response with a
                # record of the looked-up instance arrives
                ll = getattr(self, 'last_lookup', None)
                if ll is not None and not ll[0].done() and not self.closed:
                    ll[0].cancel()
                    nm = ll[1]['name']
                    data = wire.build(flags=0x8400, answers=[(nm, wire.T_SRV, 0x8001, 120, (0, 0, 80, 'lost-host.local.')),
                                                           ('lost-host.local.', wire.T_A, 0x8001, 120, bytes([10, 0, 0, 99]))])
                    self.host.inject(data, src='10.0.0.44', tag='resp')
            elif op == 'bstart':
                self.start_browser(st)
            elif op == 'expect_added':
                self.ev('expect_added', name=self.it.nb(st['name']))
            elif op == 'ladd':
                self.add_listener(st.get('raise_every', 0))
            elif op == 'expect_mc':
                r = st['rec']
                self.ev('expect_mc', rid=self.it.rid(r[0], r[1], r[2], wire.rd_key(r[1], self._rd(r)) if r[1] != wire.T_PTR else low(r[3])), since=st['since'])
            elif op == 'busy_at':
                # loop latency: a callback that runs at instant st['when'] keeps the loop busy for st['ms'] milliseconds (the
                # clock moves while the callbacks queued behind it are still waiting; timers that fall due meanwhile are
                # picked up together with them in the next iteration of the loop)
                lp = self.net.loop

                def block(ms: int = st['ms']) -> None:
                    lp.vtime_us += ms * 1000
                lp.call_at(st['when'] / 1000.0, block)
            elif op == 'conflict':
                if not self.closed:
                    sp = st['svc']
                    inst, _, rest = sp['name'].partition('.')
                    nm = sp['name'] if st['k'] == 0 else '%s-%d.%s' % (inst, st['k'] + 1, sp['type'])
                    if not st.get('exact', True):
                        nm = inst.swapcase() + nm[len(inst):]
                    data = wire.build(flags=0x8400, answers=[(sp['type'], wire.T_PTR, 1, st.get('ttl', 4500), nm)])
                    self.host.inject(data, src=st.get('src', '10.0.0.66'), tag='conflict')
            elif op == 'reg_bg':
                st2 = dict(st)
                st2['op'] = 'reg'
                self.bg.append(asyncio.ensure_future(self.api(st2)))
            elif op == 'raw':
                if not self.closed or st.get('force'):
                    src = st.get('src', '10.0.0.9')
                    if self.sc.get('v6src'):
                        src = V6SRC.get(src, 'fe80::99')
                    self.host.inject(bytes.fromhex(st['data']), src=src, port=st.get('port', 5353), sock=st.get('sock', 0))
            else:
                await self.api(st)
        for fut in self.bg:
            if not fut.done():
                try:
                    await asyncio.wait_for(fut, timeout=20)
                except Exception:  # noqa: BLE001
                    pass
        self.ev('end')
        self.stopped = True
        for b in self.browsers:
            await simnet.quiet(b.async_cancel())
        if not self.closed:
            await simnet.quiet(self.host.aiozc.async_close())

    def run(self) -> dict:
        import logging
        lg = logging.getLogger('zeroconf')
        level, handlers, prop = lg.level, list(lg.handlers), lg.propagate
        if self.sc.get('debug_log'):
            # the application has debug logging switched on for the library (process-wide state, read once per datagram)
            lg.setLevel(logging.DEBUG)
            lg.handlers = [logging.NullHandler()]
            lg.propagate = False
        try:
            self.net.run(self.main(), limit_ms=self.sc.get('limit_ms', 24 * 3600 * 1000))
        finally:
            lg.setLevel(level)
            lg.handlers = handlers
            lg.propagate = prop
        # merge rand / exc events of the simulator log in time order
        extra = []
        for e in self.net.log:
            if e['ev'] == 'rand' and e['site'] in ('resp', 'tc'):
                extra.append({'ev': 'rand', 't': e['t'], 'site': e['site'], 'v': e['v'], 'seq': e['seq']})
            elif e['ev'] == 'tclose':
                extra.append({'ev': 'tclose', 't': e['t'], 'sock': e['sock'], 'seq': e['seq']})
            elif e['ev'] == 'exc' and e.get('cls') == 'HarnessFault':
                pass            # the harness's own fault, logged as 'uexc' where it was raised
            elif e['ev'] == 'exc' and not (self.events and e['t'] > self.events[-1]['t']):
                extra.append({'ev': 'exc', 't': e['t'], 'what': str(e.get('cls')), 'msg': str(e.get('msg')), 'seq': e['seq']})
        keyed = [(k, ev) for k, ev in zip(self._keys, self.events)] + [((x['seq'], 0, 0), x) for x in extra]
        keyed.sort(key=lambda p: p[0])
        merged = []
        for _, evn in keyed:
            evn = dict(evn)
            evn.pop('seq', None)
            merged.append(evn)
        if self.net.aborted:
            merged = merged[:400] + [{'ev': 'exc', 't': merged[min(len(merged), 400) - 1]['t'] if merged else 0, 'what': 'Runaway',
                                      'msg': self.net.aborted[:200]}]
        return {'id': self.sc['id'], 'events': merged, 'dups': self.dup_log, 'recs': self.it.table, 'names': len(self.it.names),
                'enum_nb': self.it.nb(ENUM)}


# ------------------------------------------------------------------------------ scenario generation
def rec_of(sp: dict, role: str, k: int = 0) -> Optional[list]:
    """[name, type, class, rd] of one of the service's records (rd JSON-able)."""
    a4, a6 = ADDR_SETS[sp['addrs']]
    if role == 'ptr':
        return [sp['type'], wire.T_PTR, 1, sp['name']]
    if role == 'srv':
        return [sp['name'], wire.T_SRV, 1, [0, 0, sp['port'], sp['host']]]
    if role == 'txt':
        return [sp['name'], wire.T_TXT, 1, sp['txt']]
    if role == 'a4' and a4:
        return [sp['host'], wire.T_A, 1, socket.inet_aton(a4[k % len(a4)]).hex()]
    if role == 'a6' and a6:
        return [sp['host'], wire.T_AAAA, 1, socket.inet_pton(socket.AF_INET6, a6[k % len(a6)]).hex()]
    if role == 'enum':
        return [ENUM, wire.T_PTR, 1, sp['type']]
    return None


def ttl_of(sp: dict, role: str) -> int:
    return 4500 if role == 'enum' else (sp['other_ttl'] if role in ('ptr', 'txt') else sp['host_ttl'])


def gen_services(rng: random.Random) -> List[dict]:
    n = rng.choice([1, 1, 2, 2, 3])
    out = []
    custom = rng.random() < 0.3
    # (also TTLs that are not multiples of four: a quarter of them is not a whole number of seconds)
    httl = rng.choice([120, 60, 240, 30, 75, 10, 150]) if custom else 120
    ottl = rng.choice([4500, 1200, 100, 30, 150, 75]) if custom else 4500
    used_names = set()
    host_addrs: Dict[int, str] = {}
    for k in range(n):
        type_i = rng.choice([0, 0, 0, 1, 1, 2, 2, 3])
        host_i = rng.choice([0, 0, 0, 1, 1, 2, 2, 3])
        if host_i in host_addrs:
            # services that share a host name may differ in the address *families* they give it (IPv4-only next to IPv6-only or
            # dual), but not in the addresses of one family: two services that announce different A sets under one name flush each
            # other's records out of every cache (cache-flush bit), their own host's included -- a contradiction in the
            # configuration, not a history of the property's domain
            first = ADDR_SETS[host_addrs[host_i]]
            ok = [k for k, (a4, a6) in ADDR_SETS.items() if k != 'none' and (not a4 or not first[0] or a4 == first[0]) and (not a6 or not first[1] or a6 == first[1])]
            addrs = host_addrs[host_i] if rng.random() < 0.6 else rng.choice(sorted(ok))
        else:
            addrs = rng.choice(['v4', 'v4', 'v6', 'dual', 'two4', 'other4'])
        host_addrs.setdefault(host_i, addrs)
        sp = service_spec(k, type_i, host_i, addrs, name_variant=1 if rng.random() < 0.12 else 0,
                          port=rng.choice([80, 80, 8080, 8080, 128]), txt=rng.choice([b'\x03a=1', b'', b'\x05k=val'] * 3 + [TXT_128]),
                          host_ttl=httl, other_ttl=ottl)
        if low(sp['name']) in used_names:
            continue
        used_names.add(low(sp['name']))
        out.append(sp)
    return out


def gen_question(rng: random.Random, svcs: List[dict]) -> dict:
    sp = rng.choice(svcs)
    r = rng.random()
    if r < 0.30:
        q = {'name': sp['type'], 'type': wire.T_PTR}
    elif r < 0.38:
        q = {'name': ENUM, 'type': wire.T_PTR}
    elif r < 0.52:
        q = {'name': sp['name'], 'type': rng.choice([wire.T_SRV, wire.T_TXT, wire.T_ANY])}
    elif r < 0.72:
        q = {'name': sp['host'], 'type': rng.choice([wire.T_A, wire.T_AAAA])}
    elif r < 0.78:
        q = {'name': sp['type'], 'type': wire.T_ANY}
    elif r < 0.86:
        q = {'name': rng.choice(['nosuch._http._tcp.local.', 'Zed.' + sp['type'], 'nohost.local.', '_nosuch._udp.local.']),
             'type': rng.choice([wire.T_PTR, wire.T_A, wire.T_SRV, wire.T_TXT, wire.T_ANY])}
    elif r < 0.93:
        q = {'name': rng.choice([sp['type'], sp['name'], sp['host']]), 'type': rng.choice([99, wire.T_NSEC, wire.T_HINFO, wire.T_CNAME])}
    else:
        q = {'name': sp['name'], 'type': wire.T_PTR}      # a type question on an instance name: nothing
    if rng.random() < 0.02:
        q = {'name': '.', 'type': rng.choice([wire.T_PTR, 2, wire.T_ANY])}       # the root name
    q['sp'] = rng.randint(0, 2)
    return q


def json_key(rec: list) -> str:
    return repr(rec)


def gen_known(rng: random.Random, svcs: List[dict]) -> List[dict]:
    out = []
    seen_k: set = set()
    for _ in range(rng.choice([0, 0, 1, 2, 4])):
        sp = rng.choice(svcs)
        role = rng.choice(['ptr', 'ptr', 'srv', 'txt', 'a4', 'a6', 'enum'])
        rec = rec_of(sp, role, rng.randint(0, 1))
        if rec is None:
            continue
        if json_key(rec) in seen_k:
            continue
        seen_k.add(json_key(rec))
        ttl = ttl_of(sp, role)
        kt = rng.choice([ttl // 2 - 1, ttl // 2, ttl // 2 + 1, ttl, 1, (ttl + 1) // 2])
        out.append({'rec': rec, 'ttl': max(0, kt)})
    return out


def gen_query(rng: random.Random, svcs: List[dict], focus: str) -> dict:
    nq = rng.choice([1, 1, 1, 2, 3])
    st: Dict[str, Any] = {'op': 'query', 'qs': [gen_question(rng, svcs) for _ in range(nq)],
                          'qid': rng.choice([0, 1, 127, 128, 129, 255, 256, 32768, 65535]) if rng.random() < 0.25 else rng.randint(0, 65535),
                          'src': rng.choice(['10.0.0.9', '10.0.0.9', '10.0.0.23', '192.168.1.77'])}
    legacy_p = {'c03': 0.7, 'c11': 0.35, 'c12': 0.1, 'c08': 0.15}.get(focus, 0.2)
    if rng.random() < legacy_p:
        st['port'] = rng.choice([40000, 1024, 65535, 5354])
        if rng.random() < ({'c11': 0.12, 'c15': 0.1}.get(focus, 0.03)):
            st['badq'] = rng.choice([1, 2])
    two = [sp for sp in svcs if len(ADDR_SETS[sp['addrs']][0]) > 1]
    if two and rng.random() < 0.3:
        # a host with several addresses of one family, asked for by a querier that knows some of them: the others are answered
        sp = rng.choice(two)
        st['qs'] = [{'name': sp['host'], 'type': wire.T_A, 'sp': rng.randint(0, 2)}] + (st['qs'][:1] if rng.random() < 0.3 else [])
        st['known'] = [{'rec': rec_of(sp, 'a4', rng.randint(0, 1)), 'ttl': rng.choice([sp['host_ttl'], sp['host_ttl'] // 2 + 1])}]
        if rng.random() < 0.3:
            st['known'] += gen_known(rng, svcs)[:1]
            if len({json_key(k['rec']) for k in st['known']}) < len(st['known']):
                st['known'] = st['known'][:1]
    for q in st['qs']:
        # the QU bit also on queries from other ports (a legacy resolver that sets it still gets its unicast reply)
        q['qu'] = rng.random() < ({'c11': 0.5}.get(focus, 0.2)) and ('port' not in st or rng.random() < 0.4)
    if rng.random() < 0.5 and 'known' not in st:
        st['known'] = gen_known(rng, svcs)
    if rng.random() < ({'c11': 0.2}.get(focus, 0.06)):
        sp = rng.choice(svcs)
        st['auth'] = [{'rec': rec_of(sp, 'ptr'), 'ttl': sp['other_ttl']}]      # a probe
    return st


def gen_resp(rng: random.Random, sid: str, focus: str, thorough: bool = False) -> dict:
    svcs = gen_services(rng)
    # one IPv4 socket, a listen socket plus a respond socket, or the dual-stack set (an IPv6 listen socket that also hears IPv4,
    # one respond socket per family; the peers are then IPv6 hosts or IPv4 hosts seen under their v4-mapped addresses)
    layout = rng.choice(['single', 'single', 'split', 'dual'])
    if layout == 'dual':
        # finding D22: records read from an IPv6 socket carry the scope of the datagram's source, the host's own AAAA records do
        # not, so the two never compare equal (recency, known-answer suppression).  The random histories on the dual-stack layout
        # therefore use services with IPv4 addresses only; the finding has its own directed histories (d22_scenarios).
        for sp in svcs:
            sp['addrs'] = {'v6': 'v4', 'dual': 'two4'}.get(sp['addrs'], sp['addrs'])
    steps: List[dict] = []
    t = 0
    busy: Dict[int, int] = {}        # sid -> instant until which its announcement / goodbye task runs
    for sp in svcs:
        steps += [{'op': 'at', 't': t}, {'op': 'reg', 'svc': sp, 'coop': True}]
        busy[sp['sid']] = t + 500
        t += rng.choice([0, 0, 100, 600, 2000])
    t += rng.choice([500, 1000, 1500, 3000])          # announcements are over (or not quite: 450 ms after the last reg)
    live = list(svcs)
    n_ops = rng.choice([3, 5, 8, 12]) if not thorough else rng.choice([5, 10, 20, 30])
    gaps = [0, 1, 20, 120, 200, 500, 999, 1000, 1001, 1120, 1500, 3000]
    for k in range(n_ops):
        r = rng.random()
        if r < 0.12:
            # long wait: quarter-TTL boundaries of the host records (ttl 120 -> 30 s) and of PTR/TXT (4500 -> 1125 s)
            sp0 = svcs[0]
            t += rng.choice([250 * sp0['host_ttl'] - 1 - 450, 250 * sp0['host_ttl'] - 450, 250 * sp0['host_ttl'] + 1,
                             250 * sp0['other_ttl'] - 1, 250 * sp0['other_ttl'] + 1, 35000, 10000])
        else:
            t += rng.choice(gaps) if rng.random() < 0.8 else rng.randint(0, 2500)
        steps.append({'op': 'at', 't': t})
        if live and rng.random() < {'c12': 0.12, 'c11': 0.12}.get(focus, 0.03):
            # a burst inside one aggregation window: two queries close together (two answer groups wait for the 500 ms
            # deadline of the first), a third -- sometimes a fourth -- just before that deadline, each for another record
            cands = []
            for x in live:
                cands += [(x['type'], wire.T_PTR), (x['name'], wire.T_TXT), (ENUM, wire.T_PTR)]
            cands = sorted(set(cands))
            rng.shuffle(cands)
            legacy = rng.random() < {'c11': 0.6, 'c12': 0.15}.get(focus, 0.3)
            offs = [0, rng.choice([5, 20, 50, 100]), rng.choice([380, 450, 481, 485, 490, 499])] + ([rng.choice([505, 520, 600])] if rng.random() < 0.4 else [])
            t0b = t
            for (qn, qt), off in zip(cands, offs):
                t = t0b + off
                st: Dict[str, Any] = {'op': 'query', 'qs': [{'name': qn, 'type': qt, 'sp': rng.randint(0, 2), 'qu': False}],
                                      'qid': rng.randint(1, 65535), 'src': rng.choice(['10.0.0.9', '10.0.0.23'])}
                if legacy:
                    st['port'] = 40000
                steps += [{'op': 'at', 't': t}, st]
            continue
        if focus in ('c12', 'c08', 'c03') and rng.random() < 0.06 and [x for x in live if busy[x['sid']] <= t]:
            # an answer waits in the aggregation queue (enumeration / type pointer) while the application updates the service
            sp = dict(rng.choice([x for x in live if busy[x['sid']] <= t]))
            steps.append({'op': 'query', 'qs': [{'name': rng.choice([ENUM, sp['type']]), 'type': wire.T_PTR, 'sp': rng.randint(0, 2), 'qu': False}],
                          'qid': rng.randint(1, 65535), 'src': '10.0.0.23'})
            t += rng.choice([5, 15, 100, 300])
            steps.append({'op': 'at', 't': t})
            i = live.index(next(x for x in live if x['sid'] == sp['sid']))
            busy[sp['sid']] = t + 500
            sp['port'] = rng.choice([80, 8080, 9999])
            live[i] = sp
            steps.append({'op': 'upd', 'svc': sp, 'same_object': rng.random() < 0.5})
            continue
        if rng.random() < {'c03': 0.06, 'c09': 0.1}.get(focus, 0.02) and [x for x in live if busy[x['sid']] <= t]:
            # a registration that is refused: another ServiceInfo under an instance name this instance already holds (another
            # sub/type, host or port), cooperating_responders so that it reaches the registry at once.  Nothing of it may be
            # announced, enumerated or answered afterwards.
            sp = rng.choice([x for x in live if busy[x['sid']] <= t])
            sp2 = dict(sp, sid=6)
            how = rng.choice(['type', 'host', 'port', 'all'])
            if how in ('type', 'all') and sp['type'] == TYPES[0]:
                sp2['type'] = TYPES[2]
            if how in ('host', 'all'):
                sp2['host'] = 'elm.local.'
                sp2['addrs'] = 'other4'
            if how in ('port', 'all') or sp2 == dict(sp, sid=6):
                sp2['port'] = 8081
            steps.append({'op': 'reg', 'svc': sp2, 'coop': True, 'refused': True})
            t += rng.choice([0, 1, 600, 1500])
            steps.append({'op': 'at', 't': t})
            for qn, qt in [(ENUM, wire.T_PTR), (sp2['host'], wire.T_A), (sp2['type'], wire.T_PTR), (sp2['name'], wire.T_SRV)]:
                if rng.random() < 0.8:
                    steps.append({'op': 'query', 'qs': [{'name': qn, 'type': qt, 'sp': rng.randint(0, 2), 'qu': False}], 'qid': rng.randint(1, 65535),
                                  'src': '10.0.0.9', 'port': rng.choice([40000, 40000, 5353])})
            continue
        r = rng.random()
        p_unreg = {'c08': 0.25, 'c03': 0.15}.get(focus, 0.06)
        # API calls on a service only once its previous announcement / goodbye sequence is over (property domain:
        # unregister / close timing is quantified relative to queries, not relative to registration)
        if r < {'c08': 0.05, 'c03': 0.02}.get(focus, 0.01) and live and all(busy[x['sid']] <= t for x in live):
            if rng.random() < 0.6:
                # an address answer parked by the one-second rule when everything is withdrawn: asked, answered at once, asked again
                h = rng.choice(live)['host']
                for dt in (0, rng.choice([150, 400, 700])):
                    t += dt
                    steps += [{'op': 'at', 't': t}, {'op': 'query', 'qs': [{'name': h, 'type': rng.choice([wire.T_A, wire.T_AAAA]), 'sp': 0,
                                                                            'qu': False}], 'qid': rng.randint(1, 65535), 'src': '10.0.0.23'}]
                t += rng.choice([50, 200, 500])
                steps.append({'op': 'at', 't': t})
            for x in live:
                busy[x['sid']] = max(busy[x['sid']], t + 300)
            live = []
            steps.append({'op': 'unreg_all'})
            continue
        if r < p_unreg and [x for x in live if busy[x['sid']] <= t]:
            sp = rng.choice([x for x in live if busy[x['sid']] <= t])
            if focus in ('c08', 'c03') and rng.random() < 0.4:
                # an address (or type enumeration) answer parked by the one-second rule when the service goes: asked, answered at
                # once, asked again within the second, then unregistered before the parked answer is due
                qname, qtype = rng.choice([(sp['host'], wire.T_A), (sp['host'], wire.T_AAAA), (ENUM, wire.T_PTR), (sp['type'], wire.T_PTR)])
                if (focus == 'c08' and rng.random() < 0.35 and sp['addrs'] in ('v4', 'other4', 'two4') and layout != 'dual'
                        and not any(x['host'] == sp['host'] for x in live if x['sid'] != sp['sid'])):
                    # ... after the application has given the registered description another address, in place
                    sp = dict(sp, addrs={'v4': 'other4', 'other4': 'v4', 'two4': 'other4'}[sp['addrs']])
                    live[[x['sid'] for x in live].index(sp['sid'])] = sp
                    steps.append({'op': 'mut', 'svc': sp})
                    qname, qtype = sp['host'], wire.T_A
                for dt in (0, rng.choice([150, 400, 700])):
                    t += dt
                    steps += [{'op': 'at', 't': t}, {'op': 'query', 'qs': [{'name': qname, 'type': qtype, 'sp': 0, 'qu': False}],
                                                    'qid': rng.randint(1, 65535), 'src': '10.0.0.23'}]
                dt = rng.choice([0, 50, 200, 500])
                if dt:
                    # (dt = 0: the application unregisters in the very loop iteration in which the query was read -- no 'at' step,
                    # which would yield to the loop once)
                    t += dt
                    steps.append({'op': 'at', 't': t})
            elif rng.random() < 0.3:
                # a query for the service in the same loop iteration, then the unregistration with nothing in between
                qname, qtype = rng.choice([(sp['type'], wire.T_PTR), (ENUM, wire.T_PTR), (sp['name'], wire.T_TXT), (sp['name'], wire.T_ANY)])
                steps.append({'op': 'query', 'qs': [{'name': qname, 'type': qtype, 'sp': 0, 'qu': False}], 'qid': rng.randint(1, 65535), 'src': '10.0.0.23'})
            live.remove(sp)
            busy[sp['sid']] = max(busy[sp['sid']], t + 300)
            steps.append({'op': 'unreg', 'sid': sp['sid'], 'fresh': rng.random() < 0.35})
            continue
        if r < p_unreg + 0.06 and [x for x in live if busy[x['sid']] <= t]:
            i = live.index(rng.choice([x for x in live if busy[x['sid']] <= t]))
            sp = dict(live[i])
            busy[sp['sid']] = t + 500
            sp['port'] = rng.choice([80, 8080, 9999])
            same = rng.random() < 0.5
            if not same:
                sp['txt'] = rng.choice([b'\x03a=1', b'\x03a=2', b'']).hex()
            if rng.random() < 0.4:
                sp['other_ttl'] = rng.choice([4500, 120, 30])
                # a host's address records have one TTL: services sharing a host name keep the same host TTL (domain)
                if not any(x['host'] == sp['host'] for x in live if x['sid'] != sp['sid']):
                    sp['host_ttl'] = rng.choice([120, 120, 60])
            moved_from = None
            if not same and rng.random() < 0.3 and not any(x['host'] == sp['host'] for x in live if x['sid'] != sp['sid']):
                # the service moves to another host name (a new ServiceInfo object): the old host is nobody's any more
                moved_from = sp['host']
                sp['host'] = 'elm.local.' if sp['host'] != 'elm.local.' else 'oak.local.'
            live[i] = sp
            steps.append({'op': 'upd', 'svc': sp, 'same_object': same})
            if moved_from is not None:
                t += rng.choice([0, 600, 1500])
                steps.append({'op': 'at', 't': t})
                for qn, qt in [(moved_from, wire.T_A), (moved_from, wire.T_AAAA), (sp['host'], wire.T_A)]:
                    steps.append({'op': 'query', 'qs': [{'name': qn, 'type': qt, 'sp': rng.randint(0, 2), 'qu': False}], 'qid': rng.randint(1, 65535),
                                  'src': '10.0.0.9', 'port': rng.choice([40000, 5353])})
            continue
        if r < p_unreg + 0.10 and [s for s in svcs if s['sid'] not in [x['sid'] for x in live] and busy[s['sid']] <= t]:
            gone = [s for s in svcs if s['sid'] not in [x['sid'] for x in live] and busy[s['sid']] <= t]
            sp = dict(rng.choice(gone))
            same_host = [x for x in live if x['host'] == sp['host']]
            if same_host:
                sp['host_ttl'] = same_host[0]['host_ttl']       # one TTL per host name (domain, see the update step)
            busy[sp['sid']] = t + 500
            same = rng.random() < 0.5
            if same:
                sp['port'] = rng.choice([80, 8080, 9999])
                if rng.random() < 0.5:
                    sp['other_ttl'] = rng.choice([4500, 120, 30])
            live.append(sp)
            steps.append({'op': 'reg', 'svc': sp, 'coop': True, 'same_object': same})
            continue
        pool = live if live and rng.random() < 0.9 else svcs
        if live and rng.random() < 0.08:
            steps.append({'op': 'peek', 'sid': rng.choice(live)['sid'], 'ver': rng.choice(['v4', 'v6', 'all']), 'ttl': rng.choice([0, 0, 60])})
        q = gen_query(rng, pool, focus)
        p_tc = {'c12': 0.25}.get(focus, 0.05)
        if rng.random() < p_tc and 'auth' not in q:
            # a truncated train of 1..3 packets from one source: continuation packets carry known answers only
            # (RFC 6762 7.2), each record listed once in the whole train; optionally another query of the same
            # source arrives while the train is held, or a final non-TC continuation closes it
            src = q['src']
            used: set = set()

            def fresh_known(kn: List[dict]) -> List[dict]:
                outk = []
                for kk in kn:
                    key = json_key(kk['rec'])
                    if key not in used:
                        used.add(key)
                        outk.append(kk)
                return outk
            q['known'] = fresh_known(q.get('known', []))
            npk = rng.choice([1, 2, 3])
            for j in range(npk):
                if j == 0:
                    pk = dict(q)
                else:
                    pk = {'op': 'query', 'qs': [], 'qid': q['qid'], 'known': fresh_known(gen_known(rng, pool))}
                pk.pop('auth', None)
                pk['src'] = src
                pk['port'] = q.get('port', 5353)
                pk['tc'] = True
                if j > 0 and rng.random() < 0.3:
                    pk = dict(steps[-2])        # byte-identical continuation
                steps.append(pk)
                t += rng.choice([0, 50, 100, 300, 450])
                steps.append({'op': 'at', 't': t})
            r2 = rng.random()
            if r2 < 0.35:
                fin = {'op': 'query', 'qs': [], 'qid': q['qid'], 'known': fresh_known(gen_known(rng, pool)), 'src': src,
                       'port': q.get('port', 5353)}
                steps.append(fin)
            elif r2 < 0.5:
                fin = gen_query(rng, pool, focus)
                if rng.random() < 0.5:
                    fin.pop('auth', None)
                elif 'auth' not in fin and rng.random() < 0.5:
                    # the query that completes the held train is a probe: the whole train is answered as one (at once)
                    spp = rng.choice(pool)
                    fin['auth'] = [{'rec': rec_of(spp, 'ptr'), 'ttl': spp['other_ttl']}]
                fin['known'] = fresh_known(fin.get('known', []))
                fin['src'] = src
                fin['port'] = q.get('port', 5353)
                if rng.random() < 0.25:
                    # the other query comes from another port of the same address (a legacy resolver on the host whose mDNS
                    # responder sent the truncated query, or the other way round)
                    fin['port'] = 40000 if fin['port'] == 5353 else 5353
                    fin['otherport'] = True
                steps.append(fin)
            continue
        if focus == 'c16' or rng.random() < 0.03:
            q['copies'] = 2
        steps.append(q)
    if focus in ('c08', 'c17') and rng.random() < 0.5:
        t = max([t] + list(busy.values())) + rng.choice([0, 1, 20, 130, 300, 1100])
        steps += [{'op': 'at', 't': t}, {'op': 'close'}]
    t += 4000
    steps.append({'op': 'at', 't': t})
    if rng.random() < {'c11': 0.25, 'c12': 0.15, 'c03': 0.1}.get(focus, 0.0):
        # a faulty application: a record listener that raises (on datagrams that only refresh what is cached, such as the
        # loopback of the host's own answers): everything the responder does afterwards is judged as usual
        k = next((i for i, x in enumerate(steps) if x['op'] == 'at' and x['t'] >= 500), len(steps) - 1)
        steps.insert(k + 1, {'op': 'ladd', 'raise_every': rng.choice([1, 1, 2])})
    sc = {'id': sid, 'seed': rng.randint(0, 10 ** 9), 'steps': steps, 'layout': layout, 'v6src': layout == 'dual' and rng.random() < 0.6,
          'rand': rng.choice([None, None, None, 'lo', 'hi'])}
    if rng.random() < 0.25:
        # an off-link peer: unicast replies to it fail with ENETUNREACH (asyncio reports that to the protocol's error_received)
        sc['unreachable'] = ['192.168.1.77', 'fd00::77']
    return sc


def d22_scenarios(own: str) -> List[dict]:
    """Directed histories of finding D22 (an instance that listens on an IPv6 socket never recognises its own AAAA records in what
    it receives): one per symptom, judged by the check of the property it breaks."""
    sp = service_spec(0, 0, 0, 'dual')
    q = {'name': sp['host'], 'type': wire.T_AAAA, 'sp': 0}
    aaaa = rec_of(sp, 'a6')
    base = [{'op': 'at', 't': 0}, {'op': 'reg', 'svc': sp, 'coop': True}, {'op': 'at', 't': 5000}]
    out = []
    for v6src in (False, True):
        tag = 'v6' if v6src else 'v4'
        if own == 'C11':
            # a QU question for the AAAA record 4.5 s after it was announced (a quarter of its TTL is 30 s): unicast alone
            steps = base + [{'op': 'query', 'qs': [dict(q, qu=True)], 'qid': 0, 'src': '10.0.0.9'}, {'op': 'at', 't': 9000}]
        elif own == 'C03':
            # the querier already holds the record with more than half of its TTL: no answer
            steps = base + [{'op': 'query', 'qs': [dict(q, qu=False), {'name': sp['type'], 'type': wire.T_PTR, 'sp': 0, 'qu': False}],
                             'qid': 0, 'src': '10.0.0.9',
                             'known': [{'rec': aaaa, 'ttl': 100}, {'rec': rec_of(sp, 'ptr'), 'ttl': 4000}]}, {'op': 'at', 't': 9000}]
        else:
            # asked, answered at once, asked again 300 ms later: not multicast again before the second is over
            steps = base + [{'op': 'query', 'qs': [dict(q, qu=False)], 'qid': 0, 'src': '10.0.0.9'}, {'op': 'at', 't': 5300},
                            {'op': 'query', 'qs': [dict(q, qu=False)], 'qid': 1, 'src': '10.0.0.23'}, {'op': 'at', 't': 9000}]
        out.append({'id': '%s-d22-%s' % (own.lower(), tag), 'seed': 1, 'steps': steps, 'layout': 'dual', 'v6src': v6src, 'rand': None})
    return out


def gen_c09(rng: random.Random, sid: str, thorough: bool = False) -> dict:
    """Registration with probing: conflicting pointer records arrive at grid offsets around the three probe instants."""
    svcs = gen_services(rng)
    sp = svcs[0]
    if rng.random() < 0.2:
        sp = dict(sp, host=None)          # the host name defaults to the instance name
    if rng.random() < 0.2 and sp['type'] != TYPES[2]:
        # a service type that only the non-strict rules accept (underscore in the service name, or longer than 15 characters),
        # registered with strict=False: probing, conflicts and renaming work as for any other type
        lax_type = rng.choice(['_ibisip_http._tcp.local.', '_androidtvremote2._tcp.local.'])
        sp = dict(sp, type=lax_type, name=sp['name'][:-len(sp['type'])] + lax_type, strict=False)
    others = svcs[1:2]
    steps: List[dict] = []
    t = 0
    for o in others:
        steps += [{'op': 'at', 't': t}, {'op': 'reg', 'svc': o, 'coop': True}]
        t += 600
    if others and rng.random() < 0.3:
        # a second description under a name this instance already holds, cooperating_responders (no probing): refused by the
        # registry, and nothing of it may be announced
        o2 = dict(others[0], sid=6, port=8081, host='elm.local.', addrs='other4')
        steps += [{'op': 'at', 't': t + 100}, {'op': 'reg', 'svc': o2, 'coop': True, 'refused': True}]
        t += 700
    rename = rng.random() < 0.6
    t0 = t + rng.choice([1000, 2500, 9800, 12000])
    expired_case = rng.random() < 0.12
    if expired_case:
        # a conflicting pointer that has expired (PTR floor: 1125 s) but is not purged yet when registration starts
        t_inj = t + 5003
        t0 = t_inj + 1125000 + rng.choice([0, 1, 4000, 9000])
    grid = [-3000, -1, 0, 1, 100, 174, 175, 176, 300, 349, 350, 351, 400, 600]
    evs: List[Tuple[int, dict]] = []
    exact: List[int] = []
    r = t0
    nconf = rng.choice([0, 1, 1, 1, 2, 3])
    for k in range(nconf):
        x = rng.choice(grid)
        is_exact = rng.random() < 0.8
        ttl = rng.choice([4500, 120, 4500, 1])
        when = r + x
        if ttl == 1 and x < 0:
            when = r - rng.choice([1001, 2500, 9000])       # expired (perhaps unpurged) by the time it matters
        evs.append((max(0, when), {'op': 'conflict', 'svc': sp, 'k': k, 'exact': is_exact, 'ttl': ttl}))
        # (`exact` in the steps: the conflicting name is spelled as proposed, or with the case of its letters swapped -- the same
        # name either way; `exact` in the api event: the candidates that are taken)
        exact.append(k)
        detected = x <= 349 and not (ttl == 1 and x < 0) and ttl != 1
        if not (detected and rename):
            break
        r = max(r, when) if x >= 0 else r
    if expired_case:
        evs = [(t_inj, {'op': 'conflict', 'svc': sp, 'k': 0, 'exact': True, 'ttl': rng.choice([1, 120, 1125])})]
        exact = [0]
    elif rng.random() < 0.12:
        # the conflicting pointer was heard long ago: past half of its TTL (stale, no longer a known answer) but not expired
        # (PTR TTLs below 1125 s are raised to 1125 s in the cache)
        ttl_c = rng.choice([120, 1125, 4500])
        eff = max(ttl_c, 1125)
        age = rng.choice([500 * eff + 1, 600 * eff, 900 * eff, 1000 * eff - 2000])
        t0 = t + 5003 + age
        evs = [(t + 5003, {'op': 'conflict', 'svc': sp, 'k': 0, 'exact': True, 'ttl': ttl_c})]
        exact = [0]
    evs.append((t0, {'op': 'reg_bg', 'svc': sp, 'coop': False, 'rename': rename, 'exact': exact}))
    evs.sort(key=lambda p: (p[0], 0 if p[1]['op'] == 'conflict' and p[0] < t0 else 1))
    for (tt, st) in evs:
        steps += [{'op': 'at', 't': tt}, st]
    end = max(tt for tt, _ in evs) + 1500
    steps.append({'op': 'at', 't': end})
    # afterwards: ask for the instance under every candidate name and for the type
    inst, _, rest = sp['name'].partition('.')
    for k in range(0, 3):
        nm = sp['name'] if k == 0 else '%s-%d.%s' % (inst, k + 1, sp['type'])
        steps.append({'op': 'query', 'qs': [{'name': nm, 'type': wire.T_SRV, 'sp': 0, 'qu': False}], 'qid': 7, 'port': 40000,
                      'src': '10.0.0.9'})
    steps.append({'op': 'query', 'qs': [{'name': sp['type'], 'type': wire.T_PTR, 'sp': 0, 'qu': False}], 'qid': 8, 'port': 40001,
                  'src': '10.0.0.9'})
    end += 1500
    steps.append({'op': 'at', 't': end})
    if nconf == 0 and not expired_case and rng.random() < 0.5:
        # the application unregisters the service, somebody else takes the name, and the same ServiceInfo object is
        # registered again: it has to come up under the next free name with a complete record set of that name
        steps.append({'op': 'unreg', 'sid': sp['sid'], 'fresh': rng.random() < 0.35})
        end += 400
        new_name = rng.random() < 0.4 and sp['host'] is not None
        if new_name:
            # ... under another name, which is taken as well
            sp = dict(sp, name='Other Name.' + sp['name'].partition('.')[2])
        steps += [{'op': 'at', 't': end}, {'op': 'conflict', 'svc': sp, 'k': 0, 'exact': True, 'ttl': 4500}]
        end += rng.choice([700, 1100, 2000])
        steps += [{'op': 'at', 't': end}, {'op': 'reg_bg', 'svc': sp, 'coop': False, 'rename': True, 'exact': [0], 'new_name': new_name,
                                          # (an object whose host name was defaulted at its first registration keeps that name: with a
                                          #  defaulted host name the application registers a fresh description)
                                          'same_object': rng.random() < 0.7 and sp['host'] is not None}]
        end += 2500
        steps.append({'op': 'at', 't': end})
        for k in range(0, 2):
            nm = sp['name'] if k == 0 else '%s-%d.%s' % (inst, k + 1, sp['type'])
            steps.append({'op': 'query', 'qs': [{'name': nm, 'type': wire.T_SRV, 'sp': 0, 'qu': False}], 'qid': 17 + k, 'port': 40002,
                          'src': '10.0.0.9'})
        end += 1500
        steps.append({'op': 'at', 't': end})
    elif rng.random() < 0.35:
        # the same name again on the same instance
        sp2 = dict(sp)
        sp2['sid'] = sp['sid'] + 4
        steps.append({'op': 'reg_bg', 'svc': sp2, 'coop': rng.random() < 0.5, 'rename': rng.random() < 0.5, 'exact': [], 'again': True})
        end += 2500
        steps.append({'op': 'at', 't': end})
    return {'id': sid, 'seed': rng.randint(0, 10 ** 9), 'steps': steps, 'layout': rng.choice(['single', 'split']),
            'rand': rng.choice([None, 'lo', 'hi'])}


def hostless_update_scenarios(own: str) -> List[dict]:
    """A service registered without a host name (the instance name serves as host name) is updated with a new description that has
    none either: answered with the new port / text afterwards, and still there."""
    out = []
    for k in range(4):
        sp = service_spec(0, [0, 1, 3, 0][k], 0, ['v4', 'dual', 'v4', 'two4'][k], port=80, txt=b'\x03a=1')
        sp['host'] = None
        sp2 = dict(sp, port=8080, txt=(b'\x03a=2').hex())
        qs = lambda t: [{'op': 'at', 't': t},         # noqa: E731
                        {'op': 'query', 'qs': [{'name': sp['name'], 'type': wire.T_SRV, 'sp': 0, 'qu': False}], 'qid': 1, 'src': '10.0.0.9', 'port': 40000},
                        {'op': 'at', 't': t + 1500},
                        {'op': 'query', 'qs': [{'name': sp['name'], 'type': wire.T_A, 'sp': 1, 'qu': False}, {'name': sp['type'], 'type': wire.T_PTR, 'sp': 0, 'qu': False}],
                         'qid': 2, 'src': '10.0.0.23', 'port': 40001}]
        steps = [{'op': 'at', 't': 0}, {'op': 'reg', 'svc': sp, 'coop': True}] + qs(3000) + \
                [{'op': 'at', 't': 8000}, {'op': 'upd', 'svc': sp2, 'same_object': k == 3}] + qs(11000) + \
                [{'op': 'at', 't': 16000}, {'op': 'unreg', 'sid': 0, 'fresh': False}, {'op': 'at', 't': 18000}] + qs(19000) + [{'op': 'at', 't': 23000}]
        out.append({'id': '%s-hostless-%d' % (own.lower(), k), 'seed': 1, 'steps': steps, 'layout': 'single', 'rand': None})
    return out


def gen_c17_early(rng: random.Random, sid: str) -> dict:
    """Closed while still starting; afterwards datagrams arrive for every socket the instance would have had."""
    layout = rng.choice(['single', 'split', 'dual'])
    steps: List[dict] = [{'op': 'at', 't': 0}]
    t = 0
    for k in range(rng.choice([2, 4])):
        t += rng.choice([0, 1, 500, 1100, 20000])
        steps.append({'op': 'at', 't': t})
        data = wire.build(flags=0x8400, answers=[('_http._tcp.local.', wire.T_PTR, 1, 4500, 'Late %d._http._tcp.local.' % k)])
        # (sent to the socket whatever the instance says about itself: a closed socket receives nothing)
        steps.append({'op': 'raw', 'data': data.hex(), 'src': '10.0.0.9', 'sock': k % {'single': 1, 'split': 2, 'dual': 3}[layout], 'force': True})
    steps += [{'op': 'at', 't': t + 15000}, {'op': 'close'}, {'op': 'at', 't': t + 16000}]
    return {'id': sid, 'seed': rng.randint(0, 10 ** 9), 'steps': steps, 'layout': layout, 'early_close': rng.choice([0, 0, 1, 2, 3, 5])}


def gen_c17(rng: random.Random, sid: str, thorough: bool = False) -> dict:
    """Mixed activity, then close at an arbitrary instant, hours of virtual time with more traffic, and close again."""
    sc = gen_resp(rng, sid, rng.choice(['c12', 'c11', 'c08']), thorough)
    steps = [s for s in sc['steps'] if s['op'] != 'close']
    # drop the trailing "at" and pick the close instant somewhere in the active part
    times = [s['t'] for s in steps if s['op'] == 'at']
    svc0 = next(s['svc'] for s in steps if s['op'] == 'reg')
    t_end = times[-1]
    t_lo = min(t for t in times if t >= 600) if any(t >= 600 for t in times) else 600
    t_close = rng.choice([rng.randint(t_lo, max(t_lo + 1, t_end - 3500)),
                          rng.choice([t for t in times if t >= t_lo] or [t_lo]) + rng.choice([0, 1, 10, 60, 130, 300, 600, 1100]),
                          # exactly when the periodic cache purge is due (every 10 s from the start of the instance)
                          10000 * rng.randint(max(1, (t_lo + 9999) // 10000), max(1, (t_lo + 9999) // 10000, t_end // 10000))])
    busy = None
    if t_close % 10000 == 0 and rng.random() < 0.7:
        # the periodic purge falls due while the loop is busy in the very iteration that wakes the close sequence after its
        # last goodbye (250 ms after the request): the step into the engine's close and the purge run in one iteration
        delta = rng.choice([1, 2, 3])
        t_close = t_close - 250 - delta
        busy = (max(0, t_close - 1), {'op': 'busy_at', 'when': t_close + 250, 'ms': rng.choice([delta, 3, 5])})
    extra: List[Tuple[int, dict]] = []
    if busy:
        extra.append(busy)
    tb = rng.randint(500, max(501, t_close))
    extra.append((tb, {'op': 'bstart', 'types': [svc0['type'], '_other._tcp.local.'], 'delay': rng.choice([1000, 10000])}))
    extra.append((tb, {'op': 'ladd', 'raise_every': rng.choice([0, 0, 0, 1, 2])}))
    for _ in range(rng.choice([0, 1, 2])):
        tl = max(0, t_close - rng.choice([1, 150, 900, 2500, 5000]))
        extra.append((tl, {'op': 'lookup', 'type': '_http._tcp.local.', 'name': rng.choice(['Remote._http._tcp.local.', svc0['name']]),
                           'timeout': rng.choice([200, 3000, 10000])}))
    if rng.random() < 0.5:
        # a registration with probing in flight when the instance closes
        sp = service_spec(3, 0, 2, 'v4')
        extra.append((max(0, t_close - rng.choice([1, 100, 200, 340, 360, 600, 790])), {'op': 'reg_bg', 'svc': sp, 'coop': False,
                                                                                       'rename': True, 'exact': []}))
    merged: List[Tuple[int, int, dict]] = []
    t = 0
    k = 0
    # (the domain: no API call on a service while its own announcement sequence is still running -- a withdrawal of everything
    # while the registration that was slipped in above is still probing or announcing would be one)
    slipped = [tt for tt, st in extra if st['op'] == 'reg_bg']
    for s in steps:
        if s['op'] == 'at':
            t = s['t']
            continue
        if t > t_close:
            continue
        if s['op'] == 'unreg_all' and any(tt <= t <= tt + 350 + 450 + 50 for tt in slipped):
            continue
        merged.append((t, k, s))
        k += 1
    for (tt, s) in extra:
        merged.append((tt, k, s))
        k += 1
    if rng.random() < 0.12:
        # the application gives close a deadline that runs out half way (the goodbyes take 250 ms), and closes again later
        merged.append((t_close, k + 1000, {'op': 'close', 'deadline_ms': rng.choice([1, 60, 124, 126, 200, 249])}))
        merged.append((t_close + rng.choice([250, 300, 1000, 20000]), k + 1001, {'op': 'close'}))
    else:
        merged.append((t_close, k + 1000, {'op': 'close', 'cancel_bg': rng.random() < 0.5}))
    # traffic after the close request: immediately (during the goodbyes), shortly after, and hours later
    post = []
    svcs = [s['svc'] for s in steps if s['op'] == 'reg']
    for dt in (0, 1, 130, 260, 400, 1500, 9000, 3600 * 1000, 4 * 3600 * 1000 - 5):
        if rng.random() < 0.6:
            q = gen_query(rng, svcs, 'c12')
            post.append((t_close + dt, k + 2000 + len(post), q))
        if rng.random() < 0.3:
            post.append((t_close + dt, k + 2000 + len(post), {'op': 'resp', 'recs': [
                {'rec': [svc0['type'], wire.T_PTR, 1, 'Remote.' + svc0['type']], 'ttl': rng.choice([4500, 0, 1125])}]}))
    merged += post
    merged.append((t_close + 4 * 3600 * 1000, k + 5000, {'op': 'close'}))
    merged.sort(key=lambda x: (x[0], x[1]))
    out: List[dict] = []
    for (tt, _, s) in merged:
        out += [{'op': 'at', 't': tt}, s]
    out.append({'op': 'at', 't': t_close + 4 * 3600 * 1000 + 1000})
    sc['steps'] = out
    return sc
