"""C03 -- responder family check (see spec/Trace_Responder.tla, clauses C03_*)."""
from __future__ import annotations

from props.resp_run import run_family
from vf.core import Ctx


def run(ctx: Ctx) -> None:
    # the lifetime predicates the contracts rest on, at every boundary (spec/Ttl.tla, Oracle_Ttl.tla)
    from props import ttloracle
    ttloracle.run(ctx, 'C03')
    from props.respfam import d22_scenarios
    from props import routemodel
    routemodel.run(ctx, 'C03')
    from props.respfam import hostless_update_scenarios
    run_family(ctx, 'C03', 'c03', 400, 12000, d22_scenarios('C03') + hostless_update_scenarios('C03'))
    # the registry on its own: Registry.tla explored by TLC, its histories performed on a real ServiceRegistry, the lookups
    # judged by TLC against RegistryContract.tla (clauses C03_Registry*)
    from props import registrymodel
    registrymodel.run(ctx, 'C03')
    # the memoised records of a description: Info.tla explored by TLC, its histories performed on a real ServiceInfo
    from props import infomodel
    infomodel.run(ctx, 'C03')


def replay(ctx: Ctx, path: str) -> None:
    import json
    rep = json.load(open(path))['replay']
    if 'info_history' in rep:
        from props import infomodel
        infomodel.run(ctx, 'C03', [dict(rep['info_history'], id='info-replay')])
        return
    if 'registry_history' in rep:
        from props import registrymodel
        registrymodel.run(ctx, 'C03', [dict(rep['registry_history'], id='registry-replay')])
        return
    if 'route_case' in rep:
        from props import routemodel
        routemodel.run(ctx, 'C03', [dict(rep['route_case'], id='route-replay')])
        return
    sc = rep['scenario']
    run_family(ctx, 'C03', 'c03', 0, 0, [sc])
