"""C03 -- responder family check (see spec/Trace_Responder.tla, clauses C03_*)."""
from __future__ import annotations

from props.resp_run import run_family
from vf.core import Ctx


def run(ctx: Ctx) -> None:
    from props.respfam import d22_scenarios
    run_family(ctx, 'C03', 'c03', 400, 12000, d22_scenarios('C03'))


def replay(ctx: Ctx, path: str) -> None:
    import json
    sc = json.load(open(path))['replay']['scenario']
    run_family(ctx, 'C03', 'c03', 0, 0, [sc])
