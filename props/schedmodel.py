"""Bindings 1 and 2 for the query scheduler (C10):

 1. TLC explores the implementation-shaped model spec/Sched.tla exhaustively against the C10 contract (RefreshDue,
    MinSpacing, Justified, TimerAlive); the configuration that re-creates defect D7 must fail (vacuity guard).
 2. Behaviours of that model -- every environment history of a small configuration (exhaustive) and random walks of a
    larger one (tlc -simulate) -- are turned into scenarios for the real library: the environment events are replayed in the
    virtual-time simulator and the instants at which the real browser sends refresh queries are compared with the instants
    the model predicts.  A difference is *model drift* (the exhaustively checked model is not the design the code
    implements any more); it is reported in the evidence and by a MODEL-DRIFT line, it is not a violation: the verdict on
    every replayed execution is Trace_Querier's, like for every other scenario.
"""
from __future__ import annotations

import re
from typing import Any, Dict, List, Tuple

from props import querierfam as qf
from vf import tlc
from vf.core import Ctx, Machinery

ALIAS_ID = {'a1': 1, 'a2': 2, 'a3': 3}
START = 14020           # bstart at 0, first delay 20 ms ('lo'), then 1 s, 4 s, 9 s
HORIZON = 6000000


def _balanced(out: str, start: int) -> str:
    depth = 0
    i = start
    while i < len(out):
        if out.startswith('<<', i):
            depth += 1
            i += 2
        elif out.startswith('>>', i):
            depth -= 1
            i += 2
            if depth == 0:
                return out[start:i]
        else:
            i += 1
    raise Machinery('unbalanced BEHAVIOUR value in TLC output')


def parse_behaviours(out: str) -> List[Tuple[tuple, tuple]]:
    res = set()
    for m in re.finditer(r'<<\s*"BEHAVIOUR",', out):
        val = tlc._tla_to_py(' '.join(_balanced(out, m.start()).split()))
        if not isinstance(val, list) or len(val) != 3:
            raise Machinery('cannot parse BEHAVIOUR value: %r' % (val,))
        hist = tuple((h['t'], h['a'], h['ttl']) for h in val[1])
        res.add((hist, tuple(val[2])))
    return sorted(res)


def exhaustive_behaviours(cfg: str) -> Tuple[List[Tuple[tuple, tuple]], Dict[str, Any]]:
    r = tlc.model_check('Sched', cfg, workers=1, coverage=False, timeout=1800)
    if not r['ok']:
        raise Machinery('Sched/%s: TLC reports %s' % (cfg, r['violated']))
    return parse_behaviours(r['out']), r


def simulated_behaviours(cfg: str, num: int, seed: int) -> List[Tuple[tuple, tuple]]:
    res = set()
    for beh in tlc.simulate('Sched', cfg, num=num, depth=400, seed=seed, timeout=1800):
        if not beh:
            continue
        st = beh[-1]['state']
        if st.get('bad') not in ('', None):
            raise Machinery('Sched simulation reached bad=%r' % st.get('bad'))
        hist = tuple((h['t'], h['a'], h['ttl']) for h in (st.get('hist') or []))
        res.add((hist, tuple(st.get('qlog') or []), st.get('now')))
    return sorted(res)


def to_scenario(sid: str, hist: tuple, delay: int, end: int) -> dict:
    steps: List[dict] = [{'op': 'at', 't': 0}, {'op': 'bstart', 'types': [qf.T1], 'delay': delay, 'forced': 'none'}]
    for (t, a, ttl) in hist:
        steps += [{'op': 'at', 't': t}, {'op': 'recv', 'items': [{'id': ALIAS_ID[a], 'ttl': ttl, 'sp': 0}]}]
    steps.append({'op': 'at', 't': end})
    return {'id': sid, 'n1': 3, 'n2': 0, 'seed': 1, 'steps': steps, 'rand': 'lo', 'model': True}


def check_models(ctx: Ctx) -> Dict[str, Any]:
    """Binding 1: exhaustive TLC runs."""
    cfg = 'MC_Sched_big' if ctx.thorough else 'MC_Sched'
    r = tlc.model_check('Sched', cfg, workers=16, timeout=2400)
    if not r['ok']:
        # the model is independent of the repository: a failure here is a defect of the model, not of the code
        raise Machinery('Sched/%s: TLC reports %s violated' % (cfg, r['violated']))
    d = tlc.model_check('Sched', 'MC_Sched_defect', workers=16, timeout=600, coverage=False)
    if d['ok'] or d['violated'] != 'RefreshDue':
        raise Machinery('Sched/MC_Sched_defect must violate RefreshDue (re-creation of D7), got ok=%s violated=%s' % (d['ok'], d['violated']))
    need = {'Fire', 'Purge', 'Receive', 'Skip', 'Tick'}
    never = sorted(a for a in need if r['actions'].get(a, 0) == 0)
    if never:
        raise Machinery('Sched/%s: actions never taken: %s' % (cfg, never))
    return {'model': 'Sched/' + cfg, 'model_states': r['states'], 'model_distinct': r['distinct'], 'model_depth': r['depth'],
            'model_actions': r['actions'], 'defect_config_violates': d['violated']}


def model_scenarios(ctx: Ctx) -> Tuple[List[dict], Dict[str, Any]]:
    """Binding 2: behaviours -> scenarios (+ the predicted query instants per scenario id)."""
    predicted: Dict[str, Any] = {}
    scs: List[dict] = []
    ex, _ = exhaustive_behaviours('MC_Sched_replay_big' if ctx.thorough else 'MC_Sched_replay')
    by_hist: Dict[tuple, List[tuple]] = {}
    for hist, qlog in ex:
        by_hist.setdefault(hist, []).append(qlog)
    for k, (hist, qlogs) in enumerate(sorted(by_hist.items())):
        sid = 'c10-model-x%d' % k
        scs.append(to_scenario(sid, hist, 10000, HORIZON))
        predicted[sid] = {'qlogs': [list(q) for q in qlogs], 'upto': HORIZON}
    sim = simulated_behaviours('Sim_Sched', ctx.pick(150, 2500), ctx.seed + 11)
    by_hist2: Dict[tuple, List[tuple]] = {}
    for hist, qlog, now in sim:
        by_hist2.setdefault(hist, []).append((qlog, now))
    for k, (hist, lst) in enumerate(sorted(by_hist2.items())):
        sid = 'c10-model-s%d' % k
        # a random walk may stop before the horizon: the prediction is complete only up to the instant it reached
        upto = min(now for _, now in lst)
        scs.append(to_scenario(sid, hist, 10000, min(HORIZON, upto + 1)))
        predicted[sid] = {'qlogs': [[q for q in ql if q < upto] for ql, _ in lst], 'upto': upto}
    return scs, predicted


def drift(traces: List[dict], predicted: Dict[str, Any]) -> List[dict]:
    out = []
    for tr in traces:
        p = predicted.get(tr['id'])
        if p is None:
            continue
        real = [int(e['t']) for e in tr['events'] if e['ev'] == 'query' and e['t'] > START and e['t'] < p['upto']]
        if real not in p['qlogs']:
            out.append({'scenario': tr['id'], 'real': real[:12], 'model': p['qlogs'][0][:12]})
    return out
