"""Bindings 1 and 2 for the responder's routing decision (C03, C11, C12): spec/Route.tla -- QueryHandler.async_response with
its answer strategies and the four answer sets -- is explored over every query of a small universe against the declarative
contract (Asked / Routes / AddsOwn; two slips must violate Routes), every explored case (a sample of the larger
configurations) is handed to the real QueryHandler.async_response, and TLC judges what the code returned against the same
contract (spec/Trace_Route.tla) and tells whether it is also what the model computed (drift)."""
from __future__ import annotations

import re
import socket
from typing import Any, Dict, List, Tuple

from vf import tlc, wire
from vf.core import Ctx, Machinery

T = '_http._tcp.local.'
I = 'Alpha._http._tcp.local.'
H = 'ash.local.'
E = '_services._dns-sd._udp.local.'
X = '_nosuch._tcp.local.'
NAME = {'T': T, 'I': I, 'H': H, 'E': E, 'X': X}
TYPE = {'PTR': 12, 'SRV': 33, 'TXT': 16, 'A': 1, 'AAAA': 28, 'ANY': 255}
NOW = 5000000.0
AGE_MS = {'lastsec': (500, 500), 'quarter': (10000, 10000), 'old': (40000, 2000000)}      # (TTL 120 records, TTL 4500 records)


def check_models(ctx: Ctx) -> Dict[str, Any]:
    cfgs = ['MC_Route_quick', 'MC_Route_two_quick'] + (['MC_Route', 'MC_Route_two'] if ctx.thorough else [])
    info: Dict[str, Any] = {'model': 'Route', 'model_states': 0, 'model_distinct': 0, 'configs': cfgs}
    for cfg in cfgs:
        r = tlc.model_check('Route', cfg, workers=16, timeout=1800, coverage=(cfg == 'MC_Route_quick'))
        if not r['ok']:
            raise Machinery('Route/%s: TLC reports %s violated' % (cfg, r['violated']))
        info['model_states'] += r['states']
        info['model_distinct'] += r['distinct']
    viol = {}
    for cfg in ('MC_Route_quarter_defect', 'MC_Route_lastsec_defect'):
        d = tlc.model_check('Route', cfg, workers=16, timeout=600, coverage=False)
        if d['ok'] or d['violated'] != 'Routes':
            raise Machinery('Route/%s must violate Routes, got ok=%s violated=%s' % (cfg, d['ok'], d['violated']))
        viol[cfg] = d['violated']
    info['defect_configs_violate'] = viol
    return info


def cases_from_model(ctx: Ctx) -> List[dict]:
    # quick: every single-question case of the small universe and every 23rd two-question case; thorough: in addition every
    # 23rd case of the two large configurations
    runs = [('Route', 'MC_Route_quick_replay'), ('MC_Route', 'MC_Route_two_quick_replay')] + (
        [('MC_Route', 'MC_Route_replay'), ('MC_Route', 'MC_Route_two_replay')] if ctx.thorough else [])
    res: List[dict] = []
    seen = set()
    for module, cfg in runs:
        r = tlc.model_check(module, cfg, workers=1, coverage=False, timeout=3000)
        if not r['ok']:
            raise Machinery('%s/%s: TLC reports %s' % (module, cfg, r['violated']))
        out = r['out']
        for m in re.finditer(r'<<\s*"BEHAVIOUR",', out):
            val = tlc._tla_to_py(' '.join(tlc.balanced(out, m.start()).split()))
            if not isinstance(val, list) or len(val) != 8:
                raise Machinery('cannot parse BEHAVIOUR value: %r' % (val,))
            key = repr(val[1:6] + [val[7]])
            if key in seen:
                continue
            seen.add(key)
            res.append({'q': val[1], 'ucastSrc': val[2], 'probe': val[3], 'known': sorted(val[4] or []), 'rec': val[5], 'model_out': val[6], 'first': val[7]})
    for k, c in enumerate(res):
        c['id'] = 'route-%d' % k
    return res


class _Env:
    """The pieces of an instance QueryHandler looks at (no sockets, no loop): registry with the one service, cache, history."""

    def __init__(self) -> None:
        from zeroconf import DNSPointer, ServiceInfo
        from zeroconf._cache import DNSCache
        from zeroconf._handlers.query_handler import QueryHandler
        from zeroconf._history import QuestionHistory
        from zeroconf._services.registry import ServiceRegistry
        self.info = ServiceInfo(T, I, 80, properties=b'\x03a=1', server=H, addresses=[socket.inet_aton('10.0.0.1')])
        self.registry = ServiceRegistry()
        self.registry.async_add(self.info)
        self.cache = DNSCache()
        self.question_history = QuestionHistory()
        self.out_queue = None
        self.out_delay_queue = None
        self.qh = QueryHandler(self)            # type: ignore[arg-type]
        self.DNSPointer = DNSPointer

    def own(self, r: str, created: float) -> Any:
        """A copy of one of the service's records as the cache would hold it (created = when it was last seen multicast)."""
        from zeroconf import DNSAddress, DNSNsec, DNSPointer, DNSService, DNSText
        i = self.info
        if r == 'ptr':
            o = i.dns_pointer()
            return DNSPointer(o.name, o.type, o.class_ | (0x8000 if o.unique else 0), o.ttl, o.alias, created)
        if r == 'srv':
            o = i.dns_service()
            return DNSService(o.name, o.type, o.class_ | (0x8000 if o.unique else 0), o.ttl, o.priority, o.weight, o.port, o.server, created)
        if r == 'txt':
            o = i.dns_text()
            return DNSText(o.name, o.type, o.class_ | (0x8000 if o.unique else 0), o.ttl, o.text, created)
        if r == 'a':
            o = i.dns_addresses()[0]
            return DNSAddress(o.name, o.type, o.class_ | (0x8000 if o.unique else 0), o.ttl, o.address, created=created)
        if r == 'nsec':
            o = i.dns_nsec([28])
            return DNSNsec(o.name, o.type, o.class_ | (0x8000 if o.unique else 0), o.ttl, o.next_name, list(o.rdtypes), created)
        return self.DNSPointer(E, 12, 1, 4500, T, created)

    def name_of(self, rec: Any) -> str:
        for r in ('ptr', 'srv', 'txt', 'a', 'nsec', 'enum'):
            if rec == self.own(r, 0.0) and rec.type == self.own(r, 0.0).type:
                return r
        return '?%s/%s' % (rec.name, rec.type)


def run_case(env: _Env, c: dict) -> dict:
    from zeroconf._cache import DNSCache
    from zeroconf._protocol.incoming import DNSIncoming
    env.cache = DNSCache()
    env.qh.cache = env.cache
    for r, age in c['rec'].items():
        if age != 'none':
            short = r in ('srv', 'a', 'nsec')
            env.cache.async_add_records([env.own(r, NOW - AGE_MS[age][0 if short else 1])])
    qs = [(NAME[x['n']], TYPE[x['t']], 1 | (0x8000 if x['qu'] else 0)) for x in c['q']]
    full = {'ptr': (T, 12, 1, 4500, I), 'srv': (I, 33, 1, 120, (0, 0, 80, H)), 'txt': (I, 16, 1, 4500, b'\x03a=1'),
            'a': (H, 1, 1, 120, socket.inet_aton('10.0.0.1')), 'enum': (E, 12, 1, 4500, T)}
    ans = [full[k] for k in c['known']]
    auth = [full['ptr']] if c['probe'] else []
    first = c.get('first', len(qs))
    if first >= len(qs):
        data = wire.build(id_=0, flags=0, questions=qs, answers=ans, authorities=auth)
        msgs = [DNSIncoming(data, now=NOW)]
    else:
        # a truncated query in two packets: the first `first` questions (and the known answers) in the packet with the TC flag, the
        # other questions (and the authority section of a probe) in the packet that completes it
        # (the known answers travel with the authority section when there is one: what a probe lists as answers is not a known answer)
        d1 = wire.build(id_=0, flags=0x0200, questions=qs[:first], answers=[] if auth else ans)
        d2 = wire.build(id_=0, flags=0, questions=qs[first:], answers=ans if auth else [], authorities=auth)
        msgs = [DNSIncoming(d1, now=NOW), DNSIncoming(d2, now=NOW)]
    out: Dict[str, Any] = {'u': [], 'now': [], 'agg': [], 'last': [], 'adds': {r: [] for r in ('ptr', 'srv', 'txt', 'a', 'nsec', 'enum')}}
    try:
        res = env.qh.async_response(msgs, bool(c['ucastSrc']))
    except Exception as ex:  # noqa: BLE001
        # the handler raised: nothing is routed (every record it owed is missing), and the exception is part of the report
        res = None
        out['exc'] = '%s: %s' % (type(ex).__name__, str(ex)[:80])
    if res is not None:
        for key, d in (('u', res.ucast), ('now', res.mcast_now), ('agg', res.mcast_aggregate), ('last', res.mcast_aggregate_last_second)):
            for rec, adds in d.items():
                nm = env.name_of(rec)
                out[key].append(nm)
                out['adds'].setdefault(nm, [])
                out['adds'][nm] = sorted(set(out['adds'][nm]) | {env.name_of(a) for a in adds})
            out[key].sort()
    return {'id': c['id'], 'q': c['q'], 'ucastSrc': bool(c['ucastSrc']), 'probe': bool(c['probe']), 'known': c['known'],
            'rec': c['rec'], 'out': out, 'first': c.get('first', len(c['q']))}


def run(ctx: Ctx, own: str, only: Any = None) -> None:
    """Explore the model, replay its cases into the real handler, let TLC judge; reports own-clause violations."""
    if only is not None:
        info: Dict[str, Any] = {'model': 'Route', 'model_states': 0, 'model_distinct': 0}
        cases = list(only)
    else:
        info = check_models(ctx) if own == 'C11' else {'model': 'Route', 'model_states': 0, 'model_distinct': 0}
        cases = cases_from_model(ctx)
    import contextlib
    import sys
    # (inside a check process the virtual-time harness has replaced the library's clock: it stands still for these direct calls)
    clock = sys.modules['vf.simnet'].fixed_clock(NOW) if 'vf.simnet' in sys.modules else contextlib.nullcontext()
    with clock:
        env = _Env()
        real = [run_case(env, c) for c in cases]
    unknown = 0
    for rc in real:
        if any(x.startswith('?') for k in ('u', 'now', 'agg', 'last') for x in rc['out'][k]):
            unknown += 1
            for k in ('u', 'now', 'agg', 'last'):
                rc['out'][k] = [x if not x.startswith('?') else 'enum' for x in rc['out'][k]]      # judged as a wrong record anyway
        rc['out']['adds'] = {k: [a for a in v if not a.startswith('?')] for k, v in rc['out']['adds'].items() if not k.startswith('?')}
    by_id = {c['id']: c for c in real}
    drift = 0
    judged = 0
    batches = [real[k:k + 20000] for k in range(0, len(real), 20000)]
    for b in batches:
        r = tlc.run_oracle('Trace_Route', 'Trace_Route', {'own': own, 'cases': b}, 'route', timeout=3000)
        for inf in r['infos']:
            if len(inf) >= 5 and inf[1] == 'cases':
                judged += inf[2]
                drift += inf[4]
        for v in r['verdicts']:
            cid, clause = v[1], v[3]
            c = by_id[cid]
            what = '%s: QueryHandler.async_response on %s (legacy source: %s, probe: %s, known: %s, last multicast: %s) returned %s' % (
                clause, c['q'], c['ucastSrc'], c['probe'], c['known'], c['rec'], {k: c['out'][k] for k in ('u', 'now', 'agg', 'last')})
            if c['out'].get('exc'):
                what += ' -- it raised %s' % c['out']['exc']
            ctx.report('%s/route-model-case' % clause, what, {'route_case': {k: c[k] for k in ('q', 'ucastSrc', 'probe', 'known', 'rec', 'first')}})
    if judged != len(real):
        raise Machinery('Trace_Route judged %d of %d cases' % (judged, len(real)))
    if drift:
        print('MODEL-DRIFT Route: %d of %d cases: the real handler returned something else than the model' % (drift, len(real)))
    ctx.log('Route model: %d distinct states; %d cases replayed into the real QueryHandler.async_response, drift: %d'
            % (info.get('model_distinct', 0), len(real), drift))
    info.update({'cases_replayed': len(real), 'drift': drift, 'unknown_records_returned': unknown})
    ctx.coverage['route_model'] = info
    ctx.coverage['states'] = ctx.coverage.get('states', 0) + info.get('model_distinct', 0) + 2 * len(real)
    ctx.coverage['transitions'] = ctx.coverage.get('transitions', 0) + info.get('model_states', 0) + len(real)
