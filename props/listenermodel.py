"""Bindings 1-3 for the datagram front end of a socket (duplicate guard, response / query split, reassembly of truncated query
trains; zeroconf/_listener.py): spec/Listener.tla is explored exhaustively by TLC against the contract ListenerContract.tla
(the configurations without the cancellation of the previous hold timer and without the train's own duplicate check must
violate it; under weak fairness every held train is eventually answered), its behaviours -- every history of a small
configuration and random walks over a larger one -- are delivered to the listen socket of a real instance, and what the real
AsyncListener hands on to the query handler and the record manager is
  * judged by TLC against the same contract (Trace_Listener.tla): a rejection is a VIOLATION of the clause's property, and
  * compared with what the model predicts (MODEL-DRIFT, evidence only).
The same histories, with answerable questions, are also handed to the responder family as ordinary scenarios (full stack,
judged by Trace_Responder.tla)."""
from __future__ import annotations

import asyncio
import re
from typing import Any, Dict, List, Tuple

from props import schedmodel as sm
from vf import tlc, wire
from vf.core import Ctx, Machinery

ADDR = {'a1': '10.0.0.9', 'a2': '10.0.0.23'}
TYPE = '_http._tcp.local.'
KINDS = {'qm': ['q', False, False], 'qm2': ['q', False, False], 'qu': ['q', False, True], 't1': ['q', True, False],
         't2': ['q', True, False], 'tq': ['q', True, True], 'rs': ['r', False, False], 'xx': ['x', False, False]}
CLAUSE_PROP = {'C16': 'C16', 'C12': 'C12', 'C15': 'C15', 'C06': 'C06'}


def datagrams() -> Dict[str, bytes]:
    known1 = [(TYPE, wire.T_PTR, 1, 4000, 'One.' + TYPE)]
    known2 = [(TYPE, wire.T_PTR, 1, 4000, 'Two.' + TYPE)]
    q = [(TYPE, wire.T_PTR, 1)]
    return {
        'qm': wire.build(id_=0, flags=0, questions=q),
        'qm2': wire.build(id_=0, flags=0, questions=[('_ipp._tcp.local.', wire.T_PTR, 1)]),
        'qu': wire.build(id_=0, flags=0, questions=[(TYPE, wire.T_PTR, 1 | 0x8000)]),
        't1': wire.build(id_=0, flags=0x0200, questions=q, answers=known1),
        't2': wire.build(id_=0, flags=0x0200, questions=[], answers=known2),
        'tq': wire.build(id_=0, flags=0x0200, questions=[(TYPE, wire.T_PTR, 1 | 0x8000)], answers=known1),
        'rs': wire.build(flags=0x8400, answers=[('_other._tcp.local.', wire.T_PTR, 1, 4500, 'X._other._tcp.local.')]),
        'xx': b'\x00\x00\x00\x00\x00\x01\x00\x00\x00\x00\x00\x00\x05abc',
    }


class ListenerRecorder:
    """One history delivered to the listen socket of a real instance; the two hand-over points of the listener are replaced by
    recorders (nothing is answered, so nothing is looped back: the listener sees exactly the history)."""

    def __init__(self, sc: dict) -> None:
        self.sc = sc
        self.events: List[dict] = []

    def run(self) -> dict:
        from vf import simnet
        from zeroconf import ServiceInfo
        from zeroconf._handlers.query_handler import QueryHandler
        from zeroconf._handlers.record_manager import RecordManager
        import socket
        sc = self.sc
        dg = datagrams()
        by_bytes = {v: k for k, v in dg.items()}
        draws = {'%d:0' % h[0]: h[3] for h in sc['hist'] if h[3]}
        net = simnet.Net(seed=1, rand={'tc': draws, '*': 'lo'}, record_bytes=False)
        ev = self.events
        rev = {v: k for k, v in ADDR.items()}
        state = {'on': False}
        orig_q = QueryHandler.handle_assembled_query
        orig_u = RecordManager.async_updates_from_response

        def rec_call(qh: Any, packets: Any, addr: Any, port: Any, transport: Any, v6: Any) -> None:
            if not state['on']:
                return orig_q(qh, packets, addr, port, transport, v6)
            ev.append({'ev': 'call', 't': net.now(), 'a': rev.get(addr, str(addr)), 'pk': [by_bytes.get(bytes(m.data), '?') for m in packets]})

        def rec_up(rm: Any, msg: Any) -> None:
            if not state['on']:
                return orig_u(rm, msg)
            ev.append({'ev': 'up', 't': net.now(), 'd': by_bytes.get(bytes(msg.data), '?')})

        async def main() -> None:
            host = await net.add_host('h', '10.0.0.1', layout=sc.get('layout', 'single'))
            info = ServiceInfo(TYPE, 'One.' + TYPE, 80, properties=b'', server='one.local.', addresses=[socket.inet_aton('10.0.0.1')])
            await host.aiozc.async_register_service(info, cooperating_responders=True)
            await net.sleep_until(1500)
            state['on'] = True
            for t, d, a, j, rep in sc['hist']:
                await net.sleep_until(t)
                ev.append({'ev': 'rx', 't': net.now(), 'd': d, 'a': a})
                host.inject(dg[d], src=ADDR[a])
            await net.sleep_until(sc['end'])
            ev.append({'ev': 'end', 't': net.now()})
            state['on'] = False
            await simnet.quiet(host.aiozc.async_close())
        QueryHandler.handle_assembled_query = rec_call       # type: ignore[method-assign]
        RecordManager.async_updates_from_response = rec_up   # type: ignore[method-assign]
        try:
            net.run(main(), limit_ms=60000)
        finally:
            QueryHandler.handle_assembled_query = orig_q     # type: ignore[method-assign]
            RecordManager.async_updates_from_response = orig_u   # type: ignore[method-assign]
        # exceptions that left datagram_received or a timer callback, in time order
        excs = [{'ev': 'exc', 't': e['t'], 'what': str(e.get('cls')), 'seq': e['seq']} for e in net.log if e['ev'] == 'exc' and 1500 <= e['t'] <= sc['end']]
        events = list(ev)
        for x in excs:
            k = next((i for i, e in enumerate(events) if e['t'] > x['t']), len(events))
            if k == len(events) and events and events[-1]['ev'] == 'end':
                k -= 1
            events.insert(k, {'ev': 'exc', 't': x['t'], 'what': x['what']})
        if net.aborted:
            events.append({'ev': 'exc', 't': events[-1]['t'] if events else 0, 'what': 'Runaway'})
        return {'id': sc['id'], 'events': events}


# ------------------------------------------------------------------------------------------------ behaviours of the model
def _norm(hist: list, calls: list, ups: list) -> Tuple[tuple, tuple, tuple]:
    h = tuple((x['t'], x['d'], x['a'], x['j'], bool(x['rep'])) for x in hist)
    c = tuple((x['t'], x['a'], tuple(x['pk'])) for x in calls)
    u = tuple((x['t'], x['d']) for x in ups)
    return h, c, u


def exhaustive_behaviours(cfg: str) -> List[Tuple[tuple, tuple, tuple]]:
    r = tlc.model_check('Listener', cfg, workers=1, coverage=False, timeout=1800)
    if not r['ok']:
        raise Machinery('Listener/%s: TLC reports %s' % (cfg, r['violated']))
    res = set()
    out = r['out']
    for m in re.finditer(r'<<\s*"BEHAVIOUR",', out):
        val = tlc._tla_to_py(' '.join(sm._balanced(out, m.start()).split()))
        if not isinstance(val, list) or len(val) != 4:
            raise Machinery('cannot parse BEHAVIOUR value: %r' % (val,))
        res.add(_norm(val[1], val[2], val[3]))
    return sorted(res)


def simulated_behaviours(cfg: str, num: int, seed: int) -> List[Tuple[tuple, tuple, tuple, int]]:
    res = set()
    for beh in tlc.simulate('Listener', cfg, num=num, depth=200, seed=seed, timeout=1800):
        if not beh:
            continue
        st = beh[-1]['state']
        if st.get('bad') not in ('', None):
            raise Machinery('Listener simulation reached bad=%r' % st.get('bad'))
        h, c, u = _norm(st.get('hist') or [], st.get('calls') or [], st.get('ups') or [])
        res.add((h, c, u, st.get('now')))
    return sorted(res)


def check_models(ctx: Ctx) -> Dict[str, Any]:
    r = tlc.model_check('Listener', 'MC_Listener' if ctx.thorough else 'MC_Listener_quick', workers=16, timeout=2400)
    if not r['ok']:
        raise Machinery('Listener model: TLC reports %s violated' % r['violated'])
    never = sorted(a for a in ('Receive', 'Fire', 'Skip', 'Tick') if r['actions'].get(a, 0) == 0)
    if never:
        raise Machinery('Listener model: actions never taken: %s' % never)
    d1 = tlc.model_check('Listener', 'MC_Listener_nocancel_defect', workers=16, timeout=900, coverage=False)
    if d1['ok'] or 'bad = "C12_HoldWindow"' not in d1['out']:
        raise Machinery('Listener/MC_Listener_nocancel_defect must reach bad = "C12_HoldWindow"')
    d2 = tlc.model_check('Listener', 'MC_Listener_nodedup_defect', workers=16, timeout=900, coverage=False)
    if d2['ok'] or 'bad = "C16_DuplicateEffect"' not in d2['out']:
        raise Machinery('Listener/MC_Listener_nodedup_defect must reach bad = "C16_DuplicateEffect"')
    lv = tlc.model_check('Listener', 'MC_Listener_live', workers=16, timeout=900, coverage=False)
    if not lv['ok']:
        raise Machinery('Listener/MC_Listener_live: the liveness property Answered does not hold')
    return {'listener_model_states': r['states'], 'listener_model_distinct': r['distinct'], 'listener_model_depth': r['depth'],
            'listener_model_actions': r['actions'],
            'listener_defect_configs_violate': {'MC_Listener_nocancel_defect': 'C12_HoldWindow', 'MC_Listener_nodedup_defect': 'C16_DuplicateEffect'},
            'listener_liveness': 'Answered (held => eventually answered) holds under WF(Next): %d states' % lv['distinct']}


def model_histories(ctx: Ctx, tag: str) -> Tuple[List[dict], Dict[str, Any]]:
    scs: List[dict] = []
    predicted: Dict[str, Any] = {}
    allb = exhaustive_behaviours('MC_Listener_replay')
    n_all = len(allb)
    if tag == 'c15':
        # undecodable datagrams between well-formed ones, gaps below and above the guard's second
        allb = exhaustive_behaviours('MC_Listener_replay_xx')
    elif ctx.thorough:
        allb = allb + exhaustive_behaviours('MC_Listener_replay_big')
    else:
        # quick tier: every sixth history of the small configuration, a different residue for every property that runs this
        allb = allb[int(tag[1:]) % 6::6] if tag != 'c15' else allb
    for k, (h, c, u) in enumerate(allb):
        sid = '%s-lsn-x%d' % (tag, k)
        scs.append({'id': sid, 'hist': [list(x) for x in h], 'end': 5000})
        predicted[sid] = {'calls': [[t, a, list(pk)] for t, a, pk in c], 'ups': [list(x) for x in u], 'upto': 5000}
    for k, (h, c, u, now) in enumerate(simulated_behaviours('Sim_Listener', ctx.pick(150, 3000), ctx.seed + 21)):
        sid = '%s-lsn-s%d' % (tag, k)
        # a random walk may stop anywhere: the comparison ends where the walk ended
        hh = [list(x) for x in h]
        scs.append({'id': sid, 'hist': hh, 'end': now})
        predicted[sid] = {'calls': [[t, a, list(pk)] for t, a, pk in c], 'ups': [list(x) for x in u], 'upto': now}
    return scs, predicted


def run(ctx: Ctx, own: str, replay_scs: Any = None) -> None:
    """Record the model's histories on the real listener, let TLC judge them (clauses of `own`), compare with the model."""
    from props import trace_run
    if replay_scs is None:
        info = check_models(ctx)
        ctx.coverage.update(info)
        scs, predicted = model_histories(ctx, own.lower())
    else:
        scs, predicted = replay_scs, {}
    traces = trace_run.record_all('props.listenermodel', 'ListenerRecorder', scs, 16 if ctx.thorough else 8)
    common = {'kinds': {k: {'kind': v[0], 'tc': v[1], 'qu': v[2]} for k, v in KINDS.items()}, 'addrs': sorted(ADDR), 'own': own}
    verdicts, states, trans = trace_run.validate('Trace_Listener', traces, common, batch=2000, par=4)
    by_id = {t['id']: t for t in traces}
    sc_by_id = {s['id']: s for s in scs}
    rejected: Dict[str, int] = {}
    for v in verdicts:
        _, tid, ok, clause, pos = v[:5]
        if ok:
            continue
        rejected[clause] = rejected.get(clause, 0) + 1
        if clause.startswith('Trace_') or clause == '':
            raise Machinery('malformed listener trace %s at event %s (%r)' % (tid, pos, clause))
        if not clause.startswith(own):
            continue            # another property's clause: that property's check reports it
        tr = by_id[tid]
        e = tr['events'][pos - 1] if 0 < pos <= len(tr['events']) else None
        ctx.report('%s/listener' % clause, '%s rejected event #%d of listener history %s: %s (history %s)' % (clause, pos, tid, e, sc_by_id[tid]['hist']),
                   {'listener_history': sc_by_id[tid], 'clause': clause, 'rejected_event_index': pos, 'trace_tail': tr['events'][max(0, pos - 8):pos]})
    drift = []
    for tr in traces:
        p = predicted.get(tr['id'])
        if p is None:
            continue
        calls = [[e['t'], e['a'], e['pk']] for e in tr['events'] if e['ev'] == 'call' and e['t'] < p['upto']]
        ups = [[e['t'], e['d']] for e in tr['events'] if e['ev'] == 'up' and e['t'] < p['upto']]
        want_c = [c for c in p['calls'] if c[0] < p['upto']]
        want_u = [u for u in p['ups'] if u[0] < p['upto']]
        if calls != want_c or ups != want_u:
            drift.append({'scenario': tr['id'], 'hist': sc_by_id[tr['id']]['hist'], 'real': [calls[:6], ups[:6]], 'model': [want_c[:6], want_u[:6]]})
    for x in drift[:5]:
        print('MODEL-DRIFT property=%s listener history %s: real hand-overs %s, model predicts %s (evidence, not a verdict: the '
              'exhaustively checked model Listener.tla no longer describes the datagram front end)' % (own, x['hist'], x['real'], x['model']))
    ctx.coverage.update({'listener_histories_replayed': len(traces), 'listener_histories_sampling': 'all' if ctx.thorough else 'every sixth of the exhaustive replay configuration, all random walks', 'listener_trace_states': states, 'listener_rejections_by_clause': rejected,
                         'listener_model_drift': len(drift), 'listener_model_drift_samples': drift[:3],
                         'listener_events': sum(len(t['events']) for t in traces),
                         'listener_constants': 'exhaustive: 2 sources, 7 datagram kinds (QM, QU, two TC packets, TC with QU, response, '
                                               'undecodable), hold 400 / 500 ms, 5 (quick) / 6 (thorough) delivery instants each with an optional link-layer '
                                               'repeat; replay: every history of 3 (quick) / 4 (thorough) instants plus random walks over 15 instants'})
    ctx.log('listener model: %d histories on the real listener, %d rejected by the contract (%s), drift %d' % (len(traces), sum(rejected.values()), rejected, len(drift)))


def responder_scenarios(ctx: Ctx, tag: str, limit: int) -> List[dict]:
    """The same histories as full-stack scenarios of the responder family (answerable questions, replies judged by
    Trace_Responder)."""
    from props import respfam as rf
    sp = rf.service_spec(0, 0, 0, 'v4')
    ptr = rf.rec_of(sp, 'ptr')
    out = []
    hs = exhaustive_behaviours('MC_Listener_replay')
    step = max(1, len(hs) // max(1, limit))
    for k, (h, c, u) in enumerate(hs[::step][:limit]):
        steps: List[dict] = [{'op': 'at', 't': 0}, {'op': 'reg', 'svc': sp, 'coop': True}]
        draws: Dict[str, int] = {}
        for n, (t, d, a, j, rep) in enumerate(h):
            steps.append({'op': 'at', 't': t})
            q = {'name': sp['type'], 'type': wire.T_PTR, 'sp': 0, 'qu': d in ('qu', 'tq')}
            if d == 'rs':
                steps.append({'op': 'resp', 'recs': [{'rec': ['_other._tcp.local.', wire.T_PTR, 1, 'X._other._tcp.local.'], 'ttl': 4500}], 'src': ADDR[a]})
            elif d == 'xx':
                steps.append({'op': 'raw', 'data': datagrams()['xx'].hex(), 'src': ADDR[a]})
            else:
                st: Dict[str, Any] = {'op': 'query', 'qs': [] if d == 't2' else [q], 'qid': 0, 'src': ADDR[a]}
                if KINDS[d][1]:
                    st['tc'] = True
                    st['known'] = [{'rec': ptr, 'ttl': 4000}] if d == 't2' else []
                    draws['%d:0' % t] = j
                if d == 'qm2':
                    st['qs'] = [{'name': rf.ENUM, 'type': wire.T_PTR, 'sp': 0, 'qu': False}]
                steps.append(st)
        steps.append({'op': 'at', 't': 6500})
        out.append({'id': '%s-lsnfull-%d' % (tag, k), 'seed': 1, 'steps': steps, 'layout': 'single', 'rand': {'tc': draws, '*': 'lo'}, 'model': True})
    return out
