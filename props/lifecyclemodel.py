"""Bindings 1 and 2 for what is in flight inside an instance when the application calls into it (C08, C17): spec/Lifecycle.tla
is explored exhaustively by TLC against WithdrawnAtClose / GoodbyeComplete / NoResurrection inside the domain the trace contracts
are judged in; the unguarded configurations must reproduce the recorded findings D20 and D27 and the out-of-domain resurrection
in the design.  Every behaviour of the replay configuration (calls register / register-with-probing / unregister / close at the
model's instants) is run on a real instance: the multicast log (instant, announcement / goodbye / probe, services) is compared
with the model's (MODEL-DRIFT, evidence) and the execution is validated by Trace_Responder.tla like any other scenario."""
from __future__ import annotations

import re
from typing import Any, Dict, List, Tuple

from props import respfam as rf
from props import schedmodel as sm
from vf import tlc
from vf.core import Ctx, Machinery

SPECS = {'s1': rf.service_spec(0, 0, 0, 'v4'), 's2': rf.service_spec(1, 1, 1, 'other4')}


def check_models(ctx: Ctx) -> Dict[str, Any]:
    r = tlc.model_check('Lifecycle', 'MC_Lifecycle' if ctx.thorough else 'MC_Lifecycle_quick', workers=16, timeout=1800)
    if not r['ok']:
        raise Machinery('Lifecycle model: TLC reports %s violated' % r['violated'])
    never = sorted(a for a in ('RegCoop', 'RegProbe', 'Unreg', 'Close', 'SendStep', 'ProbeStep', 'CloseStep', 'Tick') if r['actions'].get(a, 0) == 0)
    if never:
        raise Machinery('Lifecycle model: actions never taken: %s' % never)
    want = {'MC_Lifecycle_d20': 'WithdrawnAtClose', 'MC_Lifecycle_d27': 'GoodbyeComplete', 'MC_Lifecycle_busy': 'NoBad'}
    for cfg, inv in want.items():
        d = tlc.model_check('Lifecycle', cfg, workers=16, timeout=900, coverage=False)
        if d['ok'] or d['violated'] != inv:
            raise Machinery('Lifecycle/%s must violate %s (got %s)' % (cfg, inv, d['violated']))
    return {'lifecycle_model_states': r['states'], 'lifecycle_model_distinct': r['distinct'], 'lifecycle_model_actions': r['actions'],
            'lifecycle_unguarded_configs_violate': {'MC_Lifecycle_d20': 'WithdrawnAtClose (finding D20 in the design)',
                                                    'MC_Lifecycle_d27': 'GoodbyeComplete (finding D27 in the design)',
                                                    'MC_Lifecycle_busy': 'NoResurrection (announcement sequence still running at unregister: outside the domain)'}}


def behaviours(cfg: str) -> Dict[tuple, List[tuple]]:
    r = tlc.model_check('Lifecycle', cfg, workers=1, coverage=False, timeout=1800)
    if not r['ok']:
        raise Machinery('Lifecycle/%s: TLC reports %s' % (cfg, r['violated']))
    out = r['out']
    by_hist: Dict[tuple, set] = {}
    for m in re.finditer(r'<<\s*"BEHAVIOUR",', out):
        val = tlc._tla_to_py(' '.join(sm._balanced(out, m.start()).split()))
        if not isinstance(val, list) or len(val) != 3:
            raise Machinery('cannot parse BEHAVIOUR value: %r' % (val,))
        hist = tuple((h['t'], h['op'], h['s']) for h in val[1])
        slog = tuple(sorted({(x['t'], x['k'], tuple(sorted(x['s']))) for x in val[2]}))
        by_hist.setdefault(hist, set()).add(slog)
    return {h: sorted(s) for h, s in by_hist.items()}


def to_scenario(sid: str, hist: tuple) -> dict:
    steps: List[dict] = [{'op': 'at', 't': 0}]
    for (t, op, s) in hist:
        steps.append({'op': 'at', 't': t})
        if op == 'reg':
            steps.append({'op': 'reg', 'svc': SPECS[s], 'coop': True})
        elif op == 'regp':
            steps.append({'op': 'reg_bg', 'svc': SPECS[s], 'coop': False, 'rename': False, 'exact': []})
        elif op == 'unreg':
            steps.append({'op': 'unreg', 'sid': SPECS[s]['sid']})
        elif op == 'close':
            steps.append({'op': 'close'})
    steps.append({'op': 'at', 't': max([t for t, _, _ in hist] + [0]) + 3000})
    return {'id': sid, 'seed': 1, 'steps': steps, 'layout': 'single', 'rand': 'lo', 'model': True}


def model_scenarios(ctx: Ctx, tag: str) -> Tuple[List[dict], Dict[str, Any]]:
    scs, predicted = [], {}
    bh = behaviours('MC_Lifecycle_replay_big' if ctx.thorough else 'MC_Lifecycle_replay')
    for k, (hist, slogs) in enumerate(sorted(bh.items())):
        if not hist:
            continue
        sid = '%s-life-%d' % (tag, k)
        scs.append(to_scenario(sid, hist))
        predicted[sid] = [[list(x) for x in sl] for sl in slogs]
    return scs, predicted


def drift(traces: List[dict], predicted: Dict[str, Any]) -> List[dict]:
    out = []
    sid_of = {v['sid']: k for k, v in SPECS.items()}
    for tr in traces:
        p = predicted.get(tr['id'])
        if p is None:
            continue
        ptr: Dict[int, str] = {}
        for e in tr['events']:
            if e['ev'] == 'api' and e.get('op') == 'reg':
                ptr[e['svc']['ptr']] = sid_of.get(e['svc']['sid'], '?')
        real = []
        for e in tr['events']:
            if e['ev'] != 'send' or e.get('bad') or not e.get('mc'):
                continue
            if e.get('resp'):
                pos = sorted({ptr[a[0]] for a in e['an'] if a[0] in ptr and a[1] > 0})
                neg = sorted({ptr[a[0]] for a in e['an'] if a[0] in ptr and a[1] == 0})
                if pos:
                    real.append([e['t'], 'ann', pos])
                if neg:
                    real.append([e['t'], 'bye', neg])
            elif e.get('ns'):
                who = sorted({ptr[a[0]] for a in e['ns'] if a[0] in ptr})
                if who:
                    real.append([e['t'], 'probe', who])
        # (one entry per instant, kind and service set: the host also answers its own third probe, looped back, at the instant of
        # the first announcement)
        real = [list(x) for x in sorted({(a, b, tuple(c)) for a, b, c in real})]
        real = [[a, b, list(c)] for a, b, c in real]
        want = [[[t, k, list(s)] for (t, k, s) in sl] for sl in p]
        if real not in want:
            k0 = next((i for i, (a, b) in enumerate(zip(real, want[0])) if a != b), min(len(real), len(want[0])))
            out.append({'scenario': tr['id'], 'first_difference_at': k0, 'real': real[max(0, k0 - 2):k0 + 4], 'model': want[0][max(0, k0 - 2):k0 + 4]})
    return out
