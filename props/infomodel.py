"""Bindings 1-3 for the memoised records of a service description (C03): spec/Info.tla is explored exhaustively by TLC against
InfoContract.tla (the configuration in which the registry's memo reset forgets the pointer memo must fail); every history of its
replay configuration is performed on a real ServiceInfo and a real ServiceRegistry, and what the record accessors say is judged
by TLC against the same contract (Trace_Info.tla)."""
from __future__ import annotations

import re
import socket
from typing import Any, Dict, List

from props import schedmodel as sm
from vf import tlc
from vf.core import Ctx, Machinery

ADDRS = {'x': [socket.inet_aton('10.0.0.1')], 'y': [socket.inet_aton('10.0.0.2'), socket.inet_pton(socket.AF_INET6, 'fe80::1')]}
TEXTS = {'a': b'\x03a=1', 'b': b'\x03b=2'}


class InfoRecorder:
    def __init__(self, sc: dict) -> None:
        self.sc = sc

    def run(self) -> dict:
        from zeroconf import ServiceInfo
        from zeroconf._services.registry import ServiceRegistry
        f = dict(self.sc['init'])
        info = ServiceInfo('_http._tcp.local.', 'Alpha._http._tcp.local.', f['port'], properties=TEXTS[f['text']], server='ash.local.',
                           host_ttl=f['httl'], other_ttl=f['ottl'], addresses=ADDRS[f['addrs']])
        reg = ServiceRegistry()
        events: List[dict] = [{'ev': 'init', 'f': f}]
        registered = False
        rev_text = {v: k for k, v in TEXTS.items()}

        def addr_key(recs: Any) -> str:
            got = sorted(bytes(r.address) for r in recs if r.type in (1, 28))
            for k, v in ADDRS.items():
                if got == sorted(v):
                    return k
            return '?%d' % len(got)

        def ttls(recs: Any) -> int:
            ts = {int(r.ttl) for r in recs}
            return ts.pop() if len(ts) == 1 else -2
        from vf import simnet
        clock = simnet.fixed_clock(1000.0)           # (records built with created = 0.0 read the clock)
        clock.__enter__()
        try:
            for h in self.sc['ops']:
                op = h['op']
                if op in ('set', 'setaddrs'):
                    field, v = h['field'], h['v']
                    if field == 'port':
                        info.port = v
                    elif field == 'ottl':
                        info.other_ttl = v
                    elif field == 'httl':
                        info.host_ttl = v
                    elif field == 'text':
                        info.text = TEXTS[v]
                    else:
                        info.addresses = ADDRS[v]
                    events.append({'ev': 'set', 'field': field, 'v': v})
                elif op == 'sync':
                    if registered:
                        reg.async_update(info)
                    else:
                        reg.async_add(info)
                        registered = True
                    events.append({'ev': 'sync'})
                else:
                    kind = h['kind']
                    if kind == 'ptr':
                        r = info.dns_pointer()
                        res = {'ttl': int(r.ttl), 'port': 0, 'text': '', 'addrs': ''}
                    elif kind == 'srv':
                        r = info.dns_service()
                        res = {'ttl': int(r.ttl), 'port': int(r.port), 'text': '', 'addrs': ''}
                    elif kind == 'txt':
                        r = info.dns_text()
                        res = {'ttl': int(r.ttl), 'port': 0, 'text': rev_text.get(bytes(r.text), '?'), 'addrs': ''}
                    elif kind == 'addr':
                        rs = info.dns_addresses()
                        res = {'ttl': ttls(rs), 'port': 0, 'text': '', 'addrs': addr_key(rs)}
                    else:
                        rs = info.get_address_and_nsec_records()
                        res = {'ttl': ttls(rs), 'port': 0, 'text': '', 'addrs': addr_key(rs)}
                    events.append({'ev': 'ask', 'kind': kind, 'res': res})
        except Exception as ex:  # noqa: BLE001
            events.append({'ev': 'exc', 'what': type(ex).__name__})
        finally:
            clock.__exit__()
        events.append({'ev': 'end'})
        return {'id': self.sc['id'], 'events': events}


def histories(cfg: str) -> List[tuple]:
    r = tlc.model_check('Info', cfg, workers=1, coverage=False, timeout=1800)
    if not r['ok']:
        raise Machinery('Info/%s: TLC reports %s' % (cfg, r['violated']))
    res = []
    seen = set()
    out = r['out']
    for m in re.finditer(r'<<\s*"BEHAVIOUR",', out):
        txt = ' '.join(sm._balanced(out, m.start()).split())
        if txt in seen:
            continue
        seen.add(txt)
        val = tlc._tla_to_py(txt)
        if not isinstance(val, list) or len(val) != 2:
            raise Machinery('cannot parse BEHAVIOUR value: %r' % (val,))
        res.append(val[1])
    return res


def initial_fields(ops: List[dict], base: Dict[str, Any]) -> Dict[str, Any]:
    """The model prints the calls, not the initial fields: a Set(field, v) is only enabled when the field differs, so the first
    value of every field that is set is 'the other one'; fields never set keep the base value."""
    f = dict(base)
    other = {'port': {80: 8080, 8080: 80}, 'ottl': {4500: 120, 120: 4500}, 'httl': {120: 60, 60: 120}, 'text': {'a': 'b', 'b': 'a'},
             'addrs': {'x': 'y', 'y': 'x'}}
    seen = set()
    for h in ops:
        if h['op'] in ('set', 'setaddrs') and h['field'] not in seen:
            seen.add(h['field'])
            f[h['field']] = other[h['field']][h['v']]
    return f


def run(ctx: Ctx, own: str, replay_scs: Any = None) -> None:
    from props import trace_run
    if replay_scs is None:
        r = tlc.model_check('Info', 'MC_Info' if ctx.thorough else 'MC_Info_quick', workers=16, timeout=1800)
        if not r['ok']:
            raise Machinery('Info model: TLC reports %s violated' % r['violated'])
        never = sorted(a for a in ('Set', 'SetAddrs', 'Sync', 'Ask') if r['actions'].get(a, 0) == 0)
        if never:
            raise Machinery('Info model: actions never taken: %s' % never)
        d = tlc.model_check('Info', 'MC_Info_ptr_defect', workers=16, timeout=900, coverage=False)
        if d['ok'] or 'bad = "C03_MemoReflectsFields"' not in d['out']:
            raise Machinery('Info/MC_Info_ptr_defect must reach bad = "C03_MemoReflectsFields"')
        hs = histories('MC_Info_replay_big' if ctx.thorough else 'MC_Info_replay')
        scs = []
        base = {'port': 80, 'ottl': 4500, 'httl': 120, 'text': 'a', 'addrs': 'x'}
        for k, ops in enumerate(hs):
            # only histories in which something is asked after a registry add / update
            if not any(h['op'] == 'sync' for h in ops) or ops[-1]['op'] not in ('ask',) and not any(h['op'] == 'ask' for h in ops):
                continue
            scs.append({'id': '%s-info-%d' % (own.lower(), k), 'init': initial_fields(ops, base),
                        'ops': [{'op': h['op'], 'field': h['field'], 'v': h['v'], 'kind': h['kind']} for h in ops]})
        ctx.coverage.update({'info_model_states': r['states'], 'info_model_distinct': r['distinct'], 'info_model_actions': r['actions'],
                             'info_defect_config_violates': 'MC_Info_ptr_defect: C03_MemoReflectsFields'})
    else:
        scs = replay_scs
    traces = trace_run.record_all('props.infomodel', 'InfoRecorder', scs, 16 if ctx.thorough else 8)
    verdicts, states, trans = trace_run.validate('Trace_Info', traces, {}, batch=8000, par=4)
    by_id = {t['id']: t for t in traces}
    sc_by = {s['id']: s for s in scs}
    rejected: Dict[str, int] = {}
    for v in verdicts:
        _, tid, ok, clause, pos = v[:5]
        if ok:
            continue
        rejected[clause] = rejected.get(clause, 0) + 1
        if clause.startswith('Trace_') or clause == '':
            raise Machinery('malformed info trace %s at event %s (%r)' % (tid, pos, clause))
        e = by_id[tid]['events'][pos - 1] if 0 < pos <= len(by_id[tid]['events']) else None
        ctx.report('%s/info' % clause, '%s rejected event #%d of description history %s: %s' % (clause, pos, [
            (h['op'], h.get('field') or h.get('kind'), h.get('v')) for h in sc_by[tid]['ops']], e),
            {'info_history': sc_by[tid], 'clause': clause, 'rejected_event_index': pos})
    ctx.coverage.update({'info_histories_replayed': len(traces), 'info_trace_states': states, 'info_rejections_by_clause': rejected,
                         'info_constants': 'port / other TTL / host TTL / TXT / address set with two values each, 4 calls (replay) / 6-7 calls '
                                           '(exhaustive) of: assign a field, addresses setter, registry add / update, the five record accessors'})
    ctx.log('info model: %d histories on a real ServiceInfo, %d rejected by the contract (%s)' % (len(traces), sum(rejected.values()), rejected))
