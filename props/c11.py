"""C11 -- responder family check (see spec/Trace_Responder.tla, clauses C11_*)."""
from __future__ import annotations

from props.resp_run import run_family
from vf.core import Ctx


def run(ctx: Ctx) -> None:
    # the lifetime predicates the contracts rest on, at every boundary (spec/Ttl.tla, Oracle_Ttl.tla)
    from props import ttloracle
    ttloracle.run(ctx, 'C11')
    from props.respfam import d22_scenarios
    from props import routemodel
    routemodel.run(ctx, 'C11')
    run_family(ctx, 'C11', 'c11', 400, 12000, d22_scenarios('C11'))


def replay(ctx: Ctx, path: str) -> None:
    import json
    rep = json.load(open(path))['replay']
    if 'route_case' in rep:
        from props import routemodel
        routemodel.run(ctx, 'C11', [dict(rep['route_case'], id='route-replay')])
        return
    sc = rep['scenario']
    run_family(ctx, 'C11', 'c11', 0, 0, [sc])
