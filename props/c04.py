"""C04 -- browser callbacks alternate add/remove and always match the cache."""
from __future__ import annotations

import random

from props import cachefam as cf
from props.cache_run import run_family
from vf.core import Ctx


def scenarios(ctx: Ctx) -> list:
    rng = random.Random(ctx.seed * 7919 + 4)
    n = ctx.pick(300, 12000)
    out = []
    for k in range(n):
        nd = rng.choice([6, 10, 16, 24]) if not ctx.thorough else rng.choice([6, 16, 40])
        out.append(cf.gen_scenario(rng, 'c04-%d' % k, nd, with_dups=True, listeners=1, browsers=rng.choice([1, 2, 3]),
                                   ptr_heavy=True, thorough=ctx.thorough))
    return out


def run(ctx: Ctx) -> None:
    # the thread-based browser with a listener that is slow, real threads (props/syncapi.py, Trace_SyncApi.tla)
    from props import syncapi
    syncapi.run(ctx, 'C04')
    from props import cachemodel as cm
    mscs, by_id = cm.scenarios(ctx, ctx.pick(400, 6000), 'c04')
    traces = run_family(ctx, 'C04', scenarios(ctx) + mscs, {})
    cm.drift(ctx, traces, by_id)


def replay(ctx: Ctx, path: str) -> None:
    import json
    sc = json.load(open(path))['replay']['scenario']
    run_family(ctx, 'C04', [sc, sc], {})
