"""C04 -- browser callbacks alternate add/remove and always match the cache."""
from __future__ import annotations

import random

from props import cachefam as cf
from props.cache_run import run_family
from vf.core import Ctx


def scenarios(ctx: Ctx) -> list:
    rng = random.Random(ctx.seed * 7919 + 4)
    n = ctx.pick(300, 12000)
    out = []
    for k in range(n):
        nd = rng.choice([6, 10, 16, 24]) if not ctx.thorough else rng.choice([6, 16, 40])
        out.append(cf.gen_scenario(rng, 'c04-%d' % k, nd, with_dups=True, listeners=1, browsers=rng.choice([1, 2, 3]),
                                   ptr_heavy=True, thorough=ctx.thorough))
    return out


def run(ctx: Ctx) -> None:
    # the thread-based browser with a listener that is slow, real threads (props/syncapi.py, Trace_SyncApi.tla)
    from props import syncapi
    syncapi.run(ctx, 'C04')
    # a population larger than any per-name table a 'reasonable' limit would allow (Oracle_C04Bulk.tla)
    bulk(ctx)
    from props import cachemodel as cm
    mscs, by_id = cm.scenarios(ctx, ctx.pick(400, 6000), 'c04')
    traces = run_family(ctx, 'C04', scenarios(ctx) + mscs, {})
    cm.drift(ctx, traces, by_id)


def replay(ctx: Ctx, path: str) -> None:
    import json
    sc = json.load(open(path))['replay']['scenario']
    run_family(ctx, 'C04', [sc, sc], {})


def bulk_history(n: int) -> dict:
    """N instances of one type announced to a host with a browser, then a third of them withdrawn (virtual time, one host)."""
    import asyncio
    from vf import simnet, wire
    from zeroconf import ServiceListener
    from zeroconf.asyncio import AsyncServiceBrowser
    type_ = '_bulk._tcp.local.'
    out: dict = {'n': n, 'added': [], 'seen': [], 'removed': [], 'cached1': [], 'cached2': [], 'withdrawn': []}

    def num(name: str) -> int:
        try:
            return int(name.split('.')[0].split('-')[1])
        except (IndexError, ValueError):
            return 0

    async def main(net: simnet.Net) -> None:
        h = await net.add_host('h', '10.0.0.1')

        class L(ServiceListener):
            def add_service(self, zc, t, name):            # type: ignore[no-untyped-def]
                out['added'].append(num(name))
                if zc.cache.current_entry_with_name_and_alias(t, name) is not None:
                    out['seen'].append(num(name))

            def remove_service(self, zc, t, name):         # type: ignore[no-untyped-def]
                out['removed'].append(num(name))

            def update_service(self, zc, t, name):         # type: ignore[no-untyped-def]
                pass
        br = AsyncServiceBrowser(h.zc, [type_], listener=L())
        await net.sleep_until(1000)
        per = 40
        for k in range(0, n, per):
            recs = [(type_, wire.T_PTR, 1, 4500, 'Device-%d.%s' % (i + 1, type_)) for i in range(k, min(n, k + per))]
            h.inject(wire.build(flags=0x8400, answers=recs), src='10.0.0.9')
            await net.sleep_until(1000 + (k // per + 1) * 1100)
        t = 1000 + (n // per + 2) * 1100

        def cached() -> list:
            return sorted({num(r.alias) for r in h.zc.cache.get_all_by_details(type_, wire.T_PTR, 1)})
        out['cached1'] = cached()
        gone = [i for i in range(1, n + 1) if i % 3 == 0]
        out['withdrawn'] = gone
        for k in range(0, len(gone), per):
            recs = [(type_, wire.T_PTR, 1, 0, 'Device-%d.%s' % (i, type_)) for i in gone[k:k + per]]
            h.inject(wire.build(flags=0x8400, answers=recs), src='10.0.0.9')
            t += 1100
            await net.sleep_until(t)
        out['cached2'] = cached()
        await br.async_cancel()
        await h.aiozc.async_close()
    net = simnet.Net(seed=1)
    net.run(main(net), limit_ms=3600 * 1000)
    return out


def bulk(ctx: Ctx) -> None:
    from vf import tlc
    n = ctx.pick(1100, 2500)
    h = bulk_history(n)
    res = tlc.run_oracle('Oracle_C04Bulk', 'Oracle_C04Bulk', h, 'c04bulk')
    for v in res['verdicts']:
        if not v[2]:
            ctx.report('%s/bulk' % v[3], '%s: %d instances of one type announced in datagrams of 40 pointers, a third withdrawn: Added %d (seen in the '
                       'cache from the callback: %d), cached %d, Removed %d of %d, cached afterwards %d' % (
                           v[3], n, len(h['added']), len(h['seen']), len(h['cached1']), len(h['removed']), len(h['withdrawn']), len(h['cached2'])),
                       {'bulk': {k: (v2 if not isinstance(v2, list) else len(v2)) for k, v2 in h.items()}})
    ctx.coverage['bulk'] = {'instances': n, 'withdrawn': len(h['withdrawn']), 'what': 'one browser, N instances of one type in datagrams of 40 pointer '
                            'records, a third withdrawn; sets judged by TLC (Oracle_C04Bulk.tla)'}
    ctx.log('bulk history: %d instances, %d added, %d removed' % (n, len(h['added']), len(h['removed'])))
