"""Bindings 1 and 2 for registration with probing (C09): spec/Register.tla is explored exhaustively against the probe-schedule
and conflict-detection contract (the variant that does not re-run the conflict check after a wait must fail), and its
behaviours -- conflicting pointer records arriving around the probe instants -- are replayed into the real
Zeroconf.async_register_service; probe instants, candidate names and the outcome are compared with the model's."""
from __future__ import annotations

import re
from typing import Any, Dict, List, Tuple

from props import respfam as rf
from props import schedmodel as sm
from vf import tlc
from vf.core import Ctx, Machinery

SP = rf.service_spec(0, 0, 0, 'v4')


def _parse(out: str) -> List[tuple]:
    res = set()
    for m in re.finditer(r'<<\s*"BEHAVIOUR",', out):
        val = tlc._tla_to_py(' '.join(sm._balanced(out, m.start()).split()))
        if not isinstance(val, list) or len(val) != 5:
            raise Machinery('cannot parse BEHAVIOUR value: %r' % (val,))
        hist = tuple((h['t'], h['c']) for h in val[1])
        probes = tuple((p['t'], p['k']) for p in val[2])
        res.add((hist, probes, val[3], val[4]))
    return sorted(res)


def exhaustive_behaviours(cfg: str) -> List[tuple]:
    r = tlc.model_check('Register', cfg, workers=1, coverage=False, timeout=1800)
    if not r['ok']:
        raise Machinery('Register/%s: TLC reports %s' % (cfg, r['violated']))
    return _parse(r['out'])


def simulated_behaviours(cfg: str, num: int, seed: int) -> List[tuple]:
    res = set()
    for beh in tlc.simulate('Register', cfg, num=num, depth=200, seed=seed, timeout=1800):
        if not beh:
            continue
        st = beh[-1]['state']
        if st.get('phase') not in ('done', 'failed') or st.get('bad') not in ('', None):
            continue
        hist = tuple((h['t'], h['c']) for h in (st.get('hist') or []))
        probes = tuple((p['t'], p['k']) for p in (st.get('probes') or []))
        res.add((hist, probes, st['phase'], st['k']))
    return sorted(res)


def to_scenario(sid: str, hist: tuple, rename: bool) -> dict:
    evs: List[Tuple[int, int, dict]] = [(1000, 1, {'op': 'reg_bg', 'svc': SP, 'coop': False, 'rename': rename, 'exact': [0, 1, 2]})]
    for (t, c) in hist:
        # a conflict delivered in the millisecond of the registration call comes first in the model only when it was chosen so;
        # the harness delivers conflicts of that instant before the call (Start is not an environment instant in the replay sets
        # except 1000, where the model explores both orders and the comparison accepts either)
        evs.append((t, 0, {'op': 'conflict', 'svc': SP, 'k': c - 1, 'exact': True, 'ttl': 4500}))
    evs.sort(key=lambda x: (x[0], x[1]))
    steps: List[dict] = []
    for (t, _, st) in evs:
        steps += [{'op': 'at', 't': t}, st]
    steps.append({'op': 'at', 't': 4000})
    return {'id': sid, 'seed': 1, 'steps': steps, 'layout': 'single', 'rand': 'lo', 'model': True}


def check_models(ctx: Ctx) -> Dict[str, Any]:
    r = tlc.model_check('Register', 'MC_Register', workers=16, timeout=1200)
    n = tlc.model_check('Register', 'MC_Register_norename', workers=16, timeout=1200, coverage=False)
    if not r['ok'] or not n['ok']:
        raise Machinery('Register model: TLC reports %s / %s violated' % (r['violated'], n['violated']))
    d = tlc.model_check('Register', 'MC_Register_defect', workers=16, timeout=600, coverage=False)
    if d['ok'] or d['violated'] != 'ConflictDetected':
        raise Machinery('Register/MC_Register_defect must violate ConflictDetected, got ok=%s violated=%s' % (d['ok'], d['violated']))
    never = sorted(a for a in ('Begin', 'Resume', 'Receive', 'Skip', 'Tick') if r['actions'].get(a, 0) == 0)
    if never:
        raise Machinery('Register model: actions never taken: %s' % never)
    return {'model': 'Register', 'model_states': r['states'] + n['states'], 'model_distinct': r['distinct'] + n['distinct'],
            'model_depth': r['depth'], 'model_actions': r['actions'], 'defect_config_violates': d['violated']}


def model_scenarios(ctx: Ctx) -> Tuple[List[dict], Dict[str, Any]]:
    predicted: Dict[str, Any] = {}
    scs: List[dict] = []
    n = 0
    for cfg, rename in (('MC_Register_replay', True), ('MC_Register_replay_norename', False)):
        by_hist: Dict[tuple, List[tuple]] = {}
        for hist, probes, phase, k in exhaustive_behaviours(cfg):
            by_hist.setdefault(hist, []).append((probes, phase, k))
        for hist, outs in sorted(by_hist.items()):
            sid = 'c09-model-x%d' % n
            n += 1
            scs.append(to_scenario(sid, hist, rename))
            predicted[sid] = [[list(map(list, p)), ph, k] for p, ph, k in outs]
    by_hist2: Dict[tuple, List[tuple]] = {}
    for hist, probes, phase, k in simulated_behaviours('Sim_Register', ctx.pick(150, 2500), ctx.seed + 13):
        by_hist2.setdefault(hist, []).append((probes, phase, k))
    for j, (hist, outs) in enumerate(sorted(by_hist2.items())):
        sid = 'c09-model-s%d' % j
        scs.append(to_scenario(sid, hist, True))
        predicted[sid] = [[list(map(list, p)), ph, k] for p, ph, k in outs]
    return scs, predicted


def drift(traces: List[dict], predicted: Dict[str, Any]) -> List[dict]:
    out = []
    for tr in traces:
        want = predicted.get(tr['id'])
        if want is None:
            continue
        cand_of: Dict[int, int] = {}
        name_of: Dict[int, int] = {}
        real_p: List[list] = []
        phase, k = 'pending', 0
        for e in tr['events']:
            if e['ev'] == 'api' and e.get('op') == 'reg':
                for j, c in enumerate(e.get('cands', [])):
                    cand_of[c['ptr']] = j + 1
                    name_of[c['name']] = j + 1
            elif e['ev'] == 'send' and not e.get('resp') and e.get('ns'):
                real_p.append([e['t'], cand_of.get(e['ns'][0][0], 0)])
            elif e['ev'] == 'api_ret' and e.get('op') == 'reg':
                if e.get('ok'):
                    phase, k = 'done', name_of.get(e.get('final'), 0)
                else:
                    phase, k = 'failed', real_p[-1][1] if real_p else 1
        real = [real_p, phase, k]
        ok = any(w[0] == real[0] and w[1] == real[1] and (w[2] == real[2] or real[1] == 'failed') for w in want)
        if not ok:
            out.append({'scenario': tr['id'], 'real': real, 'model': want[0]})
    return out
